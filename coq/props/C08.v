(* C08 - density estimates transform correctly under symmetries of the data.
   Property theorems only.  Proofs: thm/C08Thm.v (real analysis, over the GENERATED definitions of world A:
   distance entries, kernel profiles, compute_cov_func, mle, nn_term, loss, transform, compute_ls, compute_mu,
   initial_value_target), thm/C08MxThm.v (MathComp, any real closed field).
   "Fitted values follow the permutation": C08_fitted_follow_permutation proves that EVERY minimiser of the reordered
   problem is the reordered minimiser; uniqueness is a theorem (K + jI spd, concave likelihood term => strictly convex
   function-space objective; thm/C08UniqThm.v, instantiated at R with the generated nn_term in thm/C08UniqR.v).
   Existence too is a theorem at R (C08_nn_fitted_values_well_defined: exactly one minimiser, g minimises the reordered
   problem iff g = P f).  The nearest-neighbour search is
   a library contract (distance to the nearest other row; validated against brute force by C03/C14). *)
From Coq Require Import Reals List ZArith Lra Permutation.
From Coquelicot Require Import Coquelicot.
From MellonV Require Import ALists AKernels AKExpr ACovFunc AInference AKernelsThm ADistThm AInferenceThm C08Thm C08OrthThm.
From MellonV Require MxInst C08MxThm C08UniqThm C08UniqR C08ExistR.
Import ListNotations.

Section RealPart.
Open Scope R_scope.

(* ---------------------------------------------------------------- translations, rotations, reflections *)
Theorem C08_sqdist_isometry : forall n Q t a b, orthogonal n Q -> length t = n -> length a = n -> length b = n ->
  sqdist (vadd (matvec Q a) t) (vadd (matvec Q b) t) = sqdist a b.
Proof. exact sqdist_isometry. Qed.

(* the same under the literal hypothesis Q^T Q = I (columns of Q orthonormal, entry by entry) *)
Theorem C08_sqdist_isometry_entries : forall n Q t a b, orth_entries n Q -> length t = n -> length a = n -> length b = n ->
  sqdist (vadd (matvec Q a) t) (vadd (matvec Q b) t) = sqdist a b.
Proof. exact sqdist_isometry_entries. Qed.

Theorem C08_isometry_of_orthogonal_and_translation : forall n Q t, orth_entries n Q -> length t = n ->
  isometry n (fun x => vadd (matvec Q x) t).
Proof.
  exact (fun n Q t HQ Ht => isometry_compose n _ _ (isometry_orthogonal n Q (orthogonal_from_entries n Q HQ)) (isometry_translate n t Ht)).
Qed.

Theorem C08_distance_entry_isometry : forall n T a b, isometry n T -> length a = n -> length b = n ->
  distance_entry (sumsq (T a)) (dot (T a) (T b)) (sumsq (T b)) = distance_entry (sumsq a) (dot a b) (sumsq b).
Proof. exact (fun n T a b HT => dist_pts_isometry n T HT a b). Qed.

Theorem C08_gram_isometry : forall n T b ls X Y, isometry n T -> stationary b -> all_len n X -> all_len n Y ->
  gram (keval (compute_cov_func (KBase b) ls None)) (map T X) (map T Y)
  = gram (keval (compute_cov_func (KBase b) ls None)) X Y.
Proof. exact (fun n T b ls X Y HT => gram_isometry n T HT b ls X Y). Qed.

Theorem C08_nn_distances_isometry : forall n T X, isometry n T -> all_len n X -> nn_distances (map T X) = nn_distances X.
Proof. exact nn_distances_isometry. Qed.

(* nn distances, ls, mu, K_xu, K_uu, L (any function of the Gram matrices), the loss at every z and the
   regression target of the starting point are equal for (X, U) and (T X, T U) *)
Theorem C08_inference_problem_isometry_invariant : forall lgam factor n T b lsf dl X U,
  isometry n T -> stationary b -> all_len n X -> all_len n U ->
  inference_problem lgam factor b lsf dl (map T X) (map T U) = inference_problem lgam factor b lsf dl X U.
Proof. exact inference_problem_isometry_invariant. Qed.

(* ---------------------------------------------------------------- scaling all coordinates by a > 0 *)
Theorem C08_nn_distances_scale : forall a X, 0 <= a -> nn_distances (map (vscale a) X) = map (Rmult a) (nn_distances X).
Proof. exact nn_distances_scale. Qed.

Theorem C08_ls_scale : forall a r, 0 < a -> r <> [] -> (forall v, In v r -> 0 < v) ->
  compute_ls (map (Rmult a) r) = a * compute_ls r.
Proof. exact compute_ls_scale. Qed.

Theorem C08_mle_scale : forall lgam r d a, 0 < a -> 0 < r -> mle lgam (a * r) d = mle lgam r d + (- d * ln a).
Proof. exact mle_scale. Qed.

Theorem C08_mu_scale : forall lgam a d r, 0 < a -> r <> [] -> (forall v, In v r -> 0 < v) ->
  compute_mu lgam (map (Rmult a) r) (repeat d (length r)) = compute_mu lgam r (repeat d (length r)) - d * ln a.
Proof. exact compute_mu_scale. Qed.

(* the 1e-12 inside `distance` is absolute: Gram_eps(aX; a ls) = Gram_{eps/a^2}(X; ls); the code is the eps = 1e-12 instance *)
Theorem C08_distance_entry_is_eps : forall x y,
  distance_entry (sumsq x) (dot x y) (sumsq y) = dist_eps (1 / 1000000000000) x y.
Proof. exact dist_pts_is_dist_eps. Qed.

Theorem C08_gram_eps_scale : forall a eps b ls X Y, 0 < a -> 0 <= eps -> ls <> 0 ->
  (forall x y, In x X -> In y Y -> length x = length y) ->
  gram (base_k_eps eps b (a * ls)) (map (vscale a) X) (map (vscale a) Y) = gram (base_k_eps (eps / a ^ 2) b ls) X Y.
Proof. exact gram_eps_scale. Qed.

Theorem C08_base_k_is_eps : forall b ls x y, stationary b -> base_k b ls x y = base_k_eps (1 / 1000000000000) b ls x y.
Proof. exact base_k_is_eps. Qed.

(* loss_aX(z) = loss_X(z) + n ln a  (same L; nn distances a r; mu - d ln a) *)
Theorem C08_loss_scale : forall lgam a d r mu L z, 0 < a -> (forall v, In v r -> 0 < v) -> length L = length r ->
  loss lgam (INR (length z)) (map (Rmult a) r) (repeat d (length r)) (transform (mu - d * ln a) L) z
  = loss lgam (INR (length z)) r (repeat d (length r)) (transform mu L) z + INR (length r) * ln a.
Proof. exact loss_scale. Qed.

Theorem C08_fitted_values_shift : forall mu c L z, transform (mu - c) L z = map (fun v => v - c) (transform mu L z).
Proof. exact transform_shift. Qed.

Theorem C08_initial_target_scale : forall lgam a d r mu, 0 < a -> 0 < r ->
  initial_value_target lgam (a * r) d (mu - d * ln a) = initial_value_target lgam r d mu.
Proof. exact initial_target_scale. Qed.

(* dimensionality estimator: the Poisson term is compensated only by a latent-dependent shift (local dimension * ln a),
   so its fitted values are not scale-equivariant - see the finding reported by checks/C08.py *)
Theorem C08_poisson_term_scale : forall lgam a dist cnt dims ld, 0 < a -> 0 < dist ->
  poisson_term lgam (a * dist) cnt dims (ld - dims * ln a) = poisson_term lgam dist cnt dims ld.
Proof. exact poisson_term_scale. Qed.

(* ---------------------------------------------------------------- affine change of the time axis *)
Theorem C08_time_cov_affine : forall a c b ls lt x y t t', stationary b -> 0 < a -> lt <> 0 ->
  keval (compute_cov_func (KBase b) ls (Some (a * lt))) (x ++ [a * t + c]) (y ++ [a * t' + c])
  = base_k b ls x y * base_k_eps (1 / 1000000000000 / a ^ 2) b lt [t] [t'].
Proof. exact time_cov_affine. Qed.

Theorem C08_time_cov_reference : forall b ls lt x y t t', stationary b ->
  keval (compute_cov_func (KBase b) ls (Some lt)) (x ++ [t]) (y ++ [t'])
  = base_k b ls x y * base_k_eps (1 / 1000000000000) b lt [t] [t'].
Proof. exact time_cov_reference. Qed.

Theorem C08_time_derivative_scale : forall (f : R -> R) df a c t, a <> 0 -> is_derive f t df ->
  is_derive (fun s => f ((s - c) / a)) (a * t + c) (df / a).
Proof. exact time_derivative_scale. Qed.

(* ---------------------------------------------------------------- reordering the cells *)
Theorem C08_ls_mu_permutation : forall lgam cs cs', Permutation cs cs' ->
  compute_ls (c_r cs) = compute_ls (c_r cs') /\ compute_mu lgam (c_r cs) (c_d cs) = compute_mu lgam (c_r cs') (c_d cs').
Proof. exact (fun lgam cs cs' H => conj (compute_ls_perm cs cs' H) (compute_mu_perm lgam cs cs' H)). Qed.

Theorem C08_loss_permutation : forall lgam mu cs cs' z, Permutation cs cs' ->
  loss lgam (INR (length z)) (c_r cs) (c_d cs) (transform mu (c_L cs)) z
  = loss lgam (INR (length z)) (c_r cs') (c_d cs') (transform mu (c_L cs')) z.
Proof. exact loss_permutation. Qed.
End RealPart.

Print Assumptions C08_sqdist_isometry.
Print Assumptions C08_sqdist_isometry_entries.
Print Assumptions C08_isometry_of_orthogonal_and_translation.
Print Assumptions C08_distance_entry_isometry.
Print Assumptions C08_gram_isometry.
Print Assumptions C08_nn_distances_isometry.
Print Assumptions C08_inference_problem_isometry_invariant.
Print Assumptions C08_nn_distances_scale.
Print Assumptions C08_ls_scale.
Print Assumptions C08_mle_scale.
Print Assumptions C08_mu_scale.
Print Assumptions C08_distance_entry_is_eps.
Print Assumptions C08_gram_eps_scale.
Print Assumptions C08_base_k_is_eps.
Print Assumptions C08_loss_scale.
Print Assumptions C08_fitted_values_shift.
Print Assumptions C08_initial_target_scale.
Print Assumptions C08_poisson_term_scale.
Print Assumptions C08_time_cov_affine.
Print Assumptions C08_time_cov_reference.
Print Assumptions C08_time_derivative_scale.
Print Assumptions C08_ls_mu_permutation.
Print Assumptions C08_loss_permutation.

(* ---------------------------------------------------------------- matrix part *)
From mathcomp Require Import all_ssreflect all_fingroup all_algebra.
Import Order.TTheory GRing.Theory Num.Theory.

Section MatrixPart.
Local Open Scope ring_scope.
Variable F : rcfType.

(* entry-wise orthogonality: Q^T Q = I  =>  |(Q a + t) - (Q b + t)|^2 = |a - b|^2 *)
Theorem C08_sqdist_isometry_mx n (Q : 'M[F]_n) (t a b : 'cV[F]_n) : Q^T *m Q = 1%:M ->
  C08MxThm.sqn ((Q *m a + t) - (Q *m b + t)) = C08MxThm.sqn (a - b).
Proof. exact: C08MxThm.sqdist_isometry_mx. Qed.

(* Gram(PX) = P Gram(X) P^T *)
Theorem C08_gram_permutation (T : Type) n (k : T -> T -> F) (x : 'I_n -> T) (s : 'S_n) :
  C08MxThm.gram_mx k (fun i => x (s i)) = perm_mx s *m C08MxThm.gram_mx k x *m (perm_mx s)^T.
Proof. exact: C08MxThm.gram_permutation. Qed.

(* J_PX(P f) = J_X(f) for the function-space objective of the full model *)
Theorem C08_objective_permutation (ell : F -> F -> F) n (K : 'M[F]_n) (j mu : F) (r f : 'cV[F]_n) (s : 'S_n) :
  K + j%:M \in unitmx ->
  C08MxThm.objective ell (perm_mx s *m K *m (perm_mx s)^T) j mu (perm_mx s *m r) (perm_mx s *m f)
  = C08MxThm.objective ell K j mu r f.
Proof. exact: C08MxThm.objective_permutation. Qed.

Theorem C08_fitted_follow_permutation_partial (ell : F -> F -> F) n (K : 'M[F]_n) (j mu : F) (r f : 'cV[F]_n) (s : 'S_n) :
  K + j%:M \in unitmx ->
  C08MxThm.unique_min (C08MxThm.objective ell K j mu r) f ->
  C08MxThm.unique_min (C08MxThm.objective ell (perm_mx s *m K *m (perm_mx s)^T) j mu (perm_mx s *m r)) (perm_mx s *m f).
Proof. exact: C08MxThm.fitted_follow_permutation_partial. Qed.

(* Uniqueness is no longer a hypothesis: with K + jI symmetric positive definite and a likelihood term that is
   (midpoint-)concave in the log-density, J is strictly convex, any two minimisers coincide, and every minimiser of the
   reordered problem is the reordered minimiser (thm/C08UniqThm.v).  Existence of a minimiser is not proved. *)
Theorem C08_objective_min_unique (ell : F -> F -> F) n (K : 'M[F]_n) (j mu : F) (r f g : 'cV[F]_n) :
  MxInst.spd (K + j%:M) -> C08UniqThm.concave2 ell ->
  C08UniqThm.is_min (C08MxThm.objective ell K j mu r) f -> C08UniqThm.is_min (C08MxThm.objective ell K j mu r) g -> f = g.
Proof. exact: C08UniqThm.objective_min_unique. Qed.

Theorem C08_fitted_follow_permutation (ell : F -> F -> F) n (K : 'M[F]_n) (j mu : F) (r f g : 'cV[F]_n) (s : 'S_n) :
  MxInst.spd (K + j%:M) -> C08UniqThm.concave2 ell ->
  C08UniqThm.is_min (C08MxThm.objective ell K j mu r) f ->
  C08UniqThm.is_min (C08MxThm.objective ell (perm_mx s *m K *m (perm_mx s)^T) j mu (perm_mx s *m r)) g ->
  g = perm_mx s *m f.
Proof. exact: C08UniqThm.fitted_follow_permutation. Qed.

Theorem C08_permuted_minimiser_is_min (ell : F -> F -> F) n (K : 'M[F]_n) (j mu : F) (r f : 'cV[F]_n) (s : 'S_n) :
  K + j%:M \in unitmx ->
  C08UniqThm.is_min (C08MxThm.objective ell K j mu r) f ->
  C08UniqThm.is_min (C08MxThm.objective ell (perm_mx s *m K *m (perm_mx s)^T) j mu (perm_mx s *m r)) (perm_mx s *m f).
Proof. exact: C08UniqThm.permuted_minimiser_is_min. Qed.
End MatrixPart.

From MellonV Require Import Rstruct.
(* ... and at Coq's real numbers with the GENERATED nearest-neighbour term nn_term (concavity: thm/AConvexThm.v) *)
Theorem C08_nn_fitted_follow_permutation (lgam : R -> R) (d : R) n (K : 'M[R]_n) (j mu : R) (r f g : 'cV[R]_n) (s : 'S_n) :
  (MxInst.spd (K + j%:M))%R ->
  C08UniqThm.is_min (C08MxThm.objective (C08UniqR.ell_nn lgam d) K j mu r) f ->
  C08UniqThm.is_min (C08MxThm.objective (C08UniqR.ell_nn lgam d) (perm_mx s *m K *m (perm_mx s)^T)%R j mu (perm_mx s *m r)%R) g ->
  g = (perm_mx s *m f)%R.
Proof. exact: C08UniqR.nn_fitted_follow_permutation. Qed.

(* the complete statement for the full model at R: K + jI spd  =>  the function-space objective with the generated nn_term has
   EXACTLY ONE minimiser f, and g minimises the reordered problem iff g = P f (existence: Cholesky factor of lib/MxChol.v turns the
   objective into the generated latent-coordinate loss, whose minimiser exists by thm/AExistThm.v; thm/C08ExistR.v) *)
Theorem C08_nn_fitted_values_well_defined (lgam : R -> R) (d : R) n (K : 'M[R]_n) (j mu : R) (r : 'cV[R]_n) :
  (MxInst.spd (K + j%:M))%R ->
  exists f, [/\ C08UniqThm.is_min (C08MxThm.objective (C08UniqR.ell_nn lgam d) K j mu r) f,
               (forall g, C08UniqThm.is_min (C08MxThm.objective (C08UniqR.ell_nn lgam d) K j mu r) g -> g = f)
             & forall (s : 'S_n) g,
                 C08UniqThm.is_min (C08MxThm.objective (C08UniqR.ell_nn lgam d) (perm_mx s *m K *m (perm_mx s)^T)%R j mu (perm_mx s *m r)%R) g
                 <-> g = (perm_mx s *m f)%R].
Proof. exact: C08ExistR.nn_fitted_values_well_defined. Qed.

Print Assumptions C08_sqdist_isometry_mx.
Print Assumptions C08_gram_permutation.
Print Assumptions C08_objective_permutation.
Print Assumptions C08_fitted_follow_permutation_partial.
Print Assumptions C08_objective_min_unique.
Print Assumptions C08_fitted_follow_permutation.
Print Assumptions C08_permuted_minimiser_is_min.
Print Assumptions C08_nn_fitted_follow_permutation.
Print Assumptions C08_nn_fitted_values_well_defined.
