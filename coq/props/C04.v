(* C04 - covariance factor: L L^T is the specified approximation, never above K.
   Property theorems only; proofs live in thm/FactorThm.v.  full_rank,
   standard_low_rank_PN/PM, full_decomposition_low_rank, modified_low_rank are
   regenerated from mellon/decomposition.py on every run (gen/MatGen.v).
   Oracles: cholesky (chol_contract), _eigendecomposition keeping p pairs
   (eig_contract: eigh contract + the count/slicing logic proved in C10), reduced
   QR (qr_contract) - validated on the recorded calls of every run.  Shapes
   (one row per cell, m or p columns) hold by typing of the generated definitions.
   sigma is the estimators' noise parameter (0 by default): jitter' = max(sigma^2, jitter). *)
From mathcomp Require Import all_ssreflect all_fingroup all_algebra.
From MellonV Require Import MatOps MxInst MxPsd MxChol MxSpectral SpectralThm MatGen CondThm FactorThm.
Set Implicit Arguments.
Unset Strict Implicit.
Import Order.TTheory GRing.Theory Num.Theory.
Local Open Scope ring_scope.

Section C04.
Variable F : rcfType.
Variable cholF : forall n : nat, 'M[F]_n -> 'M[F]_n.
Variable eigS : forall n p : nat, 'M[F]_n -> 'cV[F]_p.
Variable eigV : forall n p : nat, 'M[F]_n -> 'M[F]_(n, p).
Variable qrQ : forall n m k : nat, 'M[F]_(n, m) -> 'M[F]_(n, k).
Variable qrR : forall n m k : nat, 'M[F]_(n, m) -> 'M[F]_(k, m).
Hypothesis chol_ok : chol_contract cholF.
Hypothesis eig_ok : eig_contract eigS eigV.
Hypothesis qr_ok : qr_contract qrQ qrR.
Let ops := MxOps cholF eigS eigV qrQ qrR.
Local Existing Instance ops.

(* full: L lower-triangular with positive diagonal and L L^T = K + max(sigma^2, j) I *)
Theorem C04_full_LLt n (K : 'M[F]_n) (s j : F) :
  sym K -> psd K -> 0 < j ->
  let L := full_rank K s j in
  chol_of L (K + (Num.max (s ^+ 2) j)%:M) /\ L *m L^T = K + (Num.max (s ^+ 2) j)%:M.
Proof. by move=> sK pK j0 L; split; [apply: full_rank_chol|apply: full_LLt]. Qed.

(* inducing points: L = K_xu Lp^-T and L L^T = K_xu (K_uu + j' I)^-1 K_ux;
   a supplied Lp (lower-triangular) is used as given *)
Theorem C04_standard_LLt n m (Kxu : 'M[F]_(n, m)) (Kuu : 'M[F]_m) (s j : F) (Lp : 'M[F]_m) s' j' :
  sym Kuu -> psd Kuu -> 0 < j ->
  [/\ standard_low_rank_PN Kxu Kuu s j = Kxu *m invmx (full_rank Kuu s j)^T,
      standard_low_rank_PN Kxu Kuu s j *m (standard_low_rank_PN Kxu Kuu s j)^T
        = Kxu *m invmx (Kuu + (Num.max (s ^+ 2) j)%:M) *m Kxu^T
    & is_lower Lp -> standard_low_rank_PM Kxu Lp s' j' = Kxu *m invmx Lp^T].
Proof.
move=> sK pK j0; split; [exact: standard_recomputed|exact: standard_LLt|].
by move=> lL; apply: standard_given.
Qed.

(* full Nystroem: L L^T = V_p S_p V_p^T (kept eigenpairs of K + j' I); the gap is the
   discarded part  Vd Sd Vd^T with Sd >= 0, hence positive semi-definite *)
Theorem C04_full_nystroem_LLt n p (K : 'M[F]_n) (s j : F) (rank : nat) :
  sym K -> psd K -> 0 < j -> (p <= n)%N ->
  let W := K + (Num.max (s ^+ 2) j)%:M in
  let L := full_decomposition_low_rank p K rank s j in
  L *m L^T = eigV p W *m diagv (eigS p W) *m (eigV p W)^T
  /\ exists q, exists sd : 'cV[F]_q, exists Vd : 'M[F]_(n, q),
       [/\ (q + p = n)%N, W - L *m L^T = Vd *m diagv sd *m Vd^T, (forall i, 0 <= sd i 0),
           psd (W - L *m L^T) & Vd^T *m Vd = 1%:M].
Proof. by move=> sK pK j0 pn W L; apply: nystroem_LLt. Qed.

(* improved Nystroem: L L^T = Q [M]_p Q^T with M = R W^-1-part R^T, Q M Q^T = K_xu (v S^-1 v^T) K_ux,
   and Q M Q^T - L L^T is positive semi-definite *)
Theorem C04_modified_LLt n m kq p p1 (Kxu : 'M[F]_(n, m)) (Kuu : 'M[F]_m) (s j : F) (rank : nat) :
  sym Kuu -> psd Kuu -> 0 < j ->
  let W := Kuu + (Num.max (s ^+ 2) j)%:M in
  let Q := qrQ kq Kxu in let R := qrR kq Kxu in
  let Winv := eigV p W *m diagv (\col_i (eigS p W i 0)^-1) *m (eigV p W)^T in
  let Mi := R *m eigV p W *m diagv (\col_i (eigS p W i 0)^-1) *m (R *m eigV p W)^T in
  let L := modified_low_rank kq p p1 Kxu Kuu rank s j in
  kq = minn n m ->                            (* reduced QR *)
  (p <= m)%N -> (p1 <= \rank Mi)%N ->      (* at most #(positive eigenvalues) pairs are kept: C10 *)
  [/\ L *m L^T = Q *m (eigV p1 Mi *m diagv (eigS p1 Mi) *m (eigV p1 Mi)^T) *m Q^T,
      Mi = R *m Winv *m R^T,
      Q *m Mi *m Q^T = Kxu *m Winv *m Kxu^T
    & psd (Q *m Mi *m Q^T - L *m L^T)].
Proof. by move=> sK pK j0 W Q R Winv Mi L kqm pm p1r; apply: modified_LLt. Qed.

(* never above K: with the joint Gram matrix of inducing points and cells positive
   semi-definite (kernel_psd hypothesis), K_xx - K_xu (K_uu + j' I)^-1 K_ux >= 0,
   hence (K_xx + j I) - L L^T >= 0 for the inducing-point factor *)
Theorem C04_never_above_K_standard n m (Kxu : 'M[F]_(n, m)) (Kuu : 'M[F]_m) (Kxx : 'M[F]_n) (s j : F) :
  sym Kuu -> psd Kuu -> 0 < j -> psd (block_mx Kuu Kxu^T Kxu Kxx) ->
  let L := standard_low_rank_PN Kxu Kuu s j in
  psd (Kxx - L *m L^T) /\ psd ((Kxx + j%:M) - L *m L^T).
Proof.
move=> sK pK j0 pJ L.
have h : psd (Kxx - L *m L^T).
  by rewrite /L standard_LLt //; apply: nystroem_below => //; apply: max_jitter_gt0.
split=> //; have -> : Kxx + j%:M - L *m L^T = (Kxx - L *m L^T) + j%:M by rewrite addrAC.
by apply: psdD => //; apply: psd_scalar; apply: ltW.
Qed.

(* full: equality (the gap is 0) when sigma^2 <= j *)
Theorem C04_never_above_K_full n (K : 'M[F]_n) (s j : F) :
  sym K -> psd K -> 0 < j -> s ^+ 2 <= j ->
  psd ((K + j%:M) - full_rank K s j *m (full_rank K s j)^T).
Proof.
move=> sK pK j0 sj; rewrite full_LLt //.
have -> : Num.max (s ^+ 2) j = j by apply/max_idPr.
by rewrite subrr; apply: psd0.
Qed.

End C04.

(* non-vacuity of the Cholesky contract assumed above: lib/MxChol.v constructs the factor of every
   symmetric positive definite matrix over any real closed field *)
Theorem C04_chol_contract_satisfiable (F : rcfType) : chol_contract (@cholm F).
Proof. exact: chol_contract_cholm. Qed.

(* ... and it determines the factor: two oracles that meet it agree on every spd matrix, so the generated
   definitions are functions of the kernel matrices alone *)
Theorem C04_chol_factor_unique (F : rcfType) (c1 c2 : forall n : nat, 'M[F]_n -> 'M[F]_n) :
  chol_contract c1 -> chol_contract c2 -> forall n (A : 'M[F]_n), spd A -> c1 n A = c2 n A.
Proof. exact: chol_contract_unique. Qed.

Print Assumptions C04_full_LLt.
Print Assumptions C04_standard_LLt.
Print Assumptions C04_full_nystroem_LLt.
Print Assumptions C04_modified_LLt.
Print Assumptions C04_never_above_K_standard.
Print Assumptions C04_never_above_K_full.
Print Assumptions C04_chol_contract_satisfiable.
Print Assumptions C04_chol_factor_unique.

(* The spectral theorem for symmetric matrices over a real closed field (lib/MxSpectral.v: a real eigenpair from
   the determinant of (A - a)^2 + b^2 over F[i], Householder reflection, induction on the dimension) ... *)
Theorem C04_spectral_theorem (F : rcfType) n (A : 'M[F]_n) :
  sym A -> exists P : 'M[F]_n, exists d : 'cV[F]_n, P^T *m P = 1%:M /\ A = P *m diagv d *m P^T.
Proof. exact: spectral. Qed.
Print Assumptions C04_spectral_theorem.

(* ... gives the decomposition the eigen contract asks for when all n pairs of a positive definite matrix are
   requested (full-rank request: nothing discarded) ... *)
Theorem C04_eig_contract_full_rank_satisfiable (F : rcfType) n (W : 'M[F]_n) :
  spd W -> exists s : 'cV[F]_n, exists V : 'M[F]_(n, n), eig_top_of W s V.
Proof. exact: eig_top_full. Qed.
Print Assumptions C04_eig_contract_full_rank_satisfiable.

(* ... and for every p <= rank W (the side condition under which the contract is claimed): p positive eigenpairs are
   split off one at a time by Householder deflation, the remaining n - p pairs are the discarded ones.  Every instance
   of the contract's conclusion is therefore realisable; no theorem that assumes eig_contract is vacuous. *)
Theorem C04_eig_contract_instances_exist (F : rcfType) n p (W : 'M[F]_n) :
  sym W -> psd W -> (p <= \rank W)%N -> exists s : 'cV[F]_p, exists V : 'M[F]_(n, p), eig_top_of W s V.
Proof. exact: eig_top_exists. Qed.
Print Assumptions C04_eig_contract_instances_exist.

(* the side condition reads "no more pairs than positive eigenvalues" - exactly what the count rule of
   _eigendecomposition (C10) keeps: the rank of a positive semi-definite matrix is its number of positive eigenvalues *)
Theorem C04_rank_is_positive_eigen_count (F : rcfType) n (W : 'M[F]_n) :
  sym W -> psd W -> exists P : 'M[F]_n, exists d : 'cV[F]_n,
    [/\ P^T *m P = 1%:M, W = P *m diagv d *m P^T, (forall i, 0 <= d i 0) & \rank W = #|[set i | 0 < d i 0]|].
Proof. exact: rank_is_positive_eigen_count. Qed.
Print Assumptions C04_rank_is_positive_eigen_count.

(* the reduced-QR contract is satisfiable: Householder QR by induction on the dimensions (lib/MxSpectral.v, qr_exists),
   turned into functions by the choice operator of MathComp's choiceType (no axiom) *)
Theorem C04_qr_contract_satisfiable (F : rcfType) :
  qr_contract (fun n m k (C : 'M[F]_(n, m)) => (qr_pair k C).1) (fun n m k (C : 'M[F]_(n, m)) => (qr_pair k C).2).
Proof. exact: qr_contract_satisfiable. Qed.
Print Assumptions C04_qr_contract_satisfiable.

