(* C14 — within-time-point neighbour distances and sampling normalisation.
   Property theorems only (proofs: thm/C14Thm.v; generated functions and tables: gen/C14Gen.v, regenerated every run;
   loop model: thm/C14Model.v). *)
From Coq Require Import ZArith QArith List Bool Sorting.Sorted.
From MellonV Require Import PyVal PyValExtC14 C14Gen C14Model C14Thm.
Import ListNotations.
Open Scope Z_scope.

(* the statements of the source loop are the statements the hand-written loop model mirrors; compute_nn_distances is
   compute_distances(x, 1)[:, 0]; n_obs is set from compute_average_cell_count(self.x, self.normalize_per_time_point) *)
Theorem C14_skeleton :
  nnwt_skeleton = expected_nnwt_skeleton
  /\ compute_nn_distances_skeleton = expected_compute_nn_distances_skeleton
  /\ n_obs_wiring = expected_n_obs_wiring.
Proof. exact skeleton_ok. Qed.
Print Assumptions C14_skeleton.

(* nn_within_spec: for ANY number of cells and time points: every time point has at least two cells, and output i is
   (factor of its group member) * (neighbour distance of cell i inside the group of cells with its time stamp), at the
   ORIGINAL position i; positions of no listed time point keep their initial value *)
Theorem C14_nn_within_spec :
  forall (P : Type) (nn_oracle : list P -> list xf) (fac : xf -> list bool -> nat -> res (option (list xf))),
  (forall g, length (nn_oracle g) = length g) ->
  forall cs : list (P * xf),
  (forall t fs, fac t (mask_of cs t) (count_true (mask_of cs t)) = Ok (Some fs) -> length fs = count_true (mask_of cs t)) ->
  forall uts init out,
  length init = length cs -> distinct uts ->
  loop nn_oracle fac cs uts init = Ok out ->
  length out = length cs
  /\ (forall u, In u uts ->
        (2 <= count_true (mask_of cs u))%nat /\
        exists fo, fac u (mask_of cs u) (count_true (mask_of cs u)) = Ok fo /\
          forall i, (i < length cs)%nat -> xf_eqb (time_of cs i) u = true -> nth i out XNaN = value_at nn_oracle cs u fo i)
  /\ (forall i, (i < length cs)%nat -> (forall u, In u uts -> xf_eqb (time_of cs i) u = false) -> nth i out XNaN = nth i init XNaN).
Proof. exact (@loop_spec). Qed.
Print Assumptions C14_nn_within_spec.

(* under the contract of the neighbour search, the group value is the distance to the closest OTHER cell with the SAME stamp *)
Theorem C14_nearest_same_time_point :
  forall (P : Type) (dP : P) (dist : P -> P -> xf) (le : xf -> xf -> Prop) (nn_oracle : list P -> list xf),
  (forall g k, (2 <= length g)%nat -> (k < length g)%nat -> is_nn dP dist le g k (nth k (nn_oracle g) XNaN)) ->
  forall (cs : list (P * xf)) u i,
  (i < length cs)%nat -> xf_eqb (time_of cs i) u = true -> (2 <= count_true (mask_of cs u))%nat ->
  let v := nth (rank (mask_of cs u) i) (nn_oracle (select (mask_of cs u) (map fst cs))) XNaN in
  (exists j, (j < length cs)%nat /\ j <> i /\ xf_eqb (time_of cs j) u = true /\ v = dist (point_of dP cs i) (point_of dP cs j))
  /\ (forall j, (j < length cs)%nat -> j <> i -> xf_eqb (time_of cs j) u = true -> le v (dist (point_of dP cs i) (point_of dP cs j))).
Proof. exact (@group_nn_is_within_time_point). Qed.
Print Assumptions C14_nearest_same_time_point.

(* the whole routine (generated prologue + loop), times as trailing column, no normalisation *)
Theorem C14_routine_raw :
  forall (nn_oracle : list (list xf) -> list xf) (powf : xf -> xf -> xf),
  (forall g, length (nn_oracle g) = length g) ->
  forall n c dat d nz v,
  0 <= n -> 1 <= c -> nz = VNone \/ nz = VBool false ->
  nn_within nn_oracle powf (VArr KF [n; c] dat) VNone d nz = Ok v ->
  let cs := cells_of dat n c in
  let uts := sort_dedup (col_list dat n c (c - 1)) in
  exists out, v = VArr KF [n] out /\ length out = Z.to_nat n /\
    forall i, (i < Z.to_nat n)%nat ->
      exists u, In u uts /\ xf_eqb (time_of cs i) u = true /\ (2 <= count_true (mask_of cs u))%nat /\
        nth i out XNaN = nth (rank (mask_of cs u) i) (nn_oracle (select (mask_of cs u) (feature_rows dat n c))) XNaN.
Proof. exact nn_within_column_raw. Qed.
Print Assumptions C14_routine_raw.

Theorem C14_singleton_refused :
  forall (P : Type) (nn_oracle : list P -> list xf) (fac : xf -> list bool -> nat -> res (option (list xf))) (cs : list (P * xf)) uts init u,
  In u uts -> (count_true (mask_of cs u) < 2)%nat -> (forall t m n, exists fo, fac t m n = Ok fo) ->
  loop nn_oracle fac cs uts init = Err ValueError.
Proof. exact (@loop_singleton_refused). Qed.
Print Assumptions C14_singleton_refused.

(* unique times: ascending ("earliest to latest"), pairwise distinct, covering every stamp *)
Theorem C14_unique_times :
  forall l, distinct (sort_dedup l)
  /\ (existsb xf_isnan l = false -> StronglySorted lt_rel (sort_dedup l))
  /\ (forall x, In x l -> xf_isnan x = false -> exists u, In u (sort_dedup l) /\ xf_eqb x u = true).
Proof. intros l. split; [apply sort_dedup_distinct|]. split; [apply sort_dedup_sorted|apply sort_dedup_cover]. Qed.
Print Assumptions C14_unique_times.

(* factor_spec: powf (n_t / N_t) applied to one exponent per group member ... *)
Theorem C14_factor_spec :
  forall powf nz av uv d t m n target Nt b es,
  norm_on nz = true ->
  py_parameters__get_target_cell_count nz (VArr KF [] [t]) av uv = Ok target ->
  as_num target = Some Nt -> xf_div (xf_of_Z (Z.of_nat n)) (num_xf Nt) = Some b ->
  exponents d m = Ok es ->
  fac_of powf nz av uv d t m n = Ok (Some (map (powf b) es)).
Proof. exact fac_of_on. Qed.
Print Assumptions C14_factor_spec.

(* ... the exponent is 1/d (scalar) or 1/d_i of the member's own cell (vector) ... *)
Theorem C14_factor_exponent :
  (forall q m, Qeq_bool q 0 = false -> exponents (VFloat (XFin q)) m = Ok (repeat (XFin (Qred (1 / q))) (count_true m)))
  /\ (forall kd n dd m, exponents (VArr kd [n] dd) m = Ok (map xf_inv (select m dd))).
Proof. split; [exact exponents_scalar|exact exponents_vector]. Qed.
Print Assumptions C14_factor_exponent.

(* ... and N_t is the average for True, the entry of the dict, the j-th entry for the j-th unique time in ascending order *)
Theorem C14_factor_target :
  (forall b t av uv, py_parameters__get_target_cell_count (VBool b) t av uv = Ok av)
  /\ (forall l t av uv, py_parameters__get_target_cell_count (VDict l) (VArr KF [] [t]) av uv
        = match assoc_lookup (VFloat t) l with Some v => Ok v | None => Err KeyError end)
  /\ (forall l uts k j av, distinct uts -> (j < length uts)%nat -> xf_isnan (nth j uts XNaN) = false -> (j < length l)%nat ->
        py_parameters__get_target_cell_count (VList l) (VArr KF [] [nth j uts XNaN]) av (VArr KF [k] uts) = Ok (nth j l VNone))
  /\ (forall kd n d uts k j av, distinct uts -> (j < length uts)%nat -> xf_isnan (nth j uts XNaN) = false -> Z.of_nat j < n ->
        py_parameters__get_target_cell_count (VArr kd [n] d) (VArr KF [] [nth j uts XNaN]) av (VArr KF [k] uts)
        = Ok (VArr kd [] [nth j d XNaN])).
Proof. exact (conj target_bool (conj target_dict (conj target_list target_array))). Qed.
Print Assumptions C14_factor_target.

Theorem C14_missing_key_refused :
  forall l k uts,
  py_parameter_validation_validate_normalize_parameter (VDict l) (VArr KF [k] uts)
  = if forallb (has_key l) uts then Ok VNone else Err ValueError.
Proof. exact validate_normalize_dict. Qed.
Print Assumptions C14_missing_key_refused.

Theorem C14_wrong_length_refused :
  (forall l k uts, py_parameter_validation_validate_normalize_parameter (VList l) (VArr KF [k] uts)
     = if Z.of_nat (length l) =? k then Ok VNone else Err ValueError)
  /\ (forall kd n d k uts, py_parameter_validation_validate_normalize_parameter (VArr kd [n] d) (VArr KF [k] uts)
     = if n =? k then Ok VNone else Err ValueError)
  /\ (forall kd n d k uts, py_parameter_validation_validate_normalize_parameter (VNpArr kd [n] d) (VArr KF [k] uts)
     = if n =? k then Ok VNone else Err ValueError).
Proof. exact (conj validate_normalize_list (conj validate_normalize_array validate_normalize_nparray)). Qed.
Print Assumptions C14_wrong_length_refused.

(* n_obs: cells per time point; mean of the dict entries of the time points present; mean of the list *)
Theorem C14_n_obs_spec :
  (forall n c dat nz, 1 <= c -> nz = VNone \/ (exists b, nz = VBool b) ->
     py_parameters_compute_average_cell_count (VArr KF [n; c] dat) nz = py_truediv (VInt n) (VInt (n_unique dat n c)))
  /\ (forall n c dat l, 1 <= c -> forallb (dict_has l) (sort_dedup (col_list dat n c (c - 1))) = true ->
     py_parameters_compute_average_cell_count (VArr KF [n; c] dat) (VDict l)
     = bind (py_sum (VList (map (dict_get l) (sort_dedup (col_list dat n c (c - 1))))))
            (fun s => py_truediv s (VInt (n_unique dat n c))))
  /\ (forall n c dat l, 1 <= c ->
     py_parameters_compute_average_cell_count (VArr KF [n; c] dat) (VList l)
     = bind (bind (np_asarray (VList l)) np_sum) (fun s => py_truediv s (VInt (Z.of_nat (length l))))).
Proof. exact (conj average_count_flag (conj average_count_dict average_count_list)). Qed.
Print Assumptions C14_n_obs_spec.

Theorem C14_ls_uses_raw :
  forall nnw ls_of ls_factor nn nz x, norm_on nz = true ->
  tsde_compute_ls nnw ls_of ls_factor nn nz x
  = bind (nnw x VNone VNone (VBool false)) (fun raw => bind (ls_of raw) (fun ls => py_mul ls ls_factor)).
Proof. exact ls_uses_raw_lemma. Qed.
Print Assumptions C14_ls_uses_raw.

Theorem C14_nn_distances_wiring :
  forall nnw d nz x,
  tsde_compute_nn_distances nnw d nz x = bind (nnw x VNone d nz) (fun v => py_validation_validate_nn_distances v (VBool false)).
Proof. exact compute_nn_wiring. Qed.
Print Assumptions C14_nn_distances_wiring.

Theorem C14_explicit_nn_untouched :
  forall nnw k n dat d nz x,
  prepare_attr14 (VArr k [n] dat) (tsde_compute_nn_distances nnw d nz x) = Ok (VArr k [n] dat).
Proof. exact explicit_nn_untouched_lemma. Qed.
Print Assumptions C14_explicit_nn_untouched.

(* ---- non-vacuity: the hypotheses of the implications are satisfiable on a concrete instance ---- *)
Definition ex_cells : list (list xf * xf) :=
  [([XFin 1], XFin (3#2)); ([XFin 2], XFin (1#4)); ([XFin 3], XFin (3#2)); ([XFin 4], XFin (1#4)); ([XFin 5], XFin (3#2))].
Definition ex_nn (g : list (list xf)) : list xf := map (fun r => hd XNaN r) g.
Example C14_nonvacuous_loop :
  loop ex_nn (fac_of (fun b e => b) (VList [VInt 4; VInt 6]) (VFloat (XFin (5#2))) (VArr KF [2] [XFin (1#4); XFin (3#2)]) (VFloat (XFin 1)))
       ex_cells (sort_dedup (map snd ex_cells)) (repeat (XFin 0) 5)
  = Ok [XFin (1#2); XFin 1; XFin (3#2); XFin 2; XFin (5#2)].
Proof. vm_compute. reflexivity. Qed.
Example C14_nonvacuous_factor :
  norm_on (VBool true) = true /\ exponents (VFloat (XFin 2)) [true; false; true] = Ok [XFin (1#2); XFin (1#2)]
  /\ distinct [XFin (1#4); XFin (3#2)].
Proof. split; [reflexivity|]. split; [vm_compute; reflexivity|]. apply (sort_dedup_distinct [XFin (3#2); XFin (1#4); XFin (3#2)]). Qed.
Example C14_nonvacuous_singleton :
  loop ex_nn (fun _ _ _ => Ok None) (([XFin 9], XFin 7) :: ex_cells) (sort_dedup (map snd (([XFin 9], XFin 7) :: ex_cells))) (repeat (XFin 0) 6)
  = Err ValueError.
Proof. vm_compute. reflexivity. Qed.
Example C14_nonvacuous_routine :
  nn_within ex_nn (fun b e => b) (VArr KF [4; 2] [XFin 1; XFin 2; XFin 5; XFin 0; XFin 3; XFin 2; XFin 7; XFin 0]) VNone VNone (VBool false)
  = Ok (VArr KF [4] [XFin 1; XFin 5; XFin 3; XFin 7]).
Proof. vm_compute. reflexivity. Qed.
