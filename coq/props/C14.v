(* C14 — within-time-point neighbour distances and sampling normalisation.
   Property theorems only (proofs: thm/C14Thm.v; generated functions and tables: gen/C14Gen.v, regenerated every run;
   loop model: thm/C14Model.v). *)
From Coq Require Import ZArith QArith List String.
From MellonV Require Import PyVal PyValExtC14 C14Gen C14Model C14Thm.
Import ListNotations.
Open Scope Z_scope.

Theorem C14_skeleton :
  nnwt_skeleton = expected_nnwt_skeleton
  /\ compute_nn_distances_skeleton = expected_compute_nn_distances_skeleton
  /\ n_obs_wiring = expected_n_obs_wiring.
Proof. exact skeleton_ok. Qed.
Print Assumptions C14_skeleton.
