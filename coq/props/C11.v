(* C11 - Analytic kernel gradients equal the true derivatives for every expression.
   Property theorems only; proofs live in thm/AProfiles.v and thm/AGradThm.v.  The k_grad
   coefficients, the distance-gradient entry and the Add/Mul/Pow gradient arithmetic are
   regenerated from mellon/cov.py, base_cov.py, util.py on every run (gen/AKernels.v).
   [kgrad] is what the code returns; [kgrad_true] is the same composition with the exact
   distance derivative at the leaves: the code's leaves carry the explicit factor
   dist/(dist+1e-12) (theorems C11_distance_gradient_factor, C11_leaf_factor). *)
From Coq Require Import Reals List ZArith Lra Lia.
From Coquelicot Require Import Coquelicot.
From MellonV Require Import ALists AKernels AKExpr AListsFacts AProfiles ADistThm AGradThm AKPos AGradSyn.
Import ListNotations.
Open Scope R_scope.

(* ---- radial derivative of each generated profile = generated k_grad coefficient *)
Theorem C11_Matern32_radial_derivative : forall ls d, ls <> 0 ->
  is_derive (fun t => Matern32_k ls t) d (Matern32_kgrad_coeff ls d).
Proof. exact Matern32_radial_derivative. Qed.
Print Assumptions C11_Matern32_radial_derivative.

Theorem C11_Matern52_radial_derivative : forall ls d, ls <> 0 ->
  is_derive (fun t => Matern52_k ls t) d (Matern52_kgrad_coeff ls d).
Proof. exact Matern52_radial_derivative. Qed.
Print Assumptions C11_Matern52_radial_derivative.

Theorem C11_ExpQuad_radial_derivative : forall ls d, ls <> 0 ->
  is_derive (fun t => ExpQuad_k ls t) d (ExpQuad_kgrad_coeff ls d).
Proof. exact ExpQuad_radial_derivative. Qed.
Print Assumptions C11_ExpQuad_radial_derivative.

Theorem C11_Exponential_radial_derivative : forall ls d, ls <> 0 ->
  is_derive (fun t => Exponential_k ls t) d (Exponential_kgrad_coeff ls d).
Proof. exact Exponential_radial_derivative. Qed.
Print Assumptions C11_Exponential_radial_derivative.

Theorem C11_RatQuad_radial_derivative : forall alpha ls d, ls <> 0 -> 0 < alpha ->
  is_derive (fun t => RatQuad_k alpha ls t) d (RatQuad_kgrad_coeff alpha ls d).
Proof. exact RatQuad_radial_derivative. Qed.
Print Assumptions C11_RatQuad_radial_derivative.

(* the k_grad bodies are that coefficient times the distance gradient *)
Theorem C11_kgrad_bodies_linear : forall a ls d g,
  Matern32_kgrad ls d g = Matern32_kgrad_coeff ls d * g /\
  Matern52_kgrad ls d g = Matern52_kgrad_coeff ls d * g /\
  ExpQuad_kgrad ls d g = ExpQuad_kgrad_coeff ls d * g /\
  Exponential_kgrad ls d g = Exponential_kgrad_coeff ls d * g /\
  RatQuad_kgrad a ls d g = RatQuad_kgrad_coeff a ls d * g.
Proof.
  intros. repeat split.
  apply Matern32_kgrad_linear. apply Matern52_kgrad_linear. apply ExpQuad_kgrad_linear.
  apply Exponential_kgrad_linear. apply RatQuad_kgrad_linear.
Qed.
Print Assumptions C11_kgrad_bodies_linear.

(* ---- the distance and its gradient *)
Theorem C11_distance_partial : forall x y c, length x = length y -> (c < length y)%nat ->
  is_derive (fun t => dist_pts x (upd y c t)) (nth c y 0) ((nth c y 0 - nth c x 0) / dist_pts x y).
Proof. exact dist_partial. Qed.
Print Assumptions C11_distance_partial.

Theorem C11_distance_gradient_factor : forall x y c, length x = length y ->
  dgrad_code x y c = dgrad_true x y c * (dist_pts x y / (dist_pts x y + 1 / 1000000000000))
  /\ 1 - 1 / 1000000 <= dist_pts x y / (dist_pts x y + 1 / 1000000000000) < 1.
Proof. intros x y c H. split; [exact (dgrad_code_factor x y c H)|exact (eps_factor_range x y H)]. Qed.
Print Assumptions C11_distance_gradient_factor.

Theorem C11_distance_gradient_close : forall x y c, length x = length y ->
  Rabs (dgrad_code x y c - dgrad_true x y c) <= 1 / 1000000 * Rabs (dgrad_true x y c).
Proof. exact dgrad_code_close. Qed.
Print Assumptions C11_distance_gradient_close.

Theorem C11_distance_gradient_coincident : forall x c, dgrad_code x x c = 0 /\ dgrad_true x x c = 0.
Proof. exact dgrad_coincident. Qed.
Print Assumptions C11_distance_gradient_coincident.

(* every denominator of the gradient is at least 1e-6: finite everywhere *)
Theorem C11_kgrad_finite : forall x y, length x = length y ->
  1 / 1000000 <= dist_code x y + distance_grad_eps.
Proof. exact dist_denominator_pos. Qed.
Print Assumptions C11_kgrad_finite.

(* ---- every expression tree, any depth, any active_dims form per node, scalar operands, powers of positive bases *)
Theorem C11_kgrad_correct : forall e x y c, length x = length y -> (c < length y)%nat -> wfk e x y ->
  is_derive (fun t => keval e x (upd y c t)) (nth c y 0) (kgrad_true e x y c).
Proof. exact kgrad_correct. Qed.
Print Assumptions C11_kgrad_correct.

(* the same statement with a well-formedness premise that does not mention the points: wfs e n (thm/AKPos.v) is wfk with the
   positivity of every Pow operand replaced by the syntactic kpos (every stationary leaf, sums, products, + c >= 0, * c > 0,
   Pow), so the analytic gradient of such a tree is the true derivative at EVERY pair of points of width n *)
Theorem C11_wfs_implies_wfk : forall e x y, length x = length y -> wfs e (length y) -> wfk e x y.
Proof. exact wfs_wfk. Qed.
Print Assumptions C11_wfs_implies_wfk.

Theorem C11_kgrad_correct_all_points : forall e n, wfs e n -> forall x y c, length x = n -> length y = n -> (c < n)%nat ->
  is_derive (fun t => keval e x (upd y c t)) (nth c y 0) (kgrad_true e x y c).
Proof. exact kgrad_correct_all_points. Qed.
Print Assumptions C11_kgrad_correct_all_points.

Example C11_wfs_nonvacuous :
  wfs (KMul (KPow (KAddC (KBase BExpQuad 2 (DInt (-1)%Z)) (1 / 2) (DList [0%Z; 2%Z])) (3 / 2) DNone)
            (KBase (BRatQuad 3) 1 (DMask [true; false; true])) (DSlice None None None)) 3.
Proof. exact wfs_example. Qed.

Theorem C11_leaf_factor : forall b ls x y c, stationary b -> length x = length y ->
  base_kgrad dgrad_code b ls x y c = base_kgrad dgrad_true b ls x y c * (dist_pts x y / (dist_pts x y + 1 / 1000000000000)).
Proof. exact base_kgrad_code_factor. Qed.
Print Assumptions C11_leaf_factor.

Theorem C11_kgrad_inactive_zero : forall e x y c, dims_of e <> DNone ->
  ~ In c (resolve_dims (dims_of e) (length y)) -> kgrad e x y c = 0.
Proof. intros e x y c. exact (kgrad_inactive_zero dgrad_code e x y c). Qed.
Print Assumptions C11_kgrad_inactive_zero.

Theorem C11_Linear_kgrad : forall ls x y c, base_kgrad dgrad_code BLinear ls x y c = nth c x 0 / ls.
Proof. exact (Linear_kgrad_entry dgrad_code). Qed.
Print Assumptions C11_Linear_kgrad.

(* ---- non-vacuity: a well-formed depth-3 tree with four different active_dims forms *)
Example C11_nonvacuous :
  let e := KMul (KPow (KAddC (KBase BExpQuad 2 (DInt (-1)%Z)) (1 / 2) (DList [0%Z; 2%Z])) (3 / 2) DNone)
                (KBase (BRatQuad 3) 1 (DMask [true; false; true])) (DSlice None None None) in
  let x := [1; 2; 3] in let y := [4; 5; 6] in
  wfk e x y /\ length x = length y /\ (1 < length y)%nat /\ dims_of e <> DNone
  /\ ~ In 5%nat (resolve_dims (dims_of e) (length y)).
Proof. exact wfk_example. Qed.
