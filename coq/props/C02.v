(* C02 - predictor reproduces the fitted training values; normalisation is exact.
   Property theorems only.  Proofs: thm/C02MeanThm.v (result tails of the `mean` methods, generated into
   gen/C02Mean.v), thm/C02DispatchThm.v (which predictor is built on which points with which factor and n_obs,
   generated into gen/C02Dispatch.v), props/C02mx.v -> thm/FactorThm.v, thm/AffineThm.v (matrix identities over the
   definitions generated into gen/MatGen.v). *)
From Coq Require Import Reals ZArith List String.
From MellonV Require Import PyVal PyValExtC02 C02Mean C02MeanThm C02Dispatch C02DispatchThm.
From MellonV Require C02mx.
Import ListNotations.

(* ------------------------------------------------------------------ normalisation, positive-valued predictors *)
Section Scalar.
Open Scope R_scope.

(* normalize_exact: with normalize=True the value is lowered by exactly ln(n_obs); without it it is returned unchanged *)
Theorem C02_normalize_exact (m n : R) : n <> 0 ->
  Predictor_mean_tail m true (Some n) = Ok (m - ln n) /\ Predictor_mean_tail m false (Some n) = Ok m
  /\ PredictorTime_mean_tail m true (Some n) = Ok (m - ln n) /\ PredictorTime_mean_tail m false (Some n) = Ok m.
Proof.
  exact (fun H => conj (eq_trans (Predictor_mean_normalize m true (Some n)) (normalize_spec_value m n H))
                 (conj (Predictor_mean_normalize m false (Some n))
                 (conj (eq_trans (PredictorTime_mean_normalize m true (Some n)) (normalize_spec_value m n H))
                       (PredictorTime_mean_normalize m false (Some n))))).
Qed.

(* normalisation is refused with ValueError exactly when n_obs is None or 0 *)
Theorem C02_normalize_refuses (m : R) (n_obs : option R) :
  ((n_obs = None \/ n_obs = Some 0) <-> Predictor_mean_tail m true n_obs = Err ValueError)
  /\ ((n_obs = None \/ n_obs = Some 0) <-> PredictorTime_mean_tail m true n_obs = Err ValueError).
Proof. exact (conj (normalize_spec_refuses m n_obs) (normalize_spec_refuses m n_obs)). Qed.

(* exp_predictor: the returned value is exp of the log-scale value, hence > 0; logscale=True returns the log-scale value *)
Theorem C02_exp_predictor (m : R) :
  ExpPredictor_mean_tail m false = Ok (exp m) /\ 0 < exp m /\ ExpPredictor_mean_tail m true = Ok m.
Proof. exact (ExpPredictor_mean_exp m). Qed.
End Scalar.

(* ------------------------------------------------------------------ dispatch, factor, n_obs *)
Section Dispatch.
Open Scope Z_scope.
Open Scope string_scope.
Variable oracle : string -> list val -> res val.

(* what each estimator hands to its predictor, for every resolved type (predictor_consistent spells out the five cases) *)
Theorem C02_density_predictor_consistent n d xd lm cov jit g y mu pz zd zstd wu Lp L p rank chk :
  c02_base_model_BaseEstimator__compute_Lp oracle cov (VEnum g) jit (lm_val lm) (xarr n d xd) = Ok Lp ->
  c02_base_model_BaseEstimator__compute_L oracle Lp chk cov (VEnum g) jit (lm_val lm) rank (xarr n d xd) = Ok L ->
  c02_density_estimator_DensityEstimator__set_log_density_func oracle L Lp cov (VEnum g) jit (lm_val lm) y mu
    (VArr KF [pz] zd) zstd (VBool wu) (xarr n d xd) = Ok p ->
  predictor_consistent oracle "FullConditional" "LandmarksConditionalCholesky" "LandmarksConditional" eq
    (xarr n d xd) lm cov jit g y (VArr KF [pz] zd) pz Lp L p (VInt n).
Proof. exact (density_predictor_consistent oracle n d xd lm cov jit g y mu pz zd zstd wu Lp L p rank chk). Qed.

Theorem C02_time_predictor_consistent n d xd lm cov jit g y mu pz zd zstd wu Lp L p rank chk nrm :
  c02_base_model_BaseEstimator__compute_Lp oracle cov (VEnum g) jit (lm_val lm) (xarr n d xd) = Ok Lp ->
  c02_base_model_BaseEstimator__compute_L oracle Lp chk cov (VEnum g) jit (lm_val lm) rank (xarr n d xd) = Ok L ->
  c02_time_sensitive_density_estimator_TimeSensitiveDensityEstimator__set_log_density_func oracle L Lp cov (VEnum g) jit
    (lm_val lm) y mu nrm (VArr KF [pz] zd) zstd (VBool wu) (xarr n d xd) = Ok p ->
  exists p0 avg,
    predictor_consistent oracle "FullConditionalTime" "LandmarksConditionalCholeskyTime" "LandmarksConditionalTime" eq
      (xarr n d xd) lm cov jit g y (VArr KF [pz] zd) pz Lp L p0 (VInt n)
    /\ c02_parameters_compute_average_cell_count (xarr n d xd) nrm = Ok avg
    /\ obj_setattr p0 "n_obs" avg = Ok p.
Proof. exact (time_predictor_consistent oracle n d xd lm cov jit g y mu pz zd zstd wu Lp L p rank chk nrm). Qed.

Theorem C02_local_dim_predictor_consistent n d xd lm cov jit g y mu pz zd zstd wu Lp L p rank chk :
  c02_base_model_BaseEstimator__compute_Lp oracle cov (VEnum g) jit (lm_val lm) (xarr n d xd) = Ok Lp ->
  c02_base_model_BaseEstimator__compute_L oracle Lp chk cov (VEnum g) jit (lm_val lm) rank (xarr n d xd) = Ok L ->
  c02_dimensionality_estimator_DimensionalityEstimator__set_local_dim_func oracle L Lp cov (VEnum g) jit (lm_val lm) y mu
    (VArr KF [2; pz] zd) zstd (VBool wu) (xarr n d xd) = Ok p ->
  predictor_consistent oracle "ExpFullConditional" "ExpLandmarksConditionalCholesky" "ExpLandmarksConditional" (log_link oracle)
    (xarr n d xd) lm cov jit g y (zrow pz zd 0) pz Lp L p (VInt n).
Proof. exact (local_dim_predictor_consistent oracle n d xd lm cov jit g y mu pz zd zstd wu Lp L p rank chk). Qed.

Theorem C02_dim_density_predictor_consistent n d xd lm cov jit g y mu pz zd zstd wu Lp L p rank chk :
  c02_base_model_BaseEstimator__compute_Lp oracle cov (VEnum g) jit (lm_val lm) (xarr n d xd) = Ok Lp ->
  c02_base_model_BaseEstimator__compute_L oracle Lp chk cov (VEnum g) jit (lm_val lm) rank (xarr n d xd) = Ok L ->
  c02_dimensionality_estimator_DimensionalityEstimator__set_log_density_func oracle L Lp cov (VEnum g) jit (lm_val lm) y mu
    (VArr KF [2; pz] zd) zstd (VBool wu) (xarr n d xd) = Ok p ->
  predictor_consistent oracle "FullConditional" "LandmarksConditionalCholesky" "LandmarksConditional" eq
    (xarr n d xd) lm cov jit g y (zrow pz zd 1) pz Lp L p (VInt n).
Proof. exact (dim_density_predictor_consistent oracle n d xd lm cov jit g y mu pz zd zstd wu Lp L p rank chk). Qed.

(* dispatch_matches_factor: whenever the Cholesky-latent family is built, the type is sparse_cholesky / fixed, the
   predictor's inducing points are the estimator's landmarks (one latent entry each), and the factor handed to the
   predictor is _full_rank(those landmarks, cov, 0, jitter) - the same factor that produced
   L = _standard_low_rank(x, cov, those landmarks, Lp = it).  (Reverting either repair - fix commits 8a478b7,
   4ef1c81 - breaks the *_predictor_consistent theorems above: see thm/C02DispatchThm.v for the two witnesses.) *)
Theorem C02_dispatch_matches_factor cf cc cd ylink x lm cov jit g y z pz Lp L p nobs :
  cf <> cc -> cd <> cc ->
  predictor_consistent oracle cf cc cd ylink x lm cov jit g y z pz Lp L p nobs ->
  obj_class p = Some cc ->
  exists m dd ld, lm = Some (m, dd, ld) /\ (g = SPARSE_CHOLESKY \/ g = FIXED) /\ pz = m /\ Lp <> VNone
    /\ chol_pred cc p (lm_val lm) z Lp nobs
    /\ oracle "_full_rank" [lm_val lm; cov; VInt 0; jit] = Ok Lp
    /\ oracle "_standard_low_rank" [x; cov; lm_val lm; Lp; VInt 0; jit] = Ok L.
Proof. exact (dispatch_matches_factor oracle cf cc cd ylink x lm cov jit g y z pz Lp L p nobs). Qed.

(* the predictor class of an accepted type (sparse types have inducing points; sparse_cholesky / fixed a landmark
   factor and one latent entry per landmark): full types -> full family, sparse_nystroem -> inducing-point family
   whatever the retained rank, sparse_cholesky / fixed -> Cholesky-latent family *)
Theorem C02_family_for_type cf cc cd ylink x m dd ld cov jit g y z pz Lp L p nobs :
  predictor_consistent oracle cf cc cd ylink x (Some (m, dd, ld)) cov jit g y z pz Lp L p nobs ->
  (g = SPARSE_CHOLESKY \/ g = FIXED -> Lp <> VNone /\ pz = m) ->
  obj_class p = Some (family_class cf cc cd g).
Proof. exact (family_for_type oracle cf cc cd ylink x m dd ld cov jit g y z pz Lp L p nobs). Qed.

(* n_obs_spec: the predictor reports the number of training cells ... *)
Theorem C02_n_obs_spec cf cc cd ylink n d xd lm cov jit g y z pz Lp L p fl1 fl2 fl3 :
  lookup_class cf = Some ("_FullConditional", fl1) -> lookup_class cc = Some ("_LandmarksConditionalCholesky", fl2) ->
  lookup_class cd = Some ("_LandmarksConditional", fl3) ->
  predictor_consistent oracle cf cc cd ylink (xarr n d xd) lm cov jit g y z pz Lp L p (VInt n) ->
  predictor_n_obs p = Ok (VInt n).
Proof. exact (n_obs_spec oracle cf cc cd ylink n d xd lm cov jit g y z pz Lp L p fl1 fl2 fl3). Qed.

(* ... and, for the time-sensitive estimator, the average cell count per time point stored after construction *)
Theorem C02_n_obs_spec_time cf cc cd ylink x lm cov jit g y z pz Lp L p0 nobs avg p fl1 fl2 fl3 :
  lookup_class cf = Some ("_FullConditional", fl1) -> lookup_class cc = Some ("_LandmarksConditionalCholesky", fl2) ->
  lookup_class cd = Some ("_LandmarksConditional", fl3) ->
  predictor_consistent oracle cf cc cd ylink x lm cov jit g y z pz Lp L p0 nobs ->
  obj_setattr p0 "n_obs" avg = Ok p ->
  predictor_n_obs p = Ok avg.
Proof. exact (n_obs_spec_time oracle cf cc cd ylink x lm cov jit g y z pz Lp L p0 nobs avg p fl1 fl2 fl3). Qed.
End Dispatch.

(* the average: number of cells / number of distinct values of the time column (normalize None or a bool) *)
Theorem C02_average_cell_count_default n d xd nrm : (1 <= d)%Z -> (nrm = VNone \/ exists b, nrm = VBool b) ->
  c02_parameters_compute_average_cell_count (xarr n d xd) nrm = py_truediv (VInt n) (VInt (n_times n d xd)).
Proof. exact (average_cell_count_default n d xd nrm). Qed.

(* resolution order (landmarks, then Lp, then L; predictor setters after the fitted values) and which `mean` each of the
   nine predictor classes inherits, read from the source as tables *)
Theorem C02_order_and_classes :
  (forallb (fun o => before "landmarks" "Lp" o && before "Lp" "L" o && before "gp_type" "landmarks" o && before "cov_func" "Lp" o)
    [c02_prepare_order_DensityEstimator; c02_prepare_order_TimeSensitiveDensityEstimator; c02_prepare_order_DimensionalityEstimator] = true
  /\ before "_set_log_density_x" "_set_log_density_func" c02_process_steps_DensityEstimator = true
  /\ before "_set_log_density_x" "_set_log_density_func" c02_process_steps_TimeSensitiveDensityEstimator = true
  /\ before "_set_local_dim_x" "_set_local_dim_func" c02_process_steps_DimensionalityEstimator = true
  /\ before "_set_local_dim_x" "_set_log_density_func" c02_process_steps_DimensionalityEstimator = true)%string%bool
  /\ (map lookup_class ["FullConditional"; "LandmarksConditionalCholesky"; "LandmarksConditional"]
    = [Some ("_FullConditional", "Predictor"); Some ("_LandmarksConditionalCholesky", "Predictor"); Some ("_LandmarksConditional", "Predictor")]
  /\ map lookup_class ["FullConditionalTime"; "LandmarksConditionalCholeskyTime"; "LandmarksConditionalTime"]
    = [Some ("_FullConditional", "PredictorTime"); Some ("_LandmarksConditionalCholesky", "PredictorTime"); Some ("_LandmarksConditional", "PredictorTime")]
  /\ map lookup_class ["ExpFullConditional"; "ExpLandmarksConditionalCholesky"; "ExpLandmarksConditional"]
    = [Some ("_FullConditional", "ExpPredictor"); Some ("_LandmarksConditionalCholesky", "ExpPredictor"); Some ("_LandmarksConditional", "ExpPredictor")])%string.
Proof. exact (conj c02_order_tables c02_class_flavours). Qed.

Print Assumptions C02_normalize_exact.
Print Assumptions C02_normalize_refuses.
Print Assumptions C02_exp_predictor.
Print Assumptions C02_density_predictor_consistent.
Print Assumptions C02_time_predictor_consistent.
Print Assumptions C02_local_dim_predictor_consistent.
Print Assumptions C02_dim_density_predictor_consistent.
Print Assumptions C02_dispatch_matches_factor.
Print Assumptions C02_family_for_type.
Print Assumptions C02_n_obs_spec.
Print Assumptions C02_n_obs_spec_time.
Print Assumptions C02_average_cell_count_default.
Print Assumptions C02_order_and_classes.

(* ------------------------------------------------------------------ the matrix identities (re-exported from props/C02mx.v) *)
From mathcomp Require Import all_ssreflect all_fingroup all_algebra.
From MellonV Require Import MatOps MxInst MxPsd MatGen CondThm AffineThm FactorThm.
Import Order.TTheory GRing.Theory Num.Theory.

Section Matrix.
Local Open Scope ring_scope.
Variable F : rcfType.
Variable cholF : forall n : nat, 'M[F]_n -> 'M[F]_n.
Variable eigS : forall n p : nat, 'M[F]_n -> 'cV[F]_p.
Variable eigV : forall n p : nat, 'M[F]_n -> 'M[F]_(n, p).
Variable qrQ : forall n m k : nat, 'M[F]_(n, m) -> 'M[F]_(n, k).
Variable qrR : forall n m k : nat, 'M[F]_(n, m) -> 'M[F]_(k, m).
Hypothesis chol_ok : chol_contract cholF.
Let ops := MxOps cholF eigS eigV qrQ qrR.
Local Existing Instance ops.

(* chol_insample_exact: with the same Lp for L = K_xu Lp^-T (_standard_low_rank) and for the predictor's weights
   (the situation C02_dispatch_matches_factor establishes), the predictor at the cells returns L z + mu exactly *)
Theorem C02_chol_insample_exact n m c (Kxu : 'M[F]_(n, m)) (Lp : 'M[F]_m) (z : 'M[F]_(m, c)) mu n_obs s1 j1 s2 j2 :
  is_lower Lp ->
  LandmarksCholCond_mean Kxu mu (LandmarksCholCond_init_LM_sS_yT_uF_weights z mu n_obs Lp s1 j1)
  = const_mx mu + standard_low_rank_PM Kxu Lp s2 j2 *m z.
Proof. exact: (@C02mx.C02_chol_insample_exact F cholF eigS eigV qrQ qrR). Qed.

(* full_insample_error: full / full_nystroem predictors (factor of K + jI on the cells, y_is_mean): mean(X) - y = - j weights *)
Theorem C02_full_insample_error n c (K : 'M[F]_n) (y : 'M[F]_(n, c)) (mu j s : F) :
  sym K -> psd K -> 0 < j ->
  FullCond_mean K mu (FullCond_init_LN_sS_cN_yT_uF_weights K y mu s j) - y
  = - (j *: FullCond_init_LN_sS_cN_yT_uF_weights K y mu s j).
Proof. exact: (@C02mx.C02_full_insample_error F cholF eigS eigV qrQ qrR chol_ok). Qed.

(* dtc_insample_error: inducing-point predictors: if y - mu = K_xu c0 then
   mean(X) - y = - j K_xu (K_ux K_xu + j (K_uu + jI))^-1 (K_uu + jI) c0 *)
Theorem C02_dtc_insample_error n m c (Kuf : 'M[F]_(m, n)) (Kuu : 'M[F]_m) (y : 'M[F]_(n, c)) (mu j s : F) (c0 : 'M[F]_(m, c)) :
  sym Kuu -> psd Kuu -> 0 < j -> y - const_mx mu = Kuf^T *m c0 ->
  LandmarksCond_mean Kuf^T mu (LandmarksCond_init_sS_cN_yT_uF_weights Kuf Kuu y mu s j) - y
  = - (j *: (Kuf^T *m (invmx (Kuf *m Kuf^T + j *: (Kuu + j%:M)) *m ((Kuu + j%:M) *m c0)))).
Proof. exact: (@C02mx.C02_dtc_insample_error F cholF eigS eigV qrQ qrR chol_ok). Qed.
End Matrix.

Print Assumptions C02_chol_insample_exact.
Print Assumptions C02_full_insample_error.
Print Assumptions C02_dtc_insample_error.
