(* C13 — Time arguments of time-aware predictors mean what they say.
   Property theorems only (proofs: thm/TimeXThm.v; validate_time_x/validate_array and the
   method table are regenerated from the source every run). *)
From Coq Require Import ZArith QArith List.
From MellonV Require Import PyVal TimeX TimeXThm TimeTable.
Import ListNotations.
Open Scope Z_scope.

(* every per-row form produces the same merged matrix as the trailing-column form *)
Theorem C13_per_row_forms_agree :
  forall n d xs ts, Z.of_nat (length ts) = n -> n <> 1 ->
    vtx (xmat n d xs) (VArr KF [n] ts) (VInt (d + 1)) (VBool true) = Ok (merged n d xs ts)
    /\ vtx (xmat n d xs) (VArr KF [n; 1] ts) (VInt (d + 1)) (VBool true) = Ok (merged n d xs ts)
    /\ vtx (xmat n d xs) (VList (map VFloat ts)) (VInt (d + 1)) (VBool true) = Ok (merged n d xs ts)
    /\ vtx (merged n d xs ts) VNone (VInt (d + 1)) (VBool true) = Ok (merged n d xs ts).
Proof.
  intros n d xs ts H Hn. repeat split.
  - now apply form_vector.
  - now apply form_column_vector.
  - now apply form_list.
  - apply form_in_x.
Qed.
Print Assumptions C13_per_row_forms_agree.

(* every scalar form is broadcast to all rows *)
Theorem C13_scalar_forms_agree :
  forall n d xs t, 0 <= n ->
    let m := merged n d xs (repeat t (Z.to_nat n)) in
    vtx (xmat n d xs) (VFloat t) (VInt (d + 1)) (VBool true) = Ok m
    /\ vtx (xmat n d xs) (VArr KF [] [t]) (VInt (d + 1)) (VBool true) = Ok m
    /\ vtx (xmat n d xs) (VArr KF [1] [t]) (VInt (d + 1)) (VBool true) = Ok m
    /\ vtx (xmat n d xs) (VArr KF [1; 1] [t]) (VInt (d + 1)) (VBool true) = Ok m.
Proof.
  intros n d xs t Hn m. repeat split.
  - now apply form_float.
  - now apply form_0d.
  - now apply form_1.
  - now apply form_1x1.
Qed.
Print Assumptions C13_scalar_forms_agree.

Theorem C13_int_scalar_broadcast :
  forall n d xs z, 0 <= n ->
  vtx (xmat n d xs) (VInt z) (VInt (d + 1)) (VBool true) = Ok (merged n d xs (repeat (xf_of_Z z) (Z.to_nat n))).
Proof. exact form_int. Qed.
Print Assumptions C13_int_scalar_broadcast.

(* numpy.ndarray time arguments behave exactly like JAX arrays (converted by validate_array first) *)
Theorem C13_numpy_times_same :
  forall x k sh d nf c, vtx x (VNpArr k sh d) nf (VBool c) = vtx x (VArr k sh d) nf (VBool c).
Proof. exact numpy_times_same. Qed.
Print Assumptions C13_numpy_times_same.

(* refusals are ValueErrors *)
Theorem C13_wrong_length_refused :
  forall n d xs ts, Z.of_nat (length ts) <> n -> Z.of_nat (length ts) <> 1 ->
  vtx (xmat n d xs) (VArr KF [Z.of_nat (length ts)] ts) (VInt (d + 1)) (VBool true) = Err ValueError.
Proof. exact wrong_length_refused. Qed.
Print Assumptions C13_wrong_length_refused.

Theorem C13_wrong_features_refused :
  forall n d xs ts nf, Z.of_nat (length ts) = n -> nf <> d + 1 ->
  vtx (xmat n d xs) (VArr KF [n] ts) (VInt nf) (VBool true) = Err ValueError.
Proof. intros. now apply wrong_features_refused. Qed.
Print Assumptions C13_wrong_features_refused.

Theorem C13_missing_time_refused :
  forall n d xs, vtx (xmat n d xs) VNone (VInt (d + 1)) (VBool true) = Err ValueError.
Proof. intros n d xs. exact (missing_time_refused n d xs []). Qed.
Print Assumptions C13_missing_time_refused.

Theorem C13_column_form_wrong_features_refused :
  forall n c xs nf (cs : bool), c <> nf -> vtx (xmat n c xs) VNone (VInt nf) (VBool cs) = Err ValueError.
Proof. exact column_form_wrong_features. Qed.
Print Assumptions C13_column_form_wrong_features_refused.

(* all eight time-aware methods are wrapped for multi_time, default time=None, start with the
   merge (cast_scalar=True, n_features=self.n_input_features) and never read `time` again *)
Theorem C13_all_methods_go_through_merge :
  map fst time_methods = time_method_names
  /\ forallb (fun m => snd m) time_methods = true.
Proof. split; reflexivity. Qed.
Print Assumptions C13_all_methods_go_through_merge.

(* the multi_time wrapper: conflict -> ValueError; stacking axis 1 over the leading axis of multi_time *)
Theorem C13_multi_time_wrapper :
  wrapper_conflict_exn = ValueError /\ wrapper_in_axes = 0 /\ wrapper_out_axes = 1
  /\ wrapper_conflict_guarded = true /\ wrapper_passes_time_keyword = true.
Proof. repeat split; reflexivity. Qed.
Print Assumptions C13_multi_time_wrapper.

Example C13_nonvacuous :
  vtx (xmat 2 2 [XFin 1; XFin 2; XFin 3; XFin 4]) (VList [VFloat (XFin 7); VFloat (XFin 8)]) (VInt 3) (VBool true)
  = Ok (VArr KF [2; 3] [XFin 1; XFin 2; XFin 7; XFin 3; XFin 4; XFin 8]).
Proof. exact merge_example. Qed.
