(* C19 — Covariance-function and value serialization is a faithful inverse pair.
   Property theorems only (proofs: thm/SerialThm.v).  The model lib/Serial.v is hand-written
   and tied to the code by the exact correspondence run of checks/C19.py. *)
From Coq Require Import ZArith QArith List.
From MellonV Require Import PyVal Serial SerialThm.
Import ListNotations.
Open Scope Z_scope.

(* every value of the grammar (scalars incl. NaN/+-inf/-0.0, numpy scalars, JAX/NumPy arrays of any
   rank and shape incl. empty ones, slices, sets, arbitrarily nested dicts) survives
   make_serializable -> json.dumps -> json.loads -> deserialize; numpy scalars come back as Python
   scalars of equal value and NumPy arrays as JAX arrays of the same dtype, shape and entries *)
Theorem C19_value_roundtrip :
  forall g fuel, wf g -> (depth g < fuel)%nat ->
  bind (json_rt (ser (emb g))) (deser_f fuel) = Ok (emb (canon g)).
Proof. exact value_roundtrip. Qed.
Print Assumptions C19_value_roundtrip.

Theorem C19_array_roundtrip :
  forall numpy k sh d fuel, wf_arr k sh d -> (1 <= fuel)%nat ->
  bind (json_rt (ser (emb (GArr numpy k sh d)))) (deser_f fuel) = Ok (VArr k sh d).
Proof. exact array_roundtrip. Qed.
Print Assumptions C19_array_roundtrip.

(* every covariance expression (base kernels with any attribute values of the grammar, nested sums /
   products / powers of any depth, kernel or scalar right operand, active_dims of any form on every
   node) is restored with the same structure *)
Theorem C19_kexpr_roundtrip :
  forall fuel e, kwf e -> (gkdepth e < fuel)%nat ->
  bind (json_rt (kser (kemb e))) (kdeser fuel) = Ok (kemb (kcanon e)).
Proof. exact kexpr_roundtrip. Qed.
Print Assumptions C19_kexpr_roundtrip.

(* input that is not a serialised kernel is refused with ValueError *)
Theorem C19_not_a_kernel_refused :
  forall fuel v, is_cov_dict v = false -> kdeser (S fuel) v = Err ValueError.
Proof. intros fuel v H. cbn [kdeser]. now rewrite H. Qed.
Print Assumptions C19_not_a_kernel_refused.

Example C19_nonvacuous :
  wf roundtrip_example /\ roundtrip (emb roundtrip_example) = Ok (emb (canon roundtrip_example)).
Proof. exact roundtrip_nonvacuous. Qed.
