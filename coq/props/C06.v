(* C06 - predictive uncertainty is a valid covariance, consistent with the mean function.
   Property theorems only; proofs in thm/CovThm.v.  *_covariance_*, *_mean_covariance_*, *_init_*_L/_W and
   compute_parameter_cov_factor are regenerated from mellon/conditional.py and mellon/inference.py on every run.
   L is the factor stored by the constructor: chol_of L (K_bb + N) with N the assembled noise (psd).
   The joint Gram matrix of conditioning points and query points is assumed positive semi-definite (kernel_psd).
   Monotonicity of the variance under added inducing points is C06_var_monotone_in_inducing_points (thm/MonoThm.v).
   The Cholesky contract is satisfiable: lib/MxChol.v constructs the factor of every spd matrix (C06_chol_contract_satisfiable).
   The base-class wrappers Predictor / PredictorTime / ExpPredictor.uncertainty are regenerated from
   mellon/base_predictor.py (gen/C06Unc.v): uncertainty = covariance + mean_covariance (C06_uncertainty_is_sum).
   NOT proved here: the ValueError guards of the public wrappers (checked by the harness). *)
From mathcomp Require Import all_ssreflect all_fingroup all_algebra.
From MellonV Require Import MatOps MxInst MxPsd MxChol MatGen C06Unc CondThm AffineThm FactorThm CovThm CrossThm MonoThm UncThm.
Set Implicit Arguments.
Unset Strict Implicit.
Import Order.TTheory GRing.Theory Num.Theory.
Local Open Scope ring_scope.

Section C06.
Variable F : rcfType.
Variable cholF : forall n : nat, 'M[F]_n -> 'M[F]_n.
Variable eigS : forall n p : nat, 'M[F]_n -> 'cV[F]_p.
Variable eigV : forall n p : nat, 'M[F]_n -> 'M[F]_(n, p).
Variable qrQ : forall n m k : nat, 'M[F]_(n, m) -> 'M[F]_(n, k).
Variable qrR : forall n m k : nat, 'M[F]_(n, m) -> 'M[F]_(k, m).
Hypothesis chol_ok : chol_contract cholF.
Let ops := MxOps cholF eigS eigV qrQ qrR.
Local Existing Instance ops.

Theorem C06_cov_sym_psd q b (Kss : 'M[F]_q) (Kbs : 'M[F]_(b, q)) (Kbb N L : 'M[F]_b) :
  chol_of L (Kbb + N) -> sym Kss -> spd (Kbb + N) -> psd N -> psd (block_mx Kbb Kbs Kbs^T Kss) ->
  [/\ FullCond_covariance_dF Kss Kbs L = Kss - Kbs^T *m invmx (Kbb + N) *m Kbs,
      sym (FullCond_covariance_dF Kss Kbs L) & psd (FullCond_covariance_dF Kss Kbs L)].
Proof.
move=> cL sK sA pN pJ; split; first exact: (cov_closed cholF eigS eigV qrQ qrR _ _ cL).
  by apply: (cov_sym cholF eigS eigV qrQ qrR Kbs cL) => //; case: sA.
exact: (cov_psd cholF eigS eigV qrQ qrR cL).
Qed.

Theorem C06_cov_diag_agrees q b (Kss : 'M[F]_q) (Kd : 'cV[F]_q) (Kbs : 'M[F]_(b, q)) (L : 'M[F]_b) :
  Kd = diagof Kss -> FullCond_covariance_dT Kd Kbs L = diagof (FullCond_covariance_dF Kss Kbs L).
Proof. exact: (cov_diag_agrees cholF eigS eigV qrQ qrR). Qed.

Theorem C06_var_bounds q b (Kss : 'M[F]_q) (Kbs : 'M[F]_(b, q)) (Kbb N L : 'M[F]_b) i :
  chol_of L (Kbb + N) -> spd (Kbb + N) -> psd N -> psd (block_mx Kbb Kbs Kbs^T Kss) ->
  0 <= (FullCond_covariance_dF Kss Kbs L) i i <= Kss i i.
Proof. by move=> cL sA pN pJ; apply: (var_bounds cholF eigS eigV qrQ qrR cL). Qed.

(* at the conditioning points: cov = N - N (K + N)^-1 N; with N = jI the variance is in [0, j] *)
Theorem C06_var_at_conditioning_points b (K N L : 'M[F]_b) :
  chol_of L (K + N) -> sym K -> sym N ->
  FullCond_covariance_dF K K L = N - N *m invmx (K + N) *m N.
Proof. exact: (cov_at_conditioning_points cholF eigS eigV qrQ qrR). Qed.

Theorem C06_var_at_conditioning_points_jitter b (K L : 'M[F]_b) j i :
  chol_of L (K + j%:M) -> sym K -> psd K -> 0 < j ->
  0 <= (FullCond_covariance_dF K K L) i i <= j.
Proof.
move=> cL sK pK j0; have sp := spd_jitter sK pK j0.
rewrite (cov_at_conditioning_points cholF eigS eigV qrQ qrR cL sK (sym_scalar _ _)).
have pI := pd_inv sp; rewrite mul_scalar_mx -scalemxAl mul_mx_scalar scalerA.
have hB : 0 <= invmx (K + j%:M) i i by have := pd_psd pI (delta_mx i 0); rewrite qfE qf_delta.
have hU : j * invmx (K + j%:M) i i <= 1.
  have := inv_bound sK pK j0 (delta_mx i 0); rewrite qf_delta.
  by rewrite trmx_delta -rowE !mxE !eqxx.
move: hB hU; move: (invmx (K + j%:M)) => B0 hB hU; rewrite !mxE eqxx mulr1n.
apply/andP; split.
  by rewrite subr_ge0 -mulrA -{3}[j]mulr1 ler_pmul2l.
by rewrite ler_subl_addr ler_addl mulr_ge0 // mulr_ge0 // ltW.
Qed.

(* the three families share the generated bodies *)
Theorem C06_families_share_covariance q b k (Kss : 'M[F]_q) (Kd : 'cV[F]_q) (Kbs : 'M[F]_(b, q)) (L : 'M[F]_b)
    (Ks : 'M[F]_(q, b)) (W : 'M[F]_(b, k)) :
  [/\ LandmarksCond_covariance_dF Kss Kbs L = FullCond_covariance_dF Kss Kbs L,
      LandmarksCholCond_covariance_dF Kss Kbs L = FullCond_covariance_dF Kss Kbs L,
      LandmarksCond_covariance_dT Kd Kbs L = FullCond_covariance_dT Kd Kbs L
    & LandmarksCholCond_covariance_dT Kd Kbs L = FullCond_covariance_dT Kd Kbs L]
  /\ [/\ LandmarksCond_mean_covariance_dF Ks W = FullCond_mean_covariance_dF Ks W,
      LandmarksCholCond_mean_covariance_dF Ks W = FullCond_mean_covariance_dF Ks W,
      LandmarksCond_mean_covariance_dT Ks W = FullCond_mean_covariance_dT Ks W
    & LandmarksCholCond_mean_covariance_dT Ks W = FullCond_mean_covariance_dT Ks W].
Proof. by split; [exact: cov_coincide|exact: mean_cov_coincide]. Qed.

(* mean covariance = (K_*b W)(K_*b W)^T, symmetric psd, diag path = its diagonal *)
Theorem C06_mean_cov_gram q b k (Ks : 'M[F]_(q, b)) (W : 'M[F]_(b, k)) :
  [/\ FullCond_mean_covariance_dF Ks W = (Ks *m W) *m (Ks *m W)^T,
      sym (FullCond_mean_covariance_dF Ks W), psd (FullCond_mean_covariance_dF Ks W)
    & FullCond_mean_covariance_dT Ks W = diagof (FullCond_mean_covariance_dF Ks W)].
Proof. exact: mean_cov_gram. Qed.

(* W = T Y_f with the same T as the weights (linear propagation of Cov(y) = Y_f Y_f^T) *)
Theorem C06_W_is_propagator n c k (K : 'M[F]_n) (y : 'M[F]_(n, c)) (mu j s : F) (Yf : 'M[F]_(n, k)) :
  sym K -> psd K -> 0 < j ->
  [/\ FullCond_init_LN_sS_cN_yF_uT_W K y mu s j = invmx (K + (Num.max (s ^+ 2) j)%:M) *m (s *: 1%:M)
      /\ FullCond_init_LN_sS_cN_yF_uF_weights K y mu s j = invmx (K + (Num.max (s ^+ 2) j)%:M) *m (y - const_mx mu),
      chol_of (FullCond_init_LN_sS_cN_yF_uT_L K y mu s j) (K + (Num.max (s ^+ 2) j)%:M),
      FullCond_init_LN_sS_cN_yT_uT_W K y mu s j = invmx (K + j%:M) *m (s *: 1%:M)
    & FullCond_init_LN_sS_cM_yT_uT_W K y mu s j Yf = invmx (K + j%:M) *m Yf
      /\ chol_of (FullCond_init_LN_sS_cM_yT_uT_L K y mu s j Yf) (K + j%:M)].
Proof.
move=> sK pK j0.
have [h1 h2 h3] := W_full_scalar eigS eigV qrQ qrR chol_ok sK pK j0 y mu s.
have [h4 h5] := W_full_ymean eigS eigV qrQ qrR chol_ok sK pK j0 y mu s.
have [h6 h7] := W_full_factor eigS eigV qrQ qrR chol_ok sK pK j0 y mu s Yf.
by split.
Qed.

Theorem C06_W_latent m c p n (z : 'M[F]_(m, c)) mu n_obs (L : 'M[F]_m) (sv : 'cV[F]_m) s j
    (Lf : 'M[F]_(n, p)) (std : 'cV[F]_p) :
  is_lower L ->
  [/\ LandmarksCholCond_init_LM_sV_yT_uT_W z mu n_obs L sv j = invmx L^T *m diagv sv,
      LandmarksCholCond_init_LM_sS_yT_uT_W z mu n_obs L s j = invmx L^T *m (s *: 1%:M)
    & compute_parameter_cov_factor std Lf = Lf *m diagv std].
Proof.
move=> lL; have [h1 h2] := W_latent cholF eigS eigV qrQ qrR z mu n_obs sv s j lL.
by split=> //; apply: param_cov_factor.
Qed.

(* adding inducing points (b1 -> b1 + b2, regularised Gram matrices A1 and [[A1, B], [B^T, D]]) never increases
   the predictive covariance in the Loewner order, in particular no variance *)
Theorem C06_var_monotone_in_inducing_points q b1 b2 (Kss : 'M[F]_q)
      (A1 : 'M[F]_b1) (B : 'M[F]_(b1, b2)) (D : 'M[F]_b2)
      (K1s : 'M[F]_(b1, q)) (K2s : 'M[F]_(b2, q)) (L1 : 'M[F]_b1) (L : 'M[F]_(b1 + b2)) :
  spd A1 -> spd (block_mx A1 B B^T D) ->
  chol_of L1 A1 -> chol_of L (block_mx A1 B B^T D) ->
  loe (LandmarksCond_covariance_dF Kss (col_mx K1s K2s) L) (LandmarksCond_covariance_dF Kss K1s L1)
  /\ forall i, (LandmarksCond_covariance_dF Kss (col_mx K1s K2s) L) i i
               <= (LandmarksCond_covariance_dF Kss K1s L1) i i.
Proof. exact: var_monotone_in_inducing_points. Qed.

(* uncertainty is exactly the sum of the two (for the three wrapper classes), hence symmetric positive semi-definite,
   and its diag form is the diagonal of its full form *)
Theorem C06_uncertainty_is_sum q r (c m : 'M[F]_(q, r)) :
  [/\ Predictor_uncertainty c m = c + m, PredictorTime_uncertainty c m = c + m & ExpPredictor_uncertainty c m = c + m].
Proof. exact: uncertainty_is_sum. Qed.

Theorem C06_uncertainty_valid_covariance q b k (Kss : 'M[F]_q) (Kd : 'cV[F]_q) (Kbs : 'M[F]_(b, q)) (Kbb N L : 'M[F]_b) (W : 'M[F]_(b, k)) :
  chol_of L (Kbb + N) -> sym Kss -> spd (Kbb + N) -> psd N -> psd (block_mx Kbb Kbs Kbs^T Kss) -> Kd = diagof Kss ->
  let U := Predictor_uncertainty (FullCond_covariance_dF Kss Kbs L) (FullCond_mean_covariance_dF Kbs^T W) in
  [/\ sym U, psd U
    & Predictor_uncertainty (FullCond_covariance_dT Kd Kbs L) (FullCond_mean_covariance_dT Kbs^T W) = diagof U].
Proof.
move=> cL sK sA pN pJ eK U.
have [h1 h2] := uncertainty_sym_psd cholF eigS eigV qrQ qrR W cL sK sA pN pJ.
by split=> //; apply: (uncertainty_diag_agrees cholF eigS eigV qrQ qrR).
Qed.

End C06.

(* non-vacuity of the library contract every theorem above assumes *)
Theorem C06_chol_contract_satisfiable (F : rcfType) : chol_contract (@cholm F).
Proof. exact: chol_contract_cholm. Qed.

Print Assumptions C06_cov_sym_psd.
Print Assumptions C06_cov_diag_agrees.
Print Assumptions C06_var_bounds.
Print Assumptions C06_var_at_conditioning_points.
Print Assumptions C06_var_at_conditioning_points_jitter.
Print Assumptions C06_families_share_covariance.
Print Assumptions C06_mean_cov_gram.
Print Assumptions C06_W_is_propagator.
Print Assumptions C06_W_latent.
Print Assumptions C06_var_monotone_in_inducing_points.
Print Assumptions C06_chol_contract_satisfiable.
Print Assumptions C06_uncertainty_is_sum.
Print Assumptions C06_uncertainty_valid_covariance.
