(* C15 — GP-type / rank / landmark options resolve consistently and fail cleanly.
   Property theorems only (proofs: thm/ResolveThm.v; functions: gen/Resolve.v, regenerated every run). *)
From Coq Require Import ZArith QArith List.
From MellonV Require Import PyVal Resolve ResolvePipeline ResolveThm.
Import ListNotations.
Open Scope Z_scope.

(* every typed combination is refused with ValueError or resolves to exactly one consistent triple *)
Theorem C15_resolve_total_exclusive :
  forall n a lm r g0, 0 <= n -> lm_ok lm ->
  resolve (VInt n) (nl_arg_val a) (lm_val lm) (rank_val r) (gp_val g0) = Err ValueError
  \/ exists g nl r', resolve (VInt n) (nl_arg_val a) (lm_val lm) (rank_val r) (gp_val g0)
                       = Ok (VTuple [VEnum g; VInt nl; rank_val r'])
                     /\ params_consistent r' g n nl lm = true.
Proof. exact resolve_total_exclusive. Qed.
Print Assumptions C15_resolve_total_exclusive.

(* closed form of the whole pipeline *)
Theorem C15_resolve_closed_form :
  forall n a lm r g0, 0 <= n -> lm_ok lm ->
  resolve (VInt n) (nl_arg_val a) (lm_val lm) (rank_val r) (gp_val g0)
  = if (match a with Some z => z <? 0 | None => false end) then Err ValueError else
    let nl := nl_final a g0 n lm in
    let r' := r_final r g0 in
    let g := g_final g0 nl r' n in
    if params_consistent r' g n nl lm then Ok (VTuple [VEnum g; VInt nl; rank_val r']) else Err ValueError.
Proof. exact resolve_spec. Qed.
Print Assumptions C15_resolve_closed_form.

(* documented rules for the inferred type *)
Theorem C15_inferred_type_rules :
  forall nl r n, let g := gp_type_rule nl r n in
  ((nl = 0 \/ n <= nl) -> is_full g = true)
  /\ ((nl <> 0 /\ nl < n) -> is_sparse g = true)
  /\ (is_nystroem g = negb (full_rank_indicated r (if is_full g then n else nl))).
Proof. exact inferred_type_rules. Qed.
Print Assumptions C15_inferred_type_rules.

Theorem C15_compute_gp_type_rules :
  forall nl r n, 0 <= nl -> 0 <= n ->
  py_parameters_compute_gp_type (VInt nl) (rank_val r) (VInt n) = Ok (VEnum (gp_type_rule nl r n)).
Proof. exact compute_gp_type_rules. Qed.
Print Assumptions C15_compute_gp_type_rules.

Theorem C15_validate_params_spec :
  forall r g n nl lm,
  py_parameter_validation_validate_params (rank_val r) (VEnum g) (VInt n) (VInt nl) (lm_val lm)
  = if params_consistent r g n nl lm then Ok VNone else Err ValueError.
Proof. exact validate_params_spec. Qed.
Print Assumptions C15_validate_params_spec.

(* names: exact value first, then first member containing the normalised input, else ValueError *)
Theorem C15_from_string_spec :
  forall s opt, py_util_GaussianProcessType_from_string (VStr s) (VBool opt) = from_string_spec s.
Proof. exact from_string_str. Qed.
Print Assumptions C15_from_string_spec.

Theorem C15_resolve_string :
  forall n a lm r s,
  resolve (VInt n) (nl_arg_val a) (lm_val lm) (rank_val r) (VStr s)
  = match from_string_spec s with
    | Ok (VEnum g) => resolve (VInt n) (nl_arg_val a) (lm_val lm) (rank_val r) (VEnum g)
    | _ => match (match a with Some z => z <? 0 | None => false end) with true => Err ValueError | false => Err ValueError end
    end.
Proof. exact resolve_string. Qed.
Print Assumptions C15_resolve_string.

(* inducing points: 0 -> none; 1 -> refused; >= n -> none, or the cells themselves for 'fixed'; else k-means *)
Theorem C15_compute_landmarks_spec :
  forall n d dat g nl km,
  py_parameters_compute_landmarks (xarr n d dat) (gp_val g) (VInt nl) (VTuple [km; VNone; VNone])
  = if nl =? 0 then Ok VNone
    else if nl <=? 1 then Err ValueError
    else if n <=? nl then Ok (match g with Some FIXED => xarr n d dat | _ => VNone end)
    else Ok km.
Proof. exact compute_landmarks_spec. Qed.
Print Assumptions C15_compute_landmarks_spec.

Theorem C15_landmark_factor_exists_iff_not_nystroem :
  forall n d dat cf g lm sg jt fr,
  py_parameters_compute_Lp (xarr n d dat) cf (VEnum g) (lm_val lm) sg jt fr
  = Ok (if is_nystroem g then VNone else fr).
Proof. exact compute_Lp_spec. Qed.
Print Assumptions C15_landmark_factor_exists_iff_not_nystroem.

(* the predictor class matches the resolved type *)
Theorem C15_predictor_matches_type :
  forall g n dx xd lm z std y L Lp wu,
  dispatch_facts g lm z Lp ->
  predictor_of (VEnum g) (xarr n dx xd) lm z std y L Lp (VBool wu) = Ok (VObj (family_of g) 0).
Proof. exact predictor_matches_type. Qed.
Print Assumptions C15_predictor_matches_type.

Theorem C15_resolution_order :
  firstn 5 prepare_order_DensityEstimator = expected_order_inference
  /\ firstn 5 prepare_order_TimeSensitiveDensityEstimator = expected_order_inference
  /\ firstn 5 prepare_order_DimensionalityEstimator = expected_order_inference
  /\ firstn 3 prepare_order_FunctionEstimator = expected_order_function
  /\ (forall o, In o [prepare_order_DensityEstimator; prepare_order_TimeSensitiveDensityEstimator;
                      prepare_order_DimensionalityEstimator] ->
        exists a b, o = a ++ lm_lp_l ++ b).
Proof. exact order_tables_ok. Qed.
Print Assumptions C15_resolution_order.

Example C15_nonvacuous :
  resolve (VInt 12) VNone VNone VNone VNone = Ok (VTuple [VEnum FULL; VInt 12; VFloat (XFin 1)])
  /\ resolve (VInt 12) (VInt 5) VNone VNone VNone = Ok (VTuple [VEnum SPARSE_CHOLESKY; VInt 5; VFloat (XFin 1)])
  /\ resolve (VInt 12) (VInt 5) VNone (VFloat (XFin (1#2))) VNone = Ok (VTuple [VEnum SPARSE_NYSTROEM; VInt 5; VFloat (XFin (1#2))]).
Proof. pose proof resolve_examples as H. tauto. Qed.
