(* C18 — staged, cached and repeated use equals one-shot fitting.
   Property theorems only (proofs: thm/C18Thm.v; interpreter: lib/C18Machine.v; tables and guards: gen/C18Gen.v,
   regenerated from /repo on every run). *)
From Coq Require Import ZArith List Bool String.
From MellonV Require Import PyVal C18Machine C18Gen C18Thm.
Import ListNotations.
Open Scope string_scope.

(* the reflexive side condition: SET_X first; every _compute_X reads only x and attributes prepared earlier; every stage
   reads only what earlier stages provide; fit = prepare_inference; run_inference; process_inference *)
Theorem C18_order_respects_deps :
  order_respects_deps table_DensityEstimator = true
  /\ order_respects_deps table_TimeSensitiveDensityEstimator = true
  /\ order_respects_deps table_DimensionalityEstimator = true.
Proof. exact tables_ok. Qed.
Print Assumptions C18_order_respects_deps.

(* inv_step / inv_reachable: for any tables and guards, EVERY operation list (no length bound) preserves
   "each cached attribute holds the canonical value for the bound data" *)
Theorem C18_inv_step :
  forall tb gs d0 s o, Inv d0 s -> op_allowed d0 o -> Inv d0 (fst (step tb gs s o)).
Proof. exact inv_step. Qed.
Print Assumptions C18_inv_step.

Theorem C18_inv_reachable :
  forall tb gs d0 ops s, Inv d0 s -> Forall (op_allowed d0) ops -> Inv d0 (fst (run tb gs s ops)).
Proof. exact inv_reachable. Qed.
Print Assumptions C18_inv_reachable.

(* staged_equals_oneshot: after ANY call sequence on a fresh estimator every cached / fitted value / predictor that is
   present is the canonical value for the bound data ... *)
Theorem C18_staged_values_canonical :
  forall tb gs ops a t,
  let s := fst (run tb gs init ops) in
  lookup a (sattrs s) = Some t -> exists d, sdata s = Some d /\ t = Canon a d.
Proof. exact staged_values_canonical. Qed.
Print Assumptions C18_staged_values_canonical.

(* ... and the one-shot fit produces exactly these canonical values for every attribute of the three estimators *)
Theorem C18_oneshot_complete :
  (forall d, all_set universe_DensityEstimator d (fst (run table_DensityEstimator guards_DensityEstimator init [OFit (AOrig d)])) = true)
  /\ (forall d, all_set universe_TimeSensitiveDensityEstimator d (fst (run table_TimeSensitiveDensityEstimator guards_TimeSensitiveDensityEstimator init [OFit (AOrig d)])) = true)
  /\ (forall d, all_set universe_DimensionalityEstimator d (fst (run table_DimensionalityEstimator guards_DimensionalityEstimator init [OFit (AOrig d)])) = true).
Proof. exact oneshot_complete. Qed.
Print Assumptions C18_oneshot_complete.

(* presets_ok: ANY subset of intermediates preset to canonical values of data d, then any operations on that data *)
Theorem C18_presets_ok :
  forall tb gs d presets ops a t,
  Forall (op_allowed (Some d)) ops ->
  let s := fst (run tb gs (init_with d presets) ops) in
  lookup a (sattrs s) = Some t -> t = Canon a d.
Proof. exact presets_canonical. Qed.
Print Assumptions C18_presets_ok.

(* rebinding_refused: once x is bound to the object i, offering any other object j (a float JAX array, or anything that
   validation turns into a new object) is refused with ValueError by set_x, prepare_inference and fit_predict of every estimator *)
Theorem C18_rebinding_refused :
  (refuses (g_set_x guards_DensityEstimator) /\ refuses (g_prepare guards_DensityEstimator) /\ refuses (g_fit_predict guards_DensityEstimator))
  /\ (refuses (g_set_x guards_TimeSensitiveDensityEstimator) /\ refuses (g_prepare guards_TimeSensitiveDensityEstimator) /\ refuses (g_fit_predict guards_TimeSensitiveDensityEstimator))
  /\ (refuses (g_set_x guards_DimensionalityEstimator) /\ refuses (g_prepare guards_DimensionalityEstimator) /\ refuses (g_fit_predict guards_DimensionalityEstimator)).
Proof. exact (conj guards_refuse_Density (conj guards_refuse_Time guards_refuse_Dim)). Qed.
Print Assumptions C18_rebinding_refused.

(* ---- non-vacuity / the machine on concrete histories (state unchanged by a refused rebinding) ---- *)
Example C18_nonvacuous_history :
  run_enc table_DensityEstimator guards_DensityEstimator ["pre_transformation"; "log_density_x"; "log_density_func"] init
    [OSetX (AOrig DX); OPrepare ANone; OFit (AOrig DF); ORun; OProcess false; OPredict 0%nat; OFitPredict (AOrig DX); OFitPredict ABound]
  = Ok (VTuple [VList [VStr "ok"; VStr "ok"; VStr "ValueError"; VStr "ok"; VStr "ok"; VStr "ok"; VStr "ValueError"; VStr "ok"];
                VList [VBool true; VBool true; VBool true; VBool true]; VBool true; VStr "X"]).
Proof. vm_compute. reflexivity. Qed.
Example C18_nonvacuous_refused_state_unchanged :
  let s1 := fst (run table_TimeSensitiveDensityEstimator guards_TimeSensitiveDensityEstimator init [OFit (AOrig DX)]) in
  let s2 := fst (run table_TimeSensitiveDensityEstimator guards_TimeSensitiveDensityEstimator s1 [OFit (AOrig DF); OPrepare (AJax DX); OSetX (AOrig DX)]) in
  sx s2 = sx s1 /\ sdata s2 = sdata s1 /\ sattrs s2 = sattrs s1
  /\ snd (run table_TimeSensitiveDensityEstimator guards_TimeSensitiveDensityEstimator s1 [OFit (AOrig DF); OPrepare (AJax DX); OSetX (AOrig DX)])
     = [Some ValueError; Some ValueError; Some ValueError].
Proof. vm_compute. repeat split; reflexivity. Qed.
Example C18_nonvacuous_presets :
  Inv (Some DX) (init_with DX ["nn_distances"; "ls"; "L"]) /\ Forall (op_allowed (Some DX)) [OFit (AOrig DX); OFitPredict ANone].
Proof. split; [apply presets_inv|repeat constructor]. Qed.
