(* C09 - all GP types approximate the same Gaussian process.
   Property theorems only; proofs in thm/FactorThm.v, thm/CrossThm.v, thm/CovThm.v.
   Inducing points = training cells: K_xu = K_uu = K (sigma = 0, so jitter' = jitter).
   Spectral-norm statements are given in Loewner-order / trace form (MathComp 1.15 has no
   spectral theorem for symmetric real matrices).
   The eigen contract (thm/FactorThm.v) is claimed only for p <= rank W and states that kept and discarded
   vectors together are n orthonormal vectors, so a full-rank request discards nothing
   (C09_full_rank_request_exact). *)
From mathcomp Require Import all_ssreflect all_fingroup all_algebra.
From MellonV Require Import MatOps MxInst MxPsd MxChol MatGen CondThm AffineThm FactorThm CovThm CrossThm.
Set Implicit Arguments.
Unset Strict Implicit.
Import Order.TTheory GRing.Theory Num.Theory.
Local Open Scope ring_scope.

Section C09.
Variable F : rcfType.
Variable cholF : forall n : nat, 'M[F]_n -> 'M[F]_n.
Variable eigS : forall n p : nat, 'M[F]_n -> 'cV[F]_p.
Variable eigV : forall n p : nat, 'M[F]_n -> 'M[F]_(n, p).
Variable qrQ : forall n m k : nat, 'M[F]_(n, m) -> 'M[F]_(n, k).
Variable qrR : forall n m k : nat, 'M[F]_(n, m) -> 'M[F]_(k, m).
Hypothesis chol_ok : chol_contract cholF.
Hypothesis eig_ok : eig_contract eigS eigV.
Let ops := MxOps cholF eigS eigV qrQ qrR.
Local Existing Instance ops.

(* L_s L_s^T = (K + jI) - 2jI + j^2 (K + jI)^-1  and  -2jI <= L_s L_s^T - L_f L_f^T <= -jI *)
Theorem C09_sparse_vs_full_LLt n (K : 'M[F]_n) j :
  sym K -> psd K -> 0 < j ->
  let Ls := standard_low_rank_PN K K 0 j in
  let Lf := full_rank K 0 j in
  [/\ Lf *m Lf^T = K + j%:M,
      Ls *m Ls^T = Lf *m Lf^T - (j + j)%:M + (j ^+ 2) *: invmx (K + j%:M),
      psd ((Ls *m Ls^T - Lf *m Lf^T) + (j + j)%:M)
    & psd (- j%:M - (Ls *m Ls^T - Lf *m Lf^T))].
Proof.
move=> sK pK j0 Ls Lf.
have [h1 h2] := sparse_vs_full_sandwich eigS eigV qrQ qrR chol_ok sK pK j0.
have hLf : Lf *m Lf^T = K + j%:M.
  by rewrite /Lf full_LLt //; congr (_ + scalar_mx _); rewrite expr0n /=; apply/max_idPr/ltW.
by split=> //; exact: (sparse_vs_full_LLt eigS eigV qrQ qrR chol_ok sK pK j0).
Qed.

(* same function values f = K w_C + mu:  mean_C(xnew) - mean_F(xnew) = j K_*x (K + jI)^-1 w_C *)
Theorem C09_chol_latent_vs_full_pred n q c (K : 'M[F]_n) (Ks : 'M[F]_(q, n)) (wC : 'M[F]_(n, c)) (mu j s : F) :
  sym K -> psd K -> 0 < j ->
  LandmarksCholCond_mean Ks mu wC
  - FullCond_mean Ks mu (FullCond_init_LN_sS_cN_yT_uF_weights K (K *m wC + const_mx mu) mu s j)
  = j *: (Ks *m invmx (K + j%:M) *m wC).
Proof. by move=> sK pK j0; apply: (latent_vs_full_pred eigS eigV qrQ qrR chol_ok sK pK j0). Qed.

(* inducing points = cells:  w_F - w_DTC = j^2 (K K + j (K + jI))^-1 w_F   [ = j^2 ((K+jI) K + j^2 I)^-1 w_F ] *)
Theorem C09_dtc_vs_full_weights n c (K : 'M[F]_n) (y : 'M[F]_(n, c)) (mu j s : F) :
  sym K -> psd K -> 0 < j ->
  FullCond_init_LN_sS_cN_yT_uF_weights K y mu s j - LandmarksCond_init_sS_cN_yT_uF_weights K K y mu s j
  = (j ^+ 2) *: (invmx (K *m K^T + j *: (K + j%:M)) *m FullCond_init_LN_sS_cN_yT_uF_weights K y mu s j).
Proof. by move=> sK pK j0; apply: (dtc_vs_full_weights eigS eigV qrQ qrR chol_ok sK pK j0). Qed.

(* the three posterior covariances are one generated term once U = X (same L) *)
Theorem C09_cov_coincide q b (Kss : 'M[F]_q) (Kd : 'cV[F]_q) (Kbs : 'M[F]_(b, q)) (L : 'M[F]_b) :
  [/\ LandmarksCond_covariance_dF Kss Kbs L = FullCond_covariance_dF Kss Kbs L,
      LandmarksCholCond_covariance_dF Kss Kbs L = FullCond_covariance_dF Kss Kbs L,
      LandmarksCond_covariance_dT Kd Kbs L = FullCond_covariance_dT Kd Kbs L
    & LandmarksCholCond_covariance_dT Kd Kbs L = FullCond_covariance_dT Kd Kbs L].
Proof. exact: cov_coincide. Qed.

(* truncation: (K + jI) - L_p L_p^T = Vd Sd Vd^T (discarded pairs), psd; its trace is the discarded mass
   and x^T(.)x <= (sum discarded) x^T x when the discarded vectors are orthonormal *)
Theorem C09_truncation_error n p (K : 'M[F]_n) (j : F) (rank : nat) :
  sym K -> psd K -> 0 < j -> (p <= n)%N ->
  let W := K + (Num.max (0 ^+ 2) j)%:M in
  let L := full_decomposition_low_rank p K rank 0 j in
  exists q, exists sd : 'cV[F]_q, exists Vd : 'M[F]_(n, q),
    [/\ (q + p = n)%N, W - L *m L^T = Vd *m diagv sd *m Vd^T, (forall i, 0 <= sd i 0), psd (W - L *m L^T)
      & \tr (W - L *m L^T) = \sum_i sd i 0].
Proof.
move=> sK pK j0 pn W L.
have [_ [q [sd [Vd [h0 h1 h2 h3 h4]]]]] := nystroem_LLt cholF qrQ qrR 0 rank sK pK j0 eig_ok pn.
by exists q, sd, Vd; split=> //; rewrite h1 gap_trace.
Qed.

(* with rank reduction switched off (all n pairs requested) the factor reproduces the un-reduced matrix *)
Theorem C09_full_rank_request_exact n (K : 'M[F]_n) (j : F) (rank : nat) :
  sym K -> psd K -> 0 < j ->
  let L := full_decomposition_low_rank n K rank 0 j in
  L *m L^T = K + j%:M /\ L *m L^T = full_rank K 0 j *m (full_rank K 0 j)^T.
Proof.
move=> sK pK j0 L.
have e : Num.max (0 ^+ 2) j = j by rewrite expr0n /=; apply/max_idPr/ltW.
have h : L *m L^T = K + j%:M.
  by rewrite /L nystroem_full_rank_exact // e.
by split=> //; rewrite h full_LLt // e.
Qed.

End C09.

(* non-vacuity of the Cholesky contract assumed above: lib/MxChol.v constructs the factor of every
   symmetric positive definite matrix over any real closed field *)
Theorem C09_chol_contract_satisfiable (F : rcfType) : chol_contract (@cholm F).
Proof. exact: chol_contract_cholm. Qed.

Print Assumptions C09_sparse_vs_full_LLt.
Print Assumptions C09_chol_latent_vs_full_pred.
Print Assumptions C09_dtc_vs_full_weights.
Print Assumptions C09_cov_coincide.
Print Assumptions C09_truncation_error.
Print Assumptions C09_full_rank_request_exact.
Print Assumptions C09_chol_contract_satisfiable.
