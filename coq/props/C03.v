(* C03 - The inference objective is the documented Bayesian model, with the documented defaults.
   Property theorems only; proofs live in thm/AInferenceThm.v and thm/ANormThm.v.  mle, normal_logpdf,
   nn_term, nn_loglik, loss, poisson_term, compute_ls, compute_mu, compute_d, initial_value_target are
   regenerated from mellon/util.py, inference.py, parameters.py on every run (gen/AInference.v);
   [lgam] is jax.scipy.special.gammaln, uninterpreted.
   (i) normalisation of the k-nearest-neighbour Poisson model is proved for every neighbour count
   (C03_knn_poisson_density_normalised, thm/APoissonNorm.v: antiderivative -exp(-u) sum_{i<=k} u^i/i!, no Gamma
   integral needed; [lgam] enters only through its value ln k! at the integer count).
   Partial (kept visible): (ii) "the starting point is the ridge-regression solution": the
   regression target is proved (C03_initial_value_target), the Ridge solver is a library contract
   validated on every run ((L^T L + I) z = L^T target) - C03_ridge_unique_minimiser shows that this contract
   determines the start value: the solution of the normal equations is the one and only minimiser of the ridge
   objective (thm/RidgeThm.v, MathComp, any real closed field); (iii) nearest-neighbour distances are a
   KD/Ball-tree contract validated against brute force on every run. *)
From Coq Require Import Reals List ZArith Lra Lia.
From Coquelicot Require Import Coquelicot.
From MellonV Require Import ALists AListsFacts AInference AInferenceThm ANormThm APoissonNorm.
From MellonV Require RidgeThm.
Import ListNotations.
Open Scope R_scope.

Theorem C03_prior_is_standard_normal : forall z,
  normal_logpdf (INR (length z)) z = sum_list (map (fun v => ln (exp (- (v ^ 2 / 2)) / sqrt (2 * PI))) z).
Proof. exact normal_logpdf_documented. Qed.
Print Assumptions C03_prior_is_standard_normal.

(* p(r | rho, d) = rho d c_d r^(d-1) exp(-rho c_d r^d),  c_d = pi^(d/2) / exp(lgam(d/2+1)) *)
Theorem C03_nn_term_is_log_density : forall lgam r d l, 0 < r -> 0 < d ->
  nn_term lgam r d l =
  ln (exp l * d * (Rpower PI (d / 2) / exp (lgam (d / 2 + 1))) * Rpower r (d - 1)
      * exp (- (exp l * (Rpower PI (d / 2) / exp (lgam (d / 2 + 1))) * Rpower r d))).
Proof. exact nn_term_documented. Qed.
Print Assumptions C03_nn_term_is_log_density.

Theorem C03_loss_is_documented : forall lgam r d tr z,
  (forall v, In v r -> 0 < v) -> (forall v, In v d -> 0 < v) ->
  loss lgam (INR (length z)) r d tr z =
  - (sum_list (map (fun v => ln (std_normal_pdf v)) z)
     + sum_list (map3 (fun ri di fi => ln (nn_density lgam (exp fi) di ri)) r d (tr z))).
Proof. exact loss_is_documented. Qed.
Print Assumptions C03_loss_is_documented.

Theorem C03_nn_density_normalised : forall lgam rho d, 0 < rho -> 0 < d ->
  is_RInt_gen (nn_density lgam rho d) (at_right 0) (Rbar_locally p_infty) 1.
Proof. intros lgam rho d Hr Hd. exact (nn_density_normalised (cvol lgam d) rho d (cvol_pos lgam d) Hr Hd). Qed.
Print Assumptions C03_nn_density_normalised.

Theorem C03_nn_loglik_max_at_mle : forall lgam r d l,
  nn_term lgam r d l <= nn_term lgam r d (mle lgam r d)
  /\ (nn_term lgam r d l = nn_term lgam r d (mle lgam r d) -> l = mle lgam r d).
Proof. intros. split; [apply nn_term_max_at_mle|apply nn_term_max_unique]. Qed.
Print Assumptions C03_nn_loglik_max_at_mle.

Theorem C03_mle_closed_form : forall lgam r d,
  mle lgam r d = lgam (d / 2 + 1) - (d / 2) * ln PI - d * ln r.
Proof. exact mle_documented. Qed.
Print Assumptions C03_mle_closed_form.

Theorem C03_mle_unit_expected_count : forall lgam r d, 0 < r ->
  exp (mle lgam r d) * cvol lgam d * Rpower r d = 1.
Proof. exact mle_unit_volume. Qed.
Print Assumptions C03_mle_unit_expected_count.

(* ---- k-nearest-neighbour Poisson model (dimensionality estimation) *)
Theorem C03_poisson_term_documented : forall lgam dist j dims log_dens,
  poisson_term lgam dist j dims log_dens =
  j * poisson_eta lgam dist dims log_dens - exp (poisson_eta lgam dist dims log_dens) - lgam j.
Proof. exact poisson_term_documented. Qed.
Print Assumptions C03_poisson_term_documented.

Theorem C03_poisson_eta_is_log_expected_count : forall lgam dist dims log_dens, 0 < dist ->
  poisson_eta lgam dist dims log_dens = ln (exp log_dens * cvol lgam dims * Rpower dist dims).
Proof. exact poisson_eta_volume. Qed.
Print Assumptions C03_poisson_eta_is_log_expected_count.

Theorem C03_poisson_max : forall j eta, 0 < j -> j * eta - exp eta <= j * ln j - j.
Proof. exact poisson_max. Qed.
Print Assumptions C03_poisson_max.

Theorem C03_poisson_k1_is_nn : forall lgam r d l, 0 < r -> 0 < d ->
  nn_term lgam r d l = poisson_term lgam r 1 d l + lgam 1 + ln d - ln r.
Proof. exact poisson_k1_is_nn. Qed.
Print Assumptions C03_poisson_k1_is_nn.

(* the (k+1)-th neighbour term is a normalised density of the distance: exp(term) is the density of the log expected
   count eta, whose Jacobian in r is dims / r *)
Theorem C03_knn_poisson_density_normalised : forall lgam k dims ld, 0 < dims ->
  lgam (INR (S k)) = ln (INR (fact k)) ->
  is_RInt_gen (fun r => exp (poisson_term lgam r (INR (S k)) dims ld) * (dims / r))
    (at_right 0) (Rbar_locally p_infty) 1.
Proof. exact poisson_density_normalised. Qed.
Print Assumptions C03_knn_poisson_density_normalised.

Example C03_knn_lgam_hypothesis_satisfiable : forall k, exists lgam : R -> R, lgam (INR (S k)) = ln (INR (fact k)).
Proof. intros k. exists (fun _ => ln (INR (fact k))). reflexivity. Qed.

(* ---- defaults *)
Theorem C03_ls_default : forall r, compute_ls r = exp 3 * exp (mean_list (map ln r)).
Proof. exact ls_default. Qed.
Print Assumptions C03_ls_default.

Theorem C03_mu_default : forall lgam r d,
  compute_mu lgam r d = quantile_list (map2 (mle lgam) r d) (1 / 100) - 10.
Proof. exact mu_default. Qed.
Print Assumptions C03_mu_default.

Theorem C03_quantile_between_min_and_max : forall l q a b, l <> [] -> 0 <= q <= 1 ->
  (forall v, In v l -> a <= v <= b) -> a <= quantile_list l q <= b.
Proof. exact quantile_list_bounds. Qed.
Print Assumptions C03_quantile_between_min_and_max.

Theorem C03_quantile_shift_equivariant : forall l q c, l <> [] -> 0 <= q <= 1 ->
  quantile_list (map (fun v => v + c) l) q = quantile_list l q + c.
Proof. exact quantile_list_shift. Qed.
Print Assumptions C03_quantile_shift_equivariant.

Theorem C03_d_default : forall ndim ncols, (2 <= ndim)%nat -> compute_d ndim ncols = ncols.
Proof. exact d_default. Qed.
Print Assumptions C03_d_default.

Theorem C03_initial_value_target : forall lgam r d mu, initial_value_target lgam r d mu = mle lgam r d - mu.
Proof. exact initial_value_target_documented. Qed.
Print Assumptions C03_initial_value_target.

(* RidgeThm.ridge_unique_statement: for every real closed field F, L : n x p, y, lam > 0 and z,
   J(zs) <= J(z), J(z) = J(zs) -> z = zs, and (L^T L + lam I) zs = L^T y, where J(z) = |L z - y|^2 + lam |z|^2
   and zs = (L^T L + lam I)^-1 L^T y *)
Theorem C03_ridge_unique_minimiser : RidgeThm.ridge_unique_statement.
Proof. exact RidgeThm.ridge_unique. Qed.
Print Assumptions C03_ridge_unique_minimiser.

Example C03_nonvacuous :
  (forall v, In v [1 / 2; 3] -> 0 < v) /\ [1; 2] <> [] /\ (0 <= 1 / 100 <= 1) /\ (2 <= 2)%nat
  /\ (forall v, In v [1; 2] -> 1 <= v <= 2) /\ 0 < 3 / 2.
Proof.
  repeat split; try lra; try lia; try discriminate.
  - intros v [<-|[<-|[]]]; lra.
  - destruct H as [<-|[<-|[]]]; lra.
  - destruct H as [<-|[<-|[]]]; lra.
Qed.
