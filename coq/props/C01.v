(* C01 - out-of-sample prediction is the exact GP conditional mean.
   Property theorems only; proofs live in thm/CondThm.v.  The definitions
   FullCond_*, LandmarksCond_*, LandmarksCholCond_*, add_variance_*, stabilize,
   get_L_* are regenerated from mellon/conditional.py and mellon/util.py on every
   run (gen/MatGen.v).  F is an arbitrary real closed field, all dimensions are
   universally quantified; cholF is the library Cholesky routine, assumed to
   satisfy chol_contract (validated on the recorded calls of every run);
   solve_triangular is modelled as the inverse of the triangle it reads. *)
From Coq Require Import String.
From mathcomp Require Import all_ssreflect all_fingroup all_algebra.
From MellonV Require Import MatOps MxInst MxPsd MxChol MatGen CondThm.
Set Implicit Arguments.
Unset Strict Implicit.
Import GRing.Theory Num.Theory.
Local Open Scope ring_scope.

Section C01.
Variable F : rcfType.
Variable cholF : forall n : nat, 'M[F]_n -> 'M[F]_n.
Variable eigS : forall n p : nat, 'M[F]_n -> 'cV[F]_p.
Variable eigV : forall n p : nat, 'M[F]_n -> 'M[F]_(n, p).
Variable qrQ : forall n m k : nat, 'M[F]_(n, m) -> 'M[F]_(n, k).
Variable qrR : forall n m k : nat, 'M[F]_(n, m) -> 'M[F]_(k, m).
Hypothesis chol_ok : chol_contract cholF.
Let ops := MxOps cholF eigS eigV qrQ qrR.
Local Existing Instance ops.

(* noise assembly: add_variance K M j = K + M M^T + D with D diagonal and
   (M M^T + D)_ii = max((M M^T)_ii, j); without a factor it is K + j I *)
Theorem C01_add_variance_diag n k (K : 'M[F]_n) (Mf : 'M[F]_(n, k)) j :
  add_variance_MM K Mf j = K + noise_of Mf j
  /\ (forall i, (noise_of Mf j) i i = Num.max ((Mf *m Mf^T) i i) j)
  /\ (forall i l, i != l -> (noise_of Mf j) i l = (Mf *m Mf^T) i l)
  /\ add_variance_MN K j = K + j%:M.
Proof.
split; [exact: add_variance_factor|split; [exact: noise_of_diag|split; [exact: noise_of_offdiag|exact: add_variance_none]]].
Qed.

(* scalar sigma: noise = max(sigma^2, j) I (so sigma = 0 or sigma^2 < j gives j I);
   per-cell sigma: noise = diag(max(sigma_i^2, j)) *)
Theorem C01_noise_forms n (s : F) (sv : 'cV[F]_n) j :
  noise_of (sigma_to_y_cov_factor_sS_cN s n) j = (Num.max (s ^+ 2) j)%:M
  /\ noise_of (sigma_to_y_cov_factor_sV_cN sv n) j = diagv (\col_i Num.max (sv i 0 ^+ 2) j).
Proof. by split; [exact: noise_of_scalar|exact: noise_of_vector]. Qed.

(* full GP: (K + N) weights = y - mu on every path that recomputes the factor *)
Theorem C01_full_normal_eq n c (K : 'M[F]_n) (y : 'M[F]_(n, c)) (mu j s : F) (sv : 'cV[F]_n) :
  sym K -> psd K -> 0 < j ->
  [/\ (K + j%:M) *m FullCond_init_LN_sS_cN_yT_uF_weights K y mu s j = y - const_mx mu,
      (K + (Num.max (s ^+ 2) j)%:M) *m FullCond_init_LN_sS_cN_yF_uF_weights K y mu s j = y - const_mx mu
    & (K + diagv (\col_i Num.max (sv i 0 ^+ 2) j)) *m FullCond_init_LN_sV_cN_yF_uF_weights K y mu sv j
      = y - const_mx mu].
Proof.
move=> sK pK j0; split; [exact: full_normal_eq_ymean|exact: full_normal_eq_scalar|exact: full_normal_eq_vector].
Qed.

(* general noise factor (latent posterior), and a supplied factor L *)
Theorem C01_full_normal_eq_factor n c k (K : 'M[F]_n) (y : 'M[F]_(n, c)) (mu j s : F) (Yf : 'M[F]_(n, k)) :
  spd (K + noise_of Yf j) ->
  (K + noise_of Yf j) *m FullCond_init_LN_sS_cM_yF_uF_weights K y mu s j Yf = y - const_mx mu.
Proof. exact: full_normal_eq_factor. Qed.

(* "values are the mean" with a noise factor supplied for the uncertainty (the estimators pass L diag(std) after ADVI):
   the factor is for the mean covariance only - the weights solve the jitter-regularised equations and do not depend on it *)
Theorem C01_supplied_factor_not_in_mean n c k (K : 'M[F]_n) (y : 'M[F]_(n, c)) (mu j s : F) (Yf : 'M[F]_(n, k)) :
  sym K -> psd K -> 0 < j ->
  FullCond_init_LN_sS_cM_yT_uT_weights K y mu s j Yf = FullCond_init_LN_sS_cN_yT_uF_weights K y mu s j
  /\ (K + j%:M) *m FullCond_init_LN_sS_cM_yT_uT_weights K y mu s j Yf = y - const_mx mu.
Proof.
move=> sK pK j0; have e : FullCond_init_LN_sS_cM_yT_uT_weights K y mu s j Yf = FullCond_init_LN_sS_cN_yT_uF_weights K y mu s j by [].
by split=> //; rewrite e; apply: full_normal_eq_ymean.
Qed.

Theorem C01_full_normal_eq_given n c (y : 'M[F]_(n, c)) (mu j s : F) (L : 'M[F]_n) :
  is_lower L -> (forall i, L i i != 0) ->
  (L *m L^T) *m FullCond_init_LM_sS_cN_yF_uF_weights y mu L s j = y - const_mx mu.
Proof. exact: full_normal_eq_given. Qed.

(* the coefficient matrices are invertible, so the weights are THE solution *)
Theorem C01_full_unique n c (K : 'M[F]_n) (y w : 'M[F]_(n, c)) (mu j s : F) :
  sym K -> psd K -> 0 < j ->
  (K + j%:M) *m w = y - const_mx mu -> w = FullCond_init_LN_sS_cN_yT_uF_weights K y mu s j.
Proof.
move=> sK pK j0 h; rewrite full_weights_ymean // -h mulmxA mulVmx ?mul1mx // spd_unit //.
exact: spd_jitter.
Qed.

(* inducing points: the DTC normal equations
   (K_uf K_fu + a (K_uu + j I)) w = K_uf (y - mu),  a = j (y_is_mean) or max(sigma^2, j) *)
Theorem C01_dtc_normal_eq n m c (Kuf : 'M[F]_(m, n)) (Kuu : 'M[F]_m) (y : 'M[F]_(n, c)) (mu j s : F) :
  sym Kuu -> psd Kuu -> 0 < j ->
  (Kuf *m Kuf^T + j *: (Kuu + j%:M)) *m LandmarksCond_init_sS_cN_yT_uF_weights Kuf Kuu y mu s j
     = Kuf *m (y - const_mx mu)
  /\ (Kuf *m Kuf^T + Num.max (s ^+ 2) j *: (Kuu + j%:M)) *m LandmarksCond_init_sS_cN_yF_uF_weights Kuf Kuu y mu s j
     = Kuf *m (y - const_mx mu).
Proof. by move=> sK pK j0; split; [exact: dtc_normal_eq_ymean|exact: dtc_normal_eq_scalar]. Qed.

Theorem C01_dtc_unique n m c (Kuf : 'M[F]_(m, n)) (Kuu : 'M[F]_m) (y : 'M[F]_(n, c)) (mu j s : F) (w : 'M[F]_(m, c)) :
  sym Kuu -> psd Kuu -> 0 < j ->
  (Kuf *m Kuf^T + j *: (Kuu + j%:M)) *m w = Kuf *m (y - const_mx mu) ->
  w = LandmarksCond_init_sS_cN_yT_uF_weights Kuf Kuu y mu s j.
Proof. by move=> sK pK j0 h; rewrite dtc_weights_ymean //; apply: dtc_unique. Qed.

(* Cholesky-latent form: L^T weights = z with L L^T = K_uu + noise, hence
   mean(x) = mu + K_xu (L L^T)^-1 (L z) *)
Theorem C01_chol_latent_eq m c (Kuu : 'M[F]_m) (z : 'M[F]_(m, c)) (mu j s : F) (n_obs : nat) :
  sym Kuu -> psd Kuu -> 0 < j ->
  let L := cholF (Kuu + j%:M) in
  let w := LandmarksCholCond_init_LN_sS_yT_uF_weights Kuu z mu n_obs s j in
  [/\ chol_of L (Kuu + j%:M), L^T *m w = z & w = invmx (L *m L^T) *m (L *m z)].
Proof. by move=> sK pK j0; apply: latent_eq_ymean. Qed.

Theorem C01_chol_latent_eq_noise m c (Kuu : 'M[F]_m) (z : 'M[F]_(m, c)) (mu j s : F) (sv : 'cV[F]_m) (n_obs : nat) :
  sym Kuu -> psd Kuu -> 0 < j ->
  (let a := Num.max (s ^+ 2) j in
   let L := cholF (Kuu + a%:M) in
   let w := LandmarksCholCond_init_LN_sS_yF_uF_weights Kuu z mu n_obs s j in
   [/\ chol_of L (Kuu + a%:M), L^T *m w = z & w = invmx (L *m L^T) *m (L *m z)])
  /\ (let N := diagv (\col_i Num.max (sv i 0 ^+ 2) j) in
      let L := cholF (Kuu + N) in
      let w := LandmarksCholCond_init_LN_sV_yF_uF_weights Kuu z mu n_obs sv j in
      [/\ chol_of L (Kuu + N), L^T *m w = z & w = invmx (L *m L^T) *m (L *m z)]).
Proof. by move=> sK pK j0; split; [apply: latent_eq_scalar|apply: latent_eq_vector]. Qed.

Theorem C01_chol_latent_eq_given m c (z : 'M[F]_(m, c)) (mu j s : F) (n_obs : nat) (L : 'M[F]_m) :
  is_lower L -> (forall i, L i i != 0) ->
  let w := LandmarksCholCond_init_LM_sS_yT_uF_weights z mu n_obs L s j in
  L^T *m w = z /\ w = invmx L^T *m z.
Proof. by move=> lL dL; apply: latent_eq_given. Qed.

(* the mean is an affine read-out of the weights (all three families share it) *)
Theorem C01_mean_is_affine_readout q b c (Ks : 'M[F]_(q, b)) mu (w : 'M[F]_(b, c)) :
  [/\ FullCond_mean Ks mu w = const_mx mu + Ks *m w,
      LandmarksCond_mean Ks mu w = const_mx mu + Ks *m w
    & LandmarksCholCond_mean Ks mu w = const_mx mu + Ks *m w].
Proof. exact: mean_readout. Qed.

(* batch independence: for any kernel function on any point type, evaluating a
   re-indexed batch (sub-batch, single row, permutation, duplicates) returns the
   corresponding rows of the full evaluation *)
Theorem C01_mean_row_local (P : Type) (k : P -> P -> F) q p0 b c (X : 'I_q -> P) (U : 'I_b -> P)
    (f : 'I_p0 -> 'I_q) mu (w : 'M[F]_(b, c)) (i : 'I_q) (s : 'S_q) :
  [/\ FullCond_mean (gram k (X \o f) U) mu w = \matrix_(t, l) (FullCond_mean (gram k X U) mu w) (f t) l,
      FullCond_mean (gram k (fun _ : 'I_1 => X i) U) mu w = row i (FullCond_mean (gram k X U) mu w)
    & FullCond_mean (gram k (X \o s) U) mu w = row_perm s (FullCond_mean (gram k X U) mu w)].
Proof. by split; [exact: mean_batch|exact: mean_row_local|exact: mean_perm]. Qed.

End C01.

(* non-vacuity of the Cholesky contract assumed above: lib/MxChol.v constructs the factor of every
   symmetric positive definite matrix over any real closed field *)
Theorem C01_chol_contract_satisfiable (F : rcfType) : chol_contract (@cholm F).
Proof. exact: chol_contract_cholm. Qed.

(* the nine public predictor classes are (formulation mixin, Predictor flavour) with empty bodies *)
Theorem C01_nine_classes :
  predictor_classes =
  [:: ("FullConditional", [:: "_FullConditional"; "Predictor"]);
      ("ExpFullConditional", [:: "_FullConditional"; "ExpPredictor"]);
      ("FullConditionalTime", [:: "_FullConditional"; "PredictorTime"]);
      ("LandmarksConditional", [:: "_LandmarksConditional"; "Predictor"]);
      ("ExpLandmarksConditional", [:: "_LandmarksConditional"; "ExpPredictor"]);
      ("LandmarksConditionalTime", [:: "_LandmarksConditional"; "PredictorTime"]);
      ("LandmarksConditionalCholesky", [:: "_LandmarksConditionalCholesky"; "Predictor"]);
      ("ExpLandmarksConditionalCholesky", [:: "_LandmarksConditionalCholesky"; "ExpPredictor"]);
      ("LandmarksConditionalCholeskyTime", [:: "_LandmarksConditionalCholesky"; "PredictorTime"])]%string.
Proof. reflexivity. Qed.

Print Assumptions C01_add_variance_diag.
Print Assumptions C01_noise_forms.
Print Assumptions C01_full_normal_eq.
Print Assumptions C01_full_normal_eq_factor.
Print Assumptions C01_supplied_factor_not_in_mean.
Print Assumptions C01_full_normal_eq_given.
Print Assumptions C01_full_unique.
Print Assumptions C01_dtc_normal_eq.
Print Assumptions C01_dtc_unique.
Print Assumptions C01_chol_latent_eq.
Print Assumptions C01_chol_latent_eq_noise.
Print Assumptions C01_chol_latent_eq_given.
Print Assumptions C01_mean_is_affine_readout.
Print Assumptions C01_mean_row_local.
Print Assumptions C01_nine_classes.
Print Assumptions C01_chol_contract_satisfiable.
