(* GENERATED structural tables for C13 *)
From Coq Require Import ZArith List String.
From MellonV Require Import PyVal.
Import ListNotations.
Open Scope string_scope.
Definition time_method_names : list string := ["mean"; "covariance"; "mean_covariance"; "uncertainty"; "time_derivative"; "gradient"; "hessian"; "hessian_log_determinant"].
Definition time_methods : list (string * bool) := [("mean", true); ("covariance", true); ("mean_covariance", true); ("uncertainty", true); ("time_derivative", true); ("gradient", true); ("hessian", true); ("hessian_log_determinant", true)].
Definition wrapper_conflict_exn : exn := ValueError.
Definition wrapper_in_axes : Z := 0%Z.
Definition wrapper_out_axes : Z := 1%Z.
Definition wrapper_conflict_guarded : bool := true.
Definition wrapper_passes_time_keyword : bool := true.
