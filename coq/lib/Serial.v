(* Hand-written executable model of Mellon's value / kernel serialisation
   (mellon/util.py make_serializable, deserialize; mellon/base_cov.py state capture and
   restore) and of CPython's json.loads(json.dumps(.)) on the JSON-compatible values.
   Tied to the code by the executable correspondence run of checks/C19.py and C07.py
   (no translator for these recursive, comprehension-based functions).  Models only. *)
From Coq Require Import ZArith QArith List Bool String Ascii.
From MellonV Require Import PyVal.
Import ListNotations.
Open Scope Z_scope.
Open Scope string_scope.

(* ------------------------------------------------------------------ *)
(* arrays <-> nested lists *)
Definition elem_val (k : akind) (x : xf) : val :=
  match k, x with
  | KF, _ => VFloat x
  | KI, XFin q => VInt (Qnum q)
  | KB, XFin q => VBool (negb (Z.eqb (Qnum q) 0))
  | _, _ => VFloat x
  end.
Definition prodZ (l : list Z) : Z := fold_right Z.mul 1 l.

(* ndarray.tolist() : nested Python lists following the shape *)
Fixpoint tolist (k : akind) (sh : list Z) (d : list xf) : val :=
  match sh with
  | [] => match d with x :: _ => elem_val k x | [] => VNone end
  | n :: rest =>
      VList (map (tolist k rest) (take_rows (Z.to_nat (prodZ rest)) (Z.to_nat n) d))
  end.

(* all leaves of a nested list, left to right *)
Fixpoint flat (v : val) : list val :=
  match v with
  | VList l => (fix go (l : list val) : list val :=
                  match l with [] => [] | x :: r => (flat x ++ go r)%list end) l
  | x => [x]
  end.
Definition leaf_xf (v : val) : option xf :=
  match v with
  | VFloat f => Some f
  | VInt z => Some (xf_of_Z z)
  | VBool b => Some (xf_of_bool b)
  | _ => None
  end.
Definition dtype_name (k : akind) : string :=
  match k with KF => "float64" | KI => "int64" | KB => "bool" end.
Definition kind_of_dtype (s : string) : option akind :=
  if string_eqb s "float64" then Some KF
  else if string_eqb s "int64" then Some KI
  else if string_eqb s "bool" then Some KB else None.
(* dtype inference of jnp.array(nested list) when no dtype is stored (legacy files) *)
Definition infer_kind (leaves : list val) : akind :=
  if forallb (fun v => match v with VBool _ => true | _ => false end) leaves && negb (Nat.eqb (List.length leaves) 0) then KB
  else if forallb (fun v => match v with VBool _ | VInt _ => true | _ => false end) leaves && negb (Nat.eqb (List.length leaves) 0) then KI
  else KF.
(* the shape jnp.array infers from a (rectangular) nested list *)
Fixpoint nested_shape (fuel : nat) (v : val) : list Z :=
  match fuel, v with
  | S f, VList l => Z.of_nat (List.length l) :: match l with x :: _ => nested_shape f x | [] => [] end
  | _, _ => []
  end.

(* ------------------------------------------------------------------ *)
Definition none_to_str (v : val) : val := match v with VNone => VStr "None" | _ => v end.
Definition str_to_none (v : val) : val :=
  match v with VStr s => if string_eqb s "None" then VNone else v | _ => v end.

Definition tagged (ty : string) (rest : list (val * val)) : val :=
  VDict ((VStr "type", VStr ty) :: rest).

(* make_serializable *)
Fixpoint ser (x : val) : val :=
  match x with
  | VArr k sh d | VNpArr k sh d =>
      tagged "jax.numpy" [(VStr "data", tolist k sh d); (VStr "dtype", VStr (dtype_name k));
                          (VStr "shape", VList (map VInt sh))]
  | VJInt z =>
      tagged "jax.numpy" [(VStr "data", VInt z); (VStr "dtype", VStr "int64"); (VStr "shape", VList [])]
  | VNpScalar KI (XFin q) => VInt (Qnum q)
  | VNpScalar KF f => VFloat f
  | VSlice a b c => tagged "slice" [(VStr "data", VList [none_to_str a; none_to_str b; none_to_str c])]
  | VDict l =>
      tagged "dict" [(VStr "data", VDict ((fix go (l : list (val * val)) : list (val * val) :=
                                             match l with [] => [] | (k, v) :: r => (k, ser v) :: go r end) l))]
  | VSet l =>
      tagged "set" [(VStr "data", VList ((fix go (l : list val) : list val :=
                                            match l with [] => [] | v :: r => ser v :: go r end) l))]
  | _ => none_to_str x
  end.

Definition dict_get (k : string) (l : list (val * val)) : option val := assoc_lookup (VStr k) l.

Definition array_of_json (data : val) (dtype : option val) (shape : option val) : res val :=
  let leaves := flat data in
  match all_some (map leaf_xf leaves) with
  | None => Err TypeError
  | Some xs =>
      let xs := match data with VList _ => xs | _ => xs end in
      let k := match dtype with
               | Some (VStr s) => kind_of_dtype s
               | Some VNone | None => Some (infer_kind leaves)
               | Some _ => None
               end in
      match k with
      | None => Err TypeError
      | Some k =>
          let xs := match data with VList [] => [] | _ => xs end in
          match shape with
          | Some (VList shl) =>
              match all_some (map (fun v => match v with VInt z => Some z | _ => None end) shl) with
              | Some sh => if Z.eqb (prodZ sh) (Z.of_nat (List.length xs))
                           then Ok (match k, sh, xs with
                                    | KI, [], [XFin q] => VJInt (Qnum q)       (* 0-d integer JAX array *)
                                    | _, _, _ => VArr k sh xs end)
                           else Err TypeError
              | None => Err TypeError
              end
          | None => Ok (VArr k (nested_shape 8 data) xs)
          | Some _ => Err TypeError
          end
      end
  end.

(* deserialize; a dict without a "type" entry raises KeyError, an unknown type yields None *)
Fixpoint deser_f (fuel : nat) (s : val) : res val :=
  match fuel with O => Err OtherError | S fuel =>
  let deser := deser_f fuel in
  match s with
  | VDict l =>
      match dict_get "type" l with
      | None => Err KeyError
      | Some ty =>
          if scalar_eqb ty (VStr "jax.numpy") then
            match dict_get "data" l with
            | Some data => array_of_json data (dict_get "dtype" l) (dict_get "shape" l)
            | None => Err KeyError
            end
          else if scalar_eqb ty (VStr "slice") then
            match dict_get "data" l with
            | Some (VList [a; b; c]) => Ok (VSlice (str_to_none a) (str_to_none b) (str_to_none c))
            | Some (VList [a; b]) => Ok (VSlice (str_to_none a) (str_to_none b) VNone)
            | Some (VList [a]) => Ok (VSlice VNone (str_to_none a) VNone)
            | Some _ => Err TypeError
            | None => Err KeyError
            end
          else if scalar_eqb ty (VStr "dict") then
            match dict_get "data" l with
            | Some (VDict items) =>
                rmap VDict ((fix go (l : list (val * val)) : res (list (val * val)) :=
                               match l with
                               | [] => Ok []
                               | (k, v) :: r => bind (deser v) (fun a => bind (go r) (fun b => Ok ((k, a) :: b)))
                               end) items)
            | Some _ => Err AttributeError
            | None => Err KeyError
            end
          else if scalar_eqb ty (VStr "set") then
            match dict_get "data" l with
            | Some (VList items) =>
                rmap VSet ((fix go (l : list val) : res (list val) :=
                              match l with
                              | [] => Ok []
                              | v :: r => bind (deser v) (fun a => bind (go r) (fun b => Ok (a :: b)))
                              end) items)
            | Some _ => Err TypeError
            | None => Err KeyError
            end
          else Ok VNone
      end
  | _ => Ok (str_to_none s)
  end end.
Definition deser := deser_f 12.      (* nesting depth bound; out of fuel is an error value, never a result *)

(* ------------------------------------------------------------------ *)
(* json.loads(json.dumps(v)) on JSON-compatible values: tuples become lists, dict keys must be str
   (other key kinds are outside the modelled grammar), numpy.float64 is a float, anything else
   is not serialisable (TypeError) *)
Fixpoint json_rt (v : val) : res val :=
  match v with
  | VNone | VBool _ | VInt _ | VFloat _ | VStr _ => Ok v
  | VNumStr s _ => Ok v
  | VNpScalar KF f => Ok (VFloat f)
  | VList l | VTuple l =>
      rmap VList ((fix go (l : list val) : res (list val) :=
                     match l with
                     | [] => Ok []
                     | x :: r => bind (json_rt x) (fun a => bind (go r) (fun b => Ok (a :: b)))
                     end) l)
  | VDict l =>
      rmap VDict ((fix go (l : list (val * val)) : res (list (val * val)) :=
                     match l with
                     | [] => Ok []
                     | (VStr k, x) :: r => bind (json_rt x) (fun a => bind (go r) (fun b => Ok ((VStr k, a) :: b)))
                     | _ :: _ => Err TypeError
                     end) l)
  | _ => Err TypeError
  end.

Definition roundtrip (v : val) : res val := bind (json_rt (ser v)) deser.

(* ------------------------------------------------------------------ *)
(* covariance expressions *)
Inductive kexpr :=
  | KBase (cls : string) (attrs : list (string * val))
  | KPair (cls : string) (left : kexpr) (right : kexpr + val) (active_dims : val).

Definition base_classes : list string := ["Matern32"; "Matern52"; "ExpQuad"; "Exponential"; "RatQuad"; "Linear"].
Definition pair_classes : list string := ["Add"; "Mul"; "Pow"].
Definition mem_str (s : string) (l : list string) : bool := existsb (string_eqb s) l.

Definition kmeta (cls modname : string) : val :=
  VDict [(VStr "classname", VStr cls); (VStr "module_name", VStr modname)].

(* __getstate__ without the volatile metadata entries (version, date, interpreter) *)
Fixpoint kser (e : kexpr) : val :=
  match e with
  | KBase cls attrs =>
      VDict [(VStr "type", VStr "mellon.Covariance");
             (VStr "data", VDict (map (fun kv => (VStr (fst kv), ser (snd kv))) attrs));
             (VStr "metadata", kmeta cls "mellon.cov")]
  | KPair cls l r ad =>
      VDict [(VStr "type", VStr "mellon.Covariance");
             (VStr "left_data", kser l);
             (VStr "right_data", match r with inl k => kser k | inr v => ser v end);
             (VStr "active_dims", ser ad);
             (VStr "metadata", kmeta cls "mellon")]
  end.

Definition is_cov_dict (v : val) : bool :=
  match v with
  | VDict l => match dict_get "type" l with Some t => scalar_eqb t (VStr "mellon.Covariance") | None => false end
  | _ => false
  end.

Fixpoint deser_attrs (l : list (val * val)) : res (list (string * val)) :=
  match l with
  | [] => Ok []
  | (VStr k, v) :: r => bind (deser v) (fun a => bind (deser_attrs r) (fun b => Ok ((k, a) :: b)))
  | _ :: _ => Err TypeError
  end.

(* Covariance.from_dict; fuel bounds the nesting depth of the dictionary *)
Fixpoint kdeser (fuel : nat) (s : val) : res kexpr :=
  match fuel with
  | O => Err OtherError
  | S fuel =>
      if negb (is_cov_dict s) then Err ValueError else
      match s with
      | VDict l =>
          match dict_get "metadata" l with
          | Some (VDict m) =>
              match dict_get "classname" m, dict_get "module_name" m with
              | Some (VStr cls), Some (VStr _) =>
                  if mem_str cls base_classes then
                    match dict_get "data" l with
                    | Some (VDict d) => rmap (KBase cls) (deser_attrs d)
                    | Some _ => Err AttributeError
                    | None => Err KeyError
                    end
                  else if mem_str cls pair_classes then
                    match dict_get "left_data" l, dict_get "right_data" l with
                    | Some ld, Some rd =>
                        bind (kdeser fuel ld) (fun lk =>
                        bind (if is_cov_dict rd then rmap inl (kdeser fuel rd) else rmap inr (deser rd)) (fun rk =>
                        bind (deser (match dict_get "active_dims" l with Some a => a | None => VNone end)) (fun ad =>
                        Ok (KPair cls lk rk ad))))
                    | _, _ => Err KeyError
                    end
                  else Err AttributeError
              | _, _ => Err KeyError
              end
          | _ => Err KeyError
          end
      | _ => Err ValueError
      end
  end.

Fixpoint kdepth (e : kexpr) : nat :=
  match e with
  | KBase _ _ => 1
  | KPair _ l r _ => S (Nat.max (kdepth l) (match r with inl k => kdepth k | inr _ => 0 end))
  end.

(* ------------------------------------------------------------------ *)
(* predictors (mellon/base_predictor.py: __getstate__, from_dict incl. the pre-1.4.0 upgrade, __setstate__) *)
Record pstate := mk_pstate { p_cls : string; p_data : list (string * val); p_cov : kexpr }.

Definition predictor_classes : list string :=
  ["FullConditional"; "ExpFullConditional"; "FullConditionalTime";
   "LandmarksConditional"; "ExpLandmarksConditional"; "LandmarksConditionalTime";
   "LandmarksConditionalCholesky"; "ExpLandmarksConditionalCholesky"; "LandmarksConditionalCholeskyTime"].

(* __getstate__ without the volatile metadata entries; p_data = state variables in _data_dict order
   followed by n_input_features, n_obs, _state_variables *)
Definition pser (version : string) (p : pstate) : val :=
  VDict [(VStr "data", VDict (map (fun kv => (VStr (fst kv), ser (snd kv))) (p_data p)));
         (VStr "cov_func", kser (p_cov p));
         (VStr "metadata", VDict [(VStr "classname", VStr (p_cls p)); (VStr "module_name", VStr "mellon.conditional");
                                  (VStr "module_version", VStr version)])].

(* "XConditionalMean" -> "XConditional" (str.replace) for the class names that existed before 1.4.0 *)
Definition legacy_names : list (string * string) :=
  [("FullConditionalMean", "FullConditional"); ("ExpFullConditionalMean", "ExpFullConditional");
   ("FullConditionalMeanTime", "FullConditionalTime");
   ("LandmarksConditionalMean", "LandmarksConditional"); ("ExpLandmarksConditionalMean", "ExpLandmarksConditional");
   ("LandmarksConditionalMeanTime", "LandmarksConditionalTime");
   ("LandmarksConditionalMeanCholesky", "LandmarksConditionalCholesky");
   ("ExpLandmarksConditionalMeanCholesky", "ExpLandmarksConditionalCholesky");
   ("LandmarksConditionalMeanCholeskyTime", "LandmarksConditionalCholeskyTime")].
Definition upgrade_name (cls : string) : string :=
  match find (fun p => string_eqb (fst p) cls) legacy_names with Some (_, n) => n | None => cls end.

Fixpoint has_key (k : string) (l : list (val * val)) : bool :=
  match l with [] => false | (VStr k', _) :: r => string_eqb k k' || has_key k r | _ :: r => has_key k r end.

(* from_dict; [legacy] is the verdict of version.parse(module_version) < version.parse("1.4.0") (packaging, an oracle) *)
Definition pdeser (legacy : bool) (kfuel : nat) (s : val) : res pstate :=
  match s with
  | VDict l =>
      match dict_get "metadata" l, dict_get "data" l, dict_get "cov_func" l with
      | Some (VDict m), Some (VDict d), Some c =>
          match dict_get "classname" m, dict_get "module_name" m with
          | Some (VStr cls), Some (VStr modname) =>
              let cls := if legacy && string_eqb modname "mellon.conditional" then upgrade_name cls else cls in
              let d := if legacy then
                         let d1 := if has_key "n_obs" d then d else (d ++ [(VStr "n_obs", VNone)])%list in
                         if has_key "_state_variables" d1 then d1
                         else (d1 ++ [(VStr "_state_variables",
                                       VSet (filter (fun k => negb (scalar_eqb k (VStr "n_input_features"))) (map fst d1)))])%list
                       else d in
              if mem_str cls predictor_classes then
                bind (deser_attrs d) (fun data =>
                bind (kdeser kfuel c) (fun cov => Ok (mk_pstate cls data cov)))
              else Err AttributeError
          | _, _ => Err KeyError
          end
      | _, _, _ => Err KeyError
      end
  | _ => Err TypeError
  end.

(* file codecs selected by to_json(filename, compress) and from_json(filepath, compress) *)
Inductive codec := Plain | Gzip | Bz2.
Definition ends_with (suffix s : string) : bool :=
  let n := String.length s in let k := String.length suffix in
  if Nat.leb k n then string_eqb (substring (n - k) k s) suffix else false.
