(* Facts about the PyVal primitives (hand-written, repo independent). *)
From Coq Require Import ZArith QArith List Bool Lia Qround.
From MellonV Require Import PyVal.
Import ListNotations.
Open Scope Z_scope.

(* ---- range_from / nthZ ---- *)
Lemma range_from_length s st c : length (range_from s st c) = c.
Proof. revert s; induction c as [|c IH]; intros s; simpl; [reflexivity|now rewrite IH]. Qed.

Lemma nthZ_skipn {A} (l : list A) (k : nat) (i : Z) d :
  0 <= i -> nthZ (skipn k l) i d = nthZ l (Z.of_nat k + i) d.
Proof.
  intros Hi. unfold nthZ. rewrite Z2Nat.inj_add by lia. rewrite Nat2Z.id.
  revert l; induction k as [|k IH]; intros l; [reflexivity|].
  destruct l as [|a l]; simpl.
  - destruct (Z.to_nat i); reflexivity.
  - apply IH.
Qed.

Lemma map_nth_range_up_gen {A} (l : list A) d (s : nat) (c : nat) :
  (s + c <= length l)%nat ->
  map (fun i => nthZ l i d) (range_from (Z.of_nat s) 1 c) = firstn c (skipn s l).
Proof.
  revert s; induction c as [|c IH]; intros s H; [reflexivity|].
  cbn [range_from map].
  replace (Z.of_nat s + 1) with (Z.of_nat (S s)) by lia.
  rewrite IH by lia.
  unfold nthZ; rewrite Nat2Z.id.
  assert (Hs : (s < length l)%nat) by lia.
  clear IH H. revert s Hs. induction l as [|a l IHl]; intros s Hs; [simpl in Hs; lia|].
  destruct s as [|s]; [reflexivity|].
  simpl in Hs. cbn [skipn nth]. apply IHl. lia.
Qed.

Lemma firstn_S_snoc {A} (l : list A) d (c k : nat) :
  (k + S c <= length l)%nat ->
  firstn (S c) (skipn k l) = firstn c (skipn k l) ++ [nth (k + c) l d].
Proof.
  revert l c. induction k as [|k IHk]; intros l c Hk.
  - cbn [skipn plus]. revert l Hk. induction c as [|c IHc]; intros l Hk.
    + destruct l; [simpl in Hk; lia|reflexivity].
    + destruct l as [|b m]; [simpl in Hk; lia|].
      simpl in Hk. cbn [nth]. 
      change (firstn (S (S c)) (b :: m)) with (b :: firstn (S c) m).
      change (firstn (S c) (b :: m)) with (b :: firstn c m).
      rewrite (IHc m) by lia. reflexivity.
  - destruct l as [|a l]; [simpl in Hk; lia|].
    cbn [skipn plus nth]. apply IHk. simpl in Hk. lia.
Qed.

Lemma map_nth_range_down_gen {A} (l : list A) d (c : nat) (e : nat) :
  (* indices e-1, e-2, ..., e-c *)
  (c <= e)%nat -> (e <= length l)%nat ->
  map (fun i => nthZ l i d) (range_from (Z.of_nat e - 1) (-1) c) = rev (firstn c (skipn (e - c) l)).
Proof.
  revert e; induction c as [|c IH]; intros e H1 H2; [reflexivity|].
  cbn [range_from map].
  replace (Z.of_nat e - 1 + -1) with (Z.of_nat (e - 1) - 1) by lia.
  rewrite IH by lia.
  replace (e - 1 - c)%nat with (e - S c)%nat by lia.
  rewrite (firstn_S_snoc l d c (e - S c)) by lia.
  rewrite rev_app_distr. cbn [rev app]. f_equal.
  unfold nthZ. f_equal. lia.
Qed.

(* ---- slice_indices on the two slice shapes used by the rank logic ---- *)
Lemma slice_rev_tail (n p : Z) :
  0 <= p <= n ->
  slice_indices n None (Some (- p - 1)) (Some (-1)) = Ok (range_from (n - 1) (-1) (Z.to_nat p)).
Proof.
  intros H. unfold slice_indices.
  replace (-1 =? 0) with false by reflexivity.
  replace (0 <? -1) with false by reflexivity.
  cbv zeta.
  destruct (Z.ltb_spec (- p - 1) 0) as [_|H0]; [|lia].
  replace (Z.max (-1) (Z.min (n - 1) (- p - 1 + n))) with (n - p - 1) by lia.
  destruct (Z.ltb_spec (n - p - 1) (n - 1)) as [H1|H1].
  - do 2 f_equal. replace (n - 1 - (n - p - 1) - -1 - 1) with p by lia.
    change (- -1) with 1. now rewrite Z.div_1_r.
  - replace p with 0 by lia. reflexivity.
Qed.

Lemma slice_tail (n p : Z) :
  1 <= p <= n ->
  slice_indices n (Some (- p)) None None = Ok (range_from (n - p) 1 (Z.to_nat p)).
Proof.
  intros H. unfold slice_indices.
  replace (1 =? 0) with false by reflexivity.
  replace (0 <? 1) with true by reflexivity.
  cbv zeta.
  destruct (Z.ltb_spec (- p) 0) as [_|H0]; [|lia].
  replace (Z.max 0 (Z.min n (- p + n))) with (n - p) by lia.
  destruct (Z.ltb_spec (n - p) n) as [H1|H1]; [|lia].
  do 2 f_equal. replace (n - (n - p) + 1 - 1) with p by lia. now rewrite Z.div_1_r.
Qed.

(* -0 == 0 : the slice a[-0:] is the whole array *)
Lemma slice_tail_zero (n : Z) :
  0 <= n -> slice_indices n (Some 0) None None = Ok (range_from 0 1 (Z.to_nat n)).
Proof.
  intros H. unfold slice_indices. cbn [Z.eqb Z.ltb Z.compare]. cbv zeta.
  replace (Z.max 0 (Z.min n 0)) with 0 by lia.
  destruct (Z.ltb_spec 0 n) as [H1|H1].
  - do 2 f_equal. replace (n - 0 + 1 - 1) with n by lia. now rewrite Z.div_1_r.
  - replace n with 0 by lia. reflexivity.
Qed.
