(* World A, repo-independent definitions: list reductions, the entry-wise semantics of the
   array patterns the scalar translator recognises (contractions, x[..., active_dims],
   zeros().at[..., active_dims].set(), jnp.quantile).  Definitions only; facts are in AListsFacts.v *)
From Coq Require Import Reals List ZArith Bool.
Import ListNotations.
Open Scope R_scope.

Fixpoint sum_list (l : list R) : R :=
  match l with [] => 0 | x :: r => x + sum_list r end.

Definition mean_list (l : list R) : R := sum_list l / INR (length l).

Fixpoint map2 {A B C : Type} (f : A -> B -> C) (la : list A) (lb : list B) : list C :=
  match la, lb with
  | a :: ra, b :: rb => f a b :: map2 f ra rb
  | _, _ => []
  end.

Fixpoint map3 {A B C D : Type} (f : A -> B -> C -> D) (la : list A) (lb : list B) (lc : list C) : list D :=
  match la, lb, lc with
  | a :: ra, b :: rb, c :: rc => f a b c :: map3 f ra rb rc
  | _, _, _ => []
  end.

(* einsum / tensordot over the feature axis, arraysum(x * x, axis=1) *)
Definition dot (x y : list R) : R := sum_list (map2 Rmult x y).
Definition sumsq (x : list R) : R := dot x x.
(* ||x - y||^2 *)
Definition sqdist (x y : list R) : R := sum_list (map2 (fun a b => (a - b) ^ 2) x y).

(* y with coordinate c replaced by t *)
Fixpoint upd (l : list R) (c : nat) (t : R) : list R :=
  match l, c with
  | [], _ => []
  | _ :: r, O => t :: r
  | a :: r, S c' => a :: upd r c' t
  end.

(* ------------------------------------------------------------------ active_dims *)
Inductive dims :=
| DNone
| DInt (z : Z)
| DList (l : list Z)
| DMask (m : list bool)
| DSlice (start stop step : option Z).

(* Python index normalisation: negative indices count from the end *)
Definition norm_index (n : nat) (z : Z) : nat :=
  Z.to_nat (if (z <? 0)%Z then (Z.of_nat n + z)%Z else z).

Fixpoint mask_idx (i : nat) (m : list bool) : list nat :=
  match m with
  | [] => []
  | b :: r => if b then i :: mask_idx (S i) r else mask_idx (S i) r
  end.

(* range(start, stop, step) with fuel *)
Fixpoint zrange (fuel : nat) (start stop step : Z) : list nat :=
  match fuel with
  | O => []
  | S f =>
    if (if (0 <? step)%Z then (start <? stop)%Z else (stop <? start)%Z)
    then Z.to_nat start :: zrange f (start + step)%Z stop step
    else []
  end.

(* slice(start, stop, step).indices(n), CPython semantics *)
Definition slice_indices (n : nat) (start stop step : option Z) : list nat :=
  let len := Z.of_nat n in
  let st := match step with Some s => s | None => 1%Z end in
  let lower := if (0 <? st)%Z then 0%Z else (-1)%Z in
  let upper := if (0 <? st)%Z then len else (len - 1)%Z in
  let clip (z : Z) := if (z <? 0)%Z then Z.max (z + len) lower else Z.min z upper in
  let a := match start with Some z => clip z | None => if (0 <? st)%Z then lower else upper end in
  let b := match stop with Some z => clip z | None => if (0 <? st)%Z then upper else lower end in
  if (st =? 0)%Z then [] else zrange (S n) a b st.

Definition resolve_dims (ad : dims) (n : nat) : list nat :=
  match ad with
  | DNone => seq 0 n
  | DInt z => [norm_index n z]
  | DList l => map (norm_index n) l
  | DMask m => mask_idx 0 m
  | DSlice a b s => slice_indices n a b s
  end.

Definition take_idx (idx : list nat) (x : list R) : list R := map (fun i => nth i x 0) idx.

(* x[..., active_dims]   (None: x itself) *)
Definition sel (ad : dims) (x : list R) : list R :=
  match ad with
  | DNone => x
  | _ => take_idx (resolve_dims ad (length x)) x
  end.

Fixpoint find_pos (c : nat) (idx : list nat) : option nat :=
  match idx with
  | [] => None
  | i :: r => if Nat.eqb i c then Some O else option_map S (find_pos c r)
  end.

(* zeros(width).at[..., active_dims].set(values) read at coordinate c  (None: values itself) *)
Definition expand (ad : dims) (width : nat) (values : nat -> R) (c : nat) : R :=
  match ad with
  | DNone => values c
  | _ => match find_pos c (resolve_dims ad width) with Some j => values j | None => 0 end
  end.

(* the index lists a well-formed active_dims may denote: in range, no repetition *)
Definition dims_ok (ad : dims) (n : nat) : Prop :=
  NoDup (resolve_dims ad n) /\ Forall (fun i => (i < n)%nat) (resolve_dims ad n).

(* ------------------------------------------------------------------ jnp.quantile (linear interpolation) *)
Fixpoint rinsert (a : R) (l : list R) : list R :=
  match l with
  | [] => [a]
  | b :: r => if Rle_dec a b then a :: l else b :: rinsert a r
  end.
Fixpoint rsort (l : list R) : list R :=
  match l with [] => [] | a :: r => rinsert a (rsort r) end.

(* value at the real position h between entries lo and lo+1 *)
Definition interp_at (s : list R) (h : R) (lo : nat) : R :=
  nth lo s 0 + (h - INR lo) * (nth (S lo) s 0 - nth lo s 0).

Definition quantile_sorted (s : list R) (q : R) : R :=
  let h := q * INR (length s - 1) in
  interp_at s h (Z.to_nat (Int_part h)).

Definition quantile_list (l : list R) (q : R) : R := quantile_sorted (rsort l) q.
