(* PyValExtC14: further Python / NumPy / JAX primitives over the value universe of
   PyVal.v, needed by the generated code of C14 (per-time-point neighbour
   distances): element access, list comprehension over arrays, unique, column
   selection, dict values, builtin sum.  Definitions only (facts: thm/C14Thm.v).
   Every primitive is total and mirrors the exception class of the real one;
   they are compared exactly with the implementation on every run of checks/C14.py. *)
From Coq Require Import ZArith QArith List Bool String.
From MellonV Require Import PyVal.
Import ListNotations.
Open Scope Z_scope.

(* the Python scalar an array element converts to (.item(), .tolist()) *)
Definition elem_val (k : akind) (f : xf) : val :=
  match k, f with
  | KF, _ => VFloat f
  | KB, _ => VBool (xf_truth f)
  | KI, XFin q => VInt (Qnum q)
  | KI, _ => VFloat f
  end.

Definition np_item (v : val) : res val :=
  match v with
  | VArr k _ [f] | VNpArr k _ [f] => Ok (elem_val k f)
  | VArr _ _ _ | VNpArr _ _ _ => Err ValueError     (* can only convert an array of size 1 *)
  | VNpScalar k f => Ok (elem_val k f)
  | VJInt z => Ok (VInt z)
  | _ => Err AttributeError
  end.

Definition np_tolist (v : val) : res val :=
  match v with
  | VArr k [] [f] | VNpArr k [] [f] => Ok (elem_val k f)
  | VArr k [_] d | VNpArr k [_] d => Ok (VList (map (elem_val k) d))
  | VArr _ _ _ | VNpArr _ _ _ => Err OtherError     (* nested lists: not modelled *)
  | VJInt z => Ok (VInt z)
  | _ => Err AttributeError
  end.

(* list.index(v): first position whose element compares equal (==, truth value) *)
Fixpoint find_index (l : list val) (v : val) (i : Z) : res val :=
  match l with
  | [] => Err ValueError
  | a :: r => bind (bind (py_eq a v) truthy) (fun b => if b then Ok (VInt i) else find_index r v (i + 1))
  end.
Definition list_index (c v : val) : res val :=
  match c with
  | VList l | VTuple l => find_index l v 0
  | _ => Err AttributeError
  end.

(* what iterating over a value yields *)
Definition iter_items (it : val) : res (list val) :=
  match it with
  | VList l | VTuple l | VSet l => Ok l
  | VDict l => Ok (map fst l)
  | VArr k (_ :: []) d => Ok (map (fun x => VArr k [] [x]) d)       (* JAX: 0-d arrays *)
  | VNpArr k (_ :: []) d => Ok (map (fun x => VNpScalar k x) d)     (* NumPy: scalars *)
  | VArr _ [] _ | VNpArr _ [] _ | VJInt _ => Err TypeError          (* iteration over a 0-d array *)
  | VArr _ _ _ | VNpArr _ _ _ => Err OtherError                      (* rows: not modelled *)
  | _ => Err TypeError
  end.

(* [f x for x in it if c x] *)
Fixpoint listcomp_go (f : val -> res val) (c : val -> res bool) (l : list val) : res (list val) :=
  match l with
  | [] => Ok []
  | x :: r => bind (c x) (fun b =>
                if b then bind (f x) (fun y => bind (listcomp_go f c r) (fun t => Ok (y :: t)))
                else listcomp_go f c r)
  end.
Definition py_listcomp (f : val -> res val) (c : val -> res bool) (it : val) : res val :=
  bind (iter_items it) (fun l => rmap VList (listcomp_go f c l)).

(* x[:, j] for a 2-d array and a static integer j (negative allowed) *)
Definition col_list (d : list xf) (r c jj : Z) : list xf :=
  map (fun i => nthZ d (i * c + jj) XNaN) (range_from 0 1 (Z.to_nat r)).
Definition np_col (a j : val) : res val :=
  match a, as_num j with
  | VArr k [r; c] d, Some (NZ z) =>
      let jj := if Z.ltb z 0 then z + c else z in
      if (Z.leb 0 jj && Z.ltb jj c)%bool then Ok (VArr k [r] (col_list d r c jj))
      else Err IndexError
  | VArr _ _ _, Some (NZ _) => Err IndexError       (* too many indices *)
  | _, _ => Err TypeError
  end.

(* jnp.unique on a 1-d array: ascending, duplicates removed, NaN last (once) *)
Fixpoint insert_dedup (x : xf) (l : list xf) : list xf :=
  match l with
  | [] => [x]
  | h :: t => if xf_ltb x h then x :: l
              else if xf_eqb x h then l
              else h :: insert_dedup x t
  end.
Definition sort_dedup (l : list xf) : list xf :=
  fold_right insert_dedup [] (filter (fun x => negb (xf_isnan x)) l)
  ++ (if existsb xf_isnan l then [XNaN] else []).
Definition np_unique (v : val) : res val :=
  match v with
  | VArr k [_] d | VNpArr k [_] d => let u := sort_dedup d in Ok (VArr k [Z.of_nat (List.length u)] u)
  | _ => Err OtherError
  end.

(* jnp.empty(n): JAX returns zeros *)
Definition np_empty (n : val) : res val :=
  match as_num n with
  | Some (NZ z) => if Z.ltb z 0 then Err ValueError else Ok (VArr KF [z] (repeat (XFin 0) (Z.to_nat z)))
  | _ => Err TypeError
  end.

(* jnp.ndim *)
Definition np_ndim_f (v : val) : res val :=
  match v with
  | VArr _ sh _ | VNpArr _ sh _ => Ok (VInt (Z.of_nat (List.length sh)))
  | VList l | VTuple l =>
      if forallb (fun x => match as_num x with Some _ => true | None => false end) l
      then Ok (VInt 1) else Err OtherError
  | VNone => Ok (VInt 0)                 (* numpy/jax: ndim(None) = 0 (object scalar) *)
  | _ => match as_num v with Some _ => Ok (VInt 0) | None => Err OtherError end
  end.

Definition dict_values (v : val) : res val :=
  match v with VDict l => Ok (VList (map snd l)) | _ => Err AttributeError end.

(* builtin sum over a sequence of scalars, starting from int 0 *)
Definition py_sum (v : val) : res val :=
  match v with
  | VList l | VTuple l => fold_left (fun acc x => bind acc (fun a => py_add a x)) l (Ok (VInt 0))
  | _ => Err TypeError
  end.

(* jnp.asarray without dtype: arrays unchanged (NumPy arrays become JAX arrays), flat number lists *)
Definition all_int (l : list val) : bool :=
  forallb (fun x => match x with VInt _ | VBool _ | VJInt _ | VNpScalar KI _ => true | _ => false end) l.
Definition np_asarray (v : val) : res val :=
  match v with
  | VArr _ _ _ => Ok v
  | VNpArr k sh d => Ok (VArr k sh d)
  | VJInt _ => Ok v
  | VList l | VTuple l =>
      match all_some (map num_of_elem l) with
      | Some d => Ok (VArr (if all_int l then KI else KF) [Z.of_nat (List.length l)] d)
      | None => Err OtherError
      end
  | VStr _ | VNumStr _ _ | VNone | VDict _ | VSet _ | VSlice _ _ _ | VObj _ _ | VEnum _ => Err TypeError
  | _ => match as_num v with
         | Some (NZ z) => Ok (VArr KI [] [xf_of_Z z])
         | Some (NF f) => Ok (VArr KF [] [f])
         | None => Err TypeError
         end
  end.

(* a[i] as PyVal.py_getitem, extended with NumPy 1-d arrays (element = NumPy scalar) and
   the exception classes of ill-typed containers *)
Definition py_getitem_x (a i : val) : res val :=
  match a with
  | VNpArr k [n] d =>
      match as_num i with
      | Some (NZ z) =>
          let j := if Z.ltb z 0 then z + n else z in
          if (Z.leb 0 j && Z.ltb j n)%bool then Ok (VNpScalar k (nthZ d j XNaN)) else Err IndexError
      | _ => Err IndexError
      end
  | VStr s =>
      match as_num i with
      | Some (NZ z) =>
          let n := Z.of_nat (String.length s) in
          let j := if Z.ltb z 0 then z + n else z in
          if (Z.leb 0 j && Z.ltb j n)%bool then
            match String.get (Z.to_nat j) s with Some ch => Ok (VStr (String ch EmptyString)) | None => Err IndexError end
          else Err IndexError
      | _ => Err TypeError
      end
  | _ => py_getitem a i
  end.

(* isinstance with numpy.ndarray among the classes (PyVal.TNdarray is jax.numpy.ndarray) *)
Inductive pytype_x := TB (t : pytype) | TNumpyNdarray.
Definition py_isinstance1_x (v : val) (t : pytype_x) : bool :=
  match t with
  | TB t => py_isinstance1 v t
  | TNumpyNdarray => match v with VNpArr _ _ _ => true | _ => false end
  end.
Definition py_isinstance_x (v : val) (ts : list pytype_x) : res val :=
  Ok (VBool (existsb (py_isinstance1_x v) ts)).

(* ------------------------------------------------------------------ *)
(* comparison with a relative tolerance on floats (everything else exact): used by the
   correspondence run for values that went through float rounding in the implementation.
   |a - b| * den <= num * |b| *)
Definition Qabs' (q : Q) : Q := if Qle_bool 0 q then q else Qopp q.
Definition xf_close (num den : Z) (a b : xf) : bool :=
  match a, b with
  | XFin p, XFin q => Qle_bool (Qabs' (p - q) * inject_Z den) (inject_Z num * Qabs' q)
  | _, _ => xf_same a b
  end.
Definition val_close (num den : Z) (a b : val) : bool :=
  match a, b with
  | VArr k s d, VArr k' s' d' => akind_eqb k k' && list_Z_eqb s s' && list_eqb (xf_close num den) d d'
  | VFloat x, VFloat y => xf_close num den x y
  | _, _ => val_eqb a b
  end.
Definition res_close (num den : Z) (a b : res val) : res val :=
  Ok (VBool match a, b with
            | Ok x, Ok y => val_close num den x y
            | Err e, Err f => exn_eqb e f
            | _, _ => false
            end).
