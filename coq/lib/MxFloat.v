(* Executable instance of MatOps: phantom-dimensioned list (list float) over
   Coq's primitive binary64 floats, textbook algorithms (row Cholesky,
   forward/back substitution).  Used only for running generated models under
   vm_compute on the implementation's inputs; no theorem depends on it. *)
From Coq Require Import List ZArith Uint63 PrimFloat.
From MellonV Require Import MatOps.
Import ListNotations.
Open Scope float_scope.

Definition FM (m n : nat) : Type := list (list float).

Definition f0 : float := 0.
Definition f1 : float := 1.

Fixpoint dotf (a b : list float) : float :=
  match a, b with
  | x :: a', y :: b' => x * y + dotf a' b'
  | _, _ => f0
  end.

Definition vadd (a b : list float) := map (fun p => fst p + snd p) (combine a b).
Definition vsub (a b : list float) := map (fun p => fst p - snd p) (combine a b).
Definition vscale (s : float) (a : list float) := map (fun x => s * x) a.
Definition sumf (a : list float) := fold_left (fun acc x => acc + x) a f0.

(* n = number of columns of A (rows of the result) *)
Fixpoint transpose (n : nat) (A : list (list float)) : list (list float) :=
  match n with
  | O => []
  | S n' => map (fun r => hd f0 r) A :: transpose n' (map (fun r => tl r) A)
  end.

Definition fmul (m n p : nat) (A B : list (list float)) : list (list float) :=
  let Bt := transpose p B in map (fun r => map (fun c => dotf r c) Bt) A.

Fixpoint unit_row (n i : nat) (d : float) : list float :=
  match n with
  | O => []
  | S n' => match i with O => d :: repeat f0 n' | S i' => f0 :: unit_row n' i' d end
  end.

Definition feye (n : nat) : list (list float) := map (fun i => unit_row n i f1) (seq 0 n).
Definition fconst (m n : nat) (s : float) : list (list float) := repeat (repeat s n) m.
Definition fdiagv (n : nat) (v : list (list float)) : list (list float) :=
  map (fun p => unit_row n (fst p) (hd f0 (snd p))) (combine (seq 0 n) v).
Definition fdiagof (n : nat) (A : list (list float)) : list (list float) :=
  map (fun p => [nth (fst p) (snd p) f0]) (combine (seq 0 n) A).

Definition pad (n : nat) (r : list float) : list float := r ++ repeat f0 (n - length r).

(* row i of the factor from the previous rows (row j has length j+1) *)
Fixpoint chol_row (prev : list (list float)) (arow cur : list float) : list float :=
  match prev, arow with
  | Lj :: prev', a :: arow' =>
      chol_row prev' arow' (cur ++ [(a - dotf cur Lj) / last Lj f0])
  | [], a :: _ => cur ++ [sqrt (a - dotf cur cur)]
  | _, [] => cur
  end.

Fixpoint chol_rows (A done : list (list float)) : list (list float) :=
  match A with
  | [] => done
  | arow :: A' => chol_rows A' (done ++ [chol_row done arow []])
  end.

Definition fchol (n : nat) (A : list (list float)) : list (list float) :=
  map (pad n) (chol_rows A []).

(* forward substitution; reads the lower triangle of T only *)
Fixpoint fwd (i : nat) (T B X : list (list float)) : list (list float) :=
  match T, B with
  | t :: T', b :: B' =>
      let acc := fold_left (fun a p => vsub a (vscale (fst p) (snd p))) (combine t X) b in
      let d := nth i t f0 in
      fwd (S i) T' B' (X ++ [map (fun x => x / d) acc])
  | _, _ => X
  end.

Definition fsolve_lower (n p : nat) (T B : list (list float)) := fwd 0 T B [].
(* back substitution = forward substitution on the matrix with rows and columns reversed *)
Definition fsolve_upper (n p : nat) (T B : list (list float)) :=
  rev (fwd 0 (rev (map (@rev float) T)) (rev B) []).

Definition fmap2 (f : float -> float -> float) (A B : list (list float)) :=
  map (fun p => map (fun q => f (fst q) (snd q)) (combine (fst p) (snd p))) (combine A B).
Definition fbcol (f : float -> float -> float) (A v : list (list float)) :=
  let vr := map (fun r => hd f0 r) v in
  map (fun r => map (fun q => f (fst q) (snd q)) (combine r vr)) A.

Section WithOracles.
(* recorded outputs of the eigen / qr oracles (the executable instance does not
   reimplement LAPACK's eigh/qr; their contracts are validated on the recorded calls) *)
Variable eig_s_rec eig_v_rec : nat -> nat -> list (list float) -> list (list float).
Variable qr_q_rec qr_r_rec : nat -> nat -> nat -> list (list float) -> list (list float).

Definition FloatOpsWith : MatOps float FM := {|
  s0 := f0; s1 := f1;
  sadd := PrimFloat.add; ssub := PrimFloat.sub; smul := PrimFloat.mul; sdiv := PrimFloat.div;
  ssqrt := PrimFloat.sqrt; sltb := PrimFloat.ltb;
  mmul := fmul;
  mtr := fun m n A => transpose n A;
  madd := fun m n A B => fmap2 PrimFloat.add A B;
  msub := fun m n A B => fmap2 PrimFloat.sub A B;
  mscale := fun m n s A => map (vscale s) A;
  meye := feye;
  mconst := fconst;
  mdiagv := fdiagv;
  mdiagof := fdiagof;
  mmap := fun m n f A => map (map f) A;
  mmap2 := fun m n f A B => fmap2 f A B;
  mbcol := fun m n f A v => fbcol f A v;
  msum0 := fun m n A => map (fun c => [sumf c]) (transpose n A);
  msum1 := fun m n A => map (fun r => [sumf r]) A;
  chol := fchol;
  solve_lower := fsolve_lower;
  solve_upper := fsolve_upper;
  eig_vals := fun n p A => eig_s_rec n p A;
  eig_vecs := fun n p A => eig_v_rec n p A;
  qr_q := fun n m k C => qr_q_rec n m k C;
  qr_r := fun n m k C => qr_r_rec n m k C
|}.
End WithOracles.

Definition FloatOps : MatOps float FM := FloatOpsWith (fun _ _ _ => []) (fun _ _ _ => []) (fun _ _ _ _ => []) (fun _ _ _ _ => []).

(* smoke test on exactly representable data *)
Definition A22 : FM 2 2 := [[4; 2]; [2; 5]].
Definition b21 : FM 2 1 := [[6]; [7]].
Example chol_smoke : fchol 2 A22 = [[2; 0]; [1; 2]].
Proof. vm_compute. reflexivity. Qed.
Example solve_smoke :
  let L := fchol 2 A22 in
  fsolve_upper 2 1 (transpose 2 L) (fsolve_lower 2 1 L b21) = [[1]; [1]].
Proof. vm_compute. reflexivity. Qed.
