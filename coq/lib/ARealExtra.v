(* Repo-independent real-analysis helpers for world A *)
From Coq Require Import Reals Lra.
From Coquelicot Require Import Coquelicot.
Open Scope R_scope.

(* make all [exp _] occurrences of the goal syntactically equal, then abstract them *)
Ltac same_exp H :=
  repeat match goal with
  | |- context [exp ?a] =>
    match goal with
    | |- context [exp ?b] => tryif constr_eq a b then fail else (replace b with a by (field; exact H))
    end
  end;
  match goal with |- context [exp ?a] => generalize (exp a); intro end.

(* abstract the numeric constant sqrt(_) of a Matern profile *)
Ltac abstract_sqrt :=
  repeat match goal with |- context [sqrt ?a] => let s := fresh "s" in generalize (sqrt a); intro s end.

Lemma Rpower_pred b a : 0 < b -> Rpower b (a - 1) = Rpower b a * / b.
Proof.
  intros Hb. unfold Rminus. rewrite Rpower_plus, Rpower_Ropp, Rpower_1 by exact Hb. reflexivity.
Qed.

Lemma RatQuad_base_pos alpha ls d : 0 < alpha -> 0 < (d / ls) ^ 2 / (2 * alpha) + 1.
Proof.
  intros Ha. assert (0 <= (d / ls) ^ 2) by (apply pow2_ge_0).
  assert (0 <= (d / ls) ^ 2 / (2 * alpha)).
  { apply Rmult_le_pos; [assumption|]. apply Rlt_le, Rinv_0_lt_compat. lra. }
  lra.
Qed.

(* ---------------------------------------------------------------- monotonicity from the sign of the derivative *)
Lemma decr_from_derive (f df : R -> R) a b : a <= b ->
  (forall x, a <= x <= b -> is_derive f x (df x)) ->
  (forall x, a <= x <= b -> df x <= 0) -> f b <= f a.
Proof.
  intros Hab Hd Hs.
  destruct (MVT_gen f a b df) as [c [Hc Heq]].
  - intros x Hx. apply Hd. rewrite Rmin_left, Rmax_right in Hx by lra. lra.
  - intros x Hx. rewrite Rmin_left, Rmax_right in Hx by lra.
    apply continuity_pt_filterlim. apply (ex_derive_continuous f x). exists (df x). apply Hd. exact Hx.
  - rewrite Rmin_left, Rmax_right in Hc by lra.
    assert (df c * (b - a) <= 0). { specialize (Hs c Hc). nra. }
    lra.
Qed.

