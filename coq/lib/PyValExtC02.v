(* PyValExtC02: primitives over the value universe of PyVal.v needed by the generated code of C02
   (predictor dispatch with recorded constructor arguments, n_obs wiring).  Definitions only.
   * objects built by a recorded constructor call:  new_obj "Class" [(parameter, value); ...]
     (a VDict whose first entry is the class name), attribute store obj_setattr, attribute read obj_field;
   * == / != on tuples (shape comparisons), a[i, :] on 2-d arrays, x[:, j], jnp.unique, dict.values(),
     builtin sum, jnp.asarray on lists. *)
From Coq Require Import ZArith QArith List Bool String.
From MellonV Require Import PyVal.
Import ListNotations.
Open Scope Z_scope.

(* ---- recorded constructor calls ---- *)
Definition new_obj (cls : string) (fields : list (string * val)) : val :=
  VDict ((VStr "__class__", VStr cls) :: map (fun p => (VStr (fst p), snd p)) fields).

Fixpoint set_assoc (k : string) (v : val) (l : list (val * val)) : list (val * val) :=
  match l with
  | [] => [(VStr k, v)]
  | (k', v') :: r => if scalar_eqb (VStr k) k' then (VStr k, v) :: r else (k', v') :: set_assoc k v r
  end.
Definition obj_setattr (o : val) (name : string) (v : val) : res val :=
  match o with
  | VDict ((VStr "__class__", c) :: l) => Ok (VDict ((VStr "__class__", c) :: set_assoc name v l))
  | VNone => Err AttributeError
  | _ => Err AttributeError
  end.
Definition obj_class (o : val) : option string :=
  match o with VDict ((VStr "__class__", VStr c) :: _) => Some c | _ => None end.
Definition obj_field (o : val) (name : string) : option val :=
  match o with VDict (_ :: l) => assoc_lookup (VStr name) l | _ => None end.

(* ---- == and != with tuple operands (x.shape != (n, n)) ---- *)
Definition tuple_eqb (l m : list val) : bool := list_eqb scalar_eqb l m.
Definition py_eq_x (a b : val) : res val :=
  match a, b with
  | VTuple l, VTuple m => Ok (VBool (tuple_eqb l m))
  | _, _ => py_eq a b
  end.
Definition py_ne_x (a b : val) : res val :=
  match a, b with
  | VTuple l, VTuple m => Ok (VBool (negb (tuple_eqb l m)))
  | _, _ => py_ne a b
  end.

(* ---- a[i, :] for a 2-d array and a static integer i ---- *)
Definition np_row (a i : val) : res val :=
  match a, as_num i with
  | VArr k [r; c] d, Some (NZ z) =>
      let ii := if Z.ltb z 0 then z + r else z in
      if (Z.leb 0 ii && Z.ltb ii r)%bool then
        Ok (VArr k [c] (map (fun j => nthZ d (ii * c + j) XNaN) (range_from 0 1 (Z.to_nat c))))
      else Err IndexError
  | VNone, _ => Err TypeError
  | _, _ => Err IndexError
  end.

(* x[:, j] for a 2-d array and a static integer j (negative allowed) *)
Definition np_col (a j : val) : res val :=
  match a, as_num j with
  | VArr k [r; c] d, Some (NZ z) =>
      let jj := if Z.ltb z 0 then z + c else z in
      if (Z.leb 0 jj && Z.ltb jj c)%bool then
        Ok (VArr k [r] (map (fun i => nthZ d (i * c + jj) XNaN) (range_from 0 1 (Z.to_nat r))))
      else Err IndexError
  | VArr _ _ _, Some (NZ _) => Err IndexError
  | _, _ => Err TypeError
  end.

(* jnp.unique on a 1-d array: ascending, duplicates removed, NaN last (once) *)
Fixpoint insert_dedup (x : xf) (l : list xf) : list xf :=
  match l with
  | [] => [x]
  | h :: t => if xf_ltb x h then x :: l
              else if xf_eqb x h then l
              else h :: insert_dedup x t
  end.
Definition sort_dedup (l : list xf) : list xf :=
  fold_right insert_dedup [] (filter (fun x => negb (xf_isnan x)) l)
  ++ (if existsb xf_isnan l then [XNaN] else []).
Definition np_unique (v : val) : res val :=
  match v with
  | VArr k [_] d | VNpArr k [_] d => let u := sort_dedup d in Ok (VArr k [Z.of_nat (List.length u)] u)
  | _ => Err OtherError
  end.

Definition dict_values (v : val) : res val :=
  match v with VDict l => Ok (VList (map snd l)) | _ => Err AttributeError end.

(* builtin sum over a sequence of scalars, starting from int 0 *)
Definition py_sum (v : val) : res val :=
  match v with
  | VList l | VTuple l => fold_left (fun acc x => bind acc (fun a => py_add a x)) l (Ok (VInt 0))
  | _ => Err TypeError
  end.

(* jnp.asarray without dtype on arrays and flat number lists *)
Definition all_int (l : list val) : bool :=
  forallb (fun x => match x with VInt _ | VBool _ | VJInt _ | VNpScalar KI _ => true | _ => false end) l.
Definition np_asarray (v : val) : res val :=
  match v with
  | VArr _ _ _ => Ok v
  | VNpArr k sh d => Ok (VArr k sh d)
  | VList l | VTuple l =>
      match all_some (map num_of_elem l) with
      | Some d => Ok (VArr (if all_int l then KI else KF) [Z.of_nat (List.length l)] d)
      | None => Err OtherError
      end
  | _ => Err TypeError
  end.

(* the Python scalar an array element converts to (.item()) *)
Definition elem_val (k : akind) (f : xf) : val :=
  match k, f with
  | KF, _ => VFloat f
  | KB, _ => VBool (xf_truth f)
  | KI, XFin q => VInt (Qnum q)
  | KI, _ => VFloat f
  end.
Definition np_item (v : val) : res val :=
  match v with
  | VArr k _ [f] | VNpArr k _ [f] => Ok (elem_val k f)
  | VArr _ _ _ | VNpArr _ _ _ => Err ValueError
  | VNpScalar k f => Ok (elem_val k f)
  | VJInt z => Ok (VInt z)
  | _ => Err AttributeError
  end.

(* what iterating over a value yields *)
Definition iter_items (it : val) : res (list val) :=
  match it with
  | VList l | VTuple l | VSet l => Ok l
  | VDict l => Ok (map fst l)
  | VArr k (_ :: []) d => Ok (map (fun x => VArr k [] [x]) d)
  | VNpArr k (_ :: []) d => Ok (map (fun x => VNpScalar k x) d)
  | VArr _ [] _ | VNpArr _ [] _ | VJInt _ => Err TypeError
  | VArr _ _ _ | VNpArr _ _ _ => Err OtherError
  | _ => Err TypeError
  end.
(* [f x for x in it if c x] *)
Fixpoint listcomp_go (f : val -> res val) (c : val -> res bool) (l : list val) : res (list val) :=
  match l with
  | [] => Ok []
  | x :: r => bind (c x) (fun b =>
                if b then bind (f x) (fun y => bind (listcomp_go f c r) (fun t => Ok (y :: t)))
                else listcomp_go f c r)
  end.
Definition py_listcomp (f : val -> res val) (c : val -> res bool) (it : val) : res val :=
  bind (iter_items it) (fun l => rmap VList (listcomp_go f c l)).

(* isinstance with numpy.ndarray among the classes (PyVal.TNdarray is jax.numpy.ndarray) *)
Inductive pytype_x := TB (t : pytype) | TNumpyNdarray.
Definition py_isinstance1_x (v : val) (t : pytype_x) : bool :=
  match t with
  | TB t => py_isinstance1 v t
  | TNumpyNdarray => match v with VNpArr _ _ _ => true | _ => false end
  end.
Definition py_isinstance_x (v : val) (ts : list pytype_x) : res val :=
  Ok (VBool (existsb (py_isinstance1_x v) ts)).
