(* MatOps: the operations the matrix subset of Mellon is translated to.
   One generic Gallina text (coq/gen/*.v, written by translate/pymatrix.py) is
   (1) reasoned about with the MathComp instance of lib/MxInst.v and
   (2) executed with the PrimFloat list instance of lib/MxFloat.v.
   1-D NumPy arrays are column vectors [M n 1]. *)

Class MatOps (S : Type) (M : nat -> nat -> Type) : Type := {
  (* scalars *)
  s0 : S;
  s1 : S;
  sadd : S -> S -> S;
  ssub : S -> S -> S;
  smul : S -> S -> S;
  sdiv : S -> S -> S;
  ssqrt : S -> S;
  sltb : S -> S -> bool;
  (* matrices *)
  mmul : forall {m n p : nat}, M m n -> M n p -> M m p;
  mtr : forall {m n : nat}, M m n -> M n m;
  madd : forall {m n : nat}, M m n -> M m n -> M m n;
  msub : forall {m n : nat}, M m n -> M m n -> M m n;
  mscale : forall {m n : nat}, S -> M m n -> M m n;
  meye : forall n : nat, M n n;
  mconst : forall (m n : nat), S -> M m n;
  mdiagv : forall {n : nat}, M n 1 -> M n n;       (* jnp.diag of a vector *)
  mdiagof : forall {n : nat}, M n n -> M n 1;      (* jnp.diag of a matrix *)
  mmap : forall {m n : nat}, (S -> S) -> M m n -> M m n;
  mmap2 : forall {m n : nat}, (S -> S -> S) -> M m n -> M m n -> M m n;
  mbcol : forall {m n : nat}, (S -> S -> S) -> M m n -> M n 1 -> M m n;  (* A op v[None, :] *)
  msum0 : forall {m n : nat}, M m n -> M n 1;      (* sum(axis=0) *)
  msum1 : forall {m n : nat}, M m n -> M m 1;      (* sum(axis=1) *)
  (* library oracles *)
  chol : forall {n : nat}, M n n -> M n n;
  solve_lower : forall {n p : nat}, M n n -> M n p -> M n p;   (* solve_triangular(T, B, lower=True) *)
  solve_upper : forall {n p : nat}, M n n -> M n p -> M n p;   (* solve_triangular(T, B) *)
  (* _eigendecomposition keeping p pairs (eigenvalues ascending, as columns) *)
  eig_vals : forall {n : nat} (p : nat), M n n -> M p 1;
  eig_vecs : forall {n : nat} (p : nat), M n n -> M n p;
  (* qr(C, mode="reduced"), k = min n m *)
  qr_q : forall {n m : nat} (k : nat), M n m -> M n k;
  qr_r : forall {n m : nat} (k : nat), M n m -> M k m
}.

(* [where(c, a, b)] on scalars *)
Definition sif {S : Type} (c : bool) (a b : S) : S := if c then a else b.
