(* Positive (semi-)definite matrices over a real closed field: the algebra the
   world-B theorems need (sums, Gram forms, congruence, invertibility, Schur
   complement, Loewner order). *)
From mathcomp Require Import all_ssreflect all_algebra.
From MellonV Require Import MatOps MxInst.
Set Implicit Arguments.
Unset Strict Implicit.
Unset Printing Implicit Defensive.
Import Order.TTheory GRing.Theory Num.Theory.
Local Open Scope ring_scope.

Section Psd.
Variable F : rcfType.
Implicit Types (n m : nat).

Definition qf n (A : 'M[F]_n) (v : 'cV[F]_n) : F := (v^T *m A *m v) 0 0.

Lemma qfE n (A : 'M[F]_n) v : (v^T *m A *m v) 0 0 = qf A v. Proof. by []. Qed.

Lemma qfD n (A B : 'M[F]_n) v : qf (A + B) v = qf A v + qf B v.
Proof. by rewrite /qf mulmxDr mulmxDl mxE. Qed.

Lemma qfN n (A : 'M[F]_n) v : qf (- A) v = - qf A v.
Proof. by rewrite /qf mulmxN mulNmx mxE. Qed.

Lemma qfB n (A B : 'M[F]_n) v : qf (A - B) v = qf A v - qf B v.
Proof. by rewrite qfD qfN. Qed.

Lemma qfZ n a (A : 'M[F]_n) v : qf (a *: A) v = a * qf A v.
Proof. by rewrite /qf -scalemxAr -scalemxAl mxE. Qed.

Lemma dotE n (u : 'cV[F]_n) : (u^T *m u) 0 0 = \sum_i u i 0 ^+ 2.
Proof. by rewrite mxE; apply: eq_bigr => i _; rewrite mxE expr2. Qed.

Lemma dot_ge0 n (u : 'cV[F]_n) : 0 <= (u^T *m u) 0 0.
Proof. by rewrite dotE; apply: sumr_ge0 => i _; rewrite sqr_ge0. Qed.

Lemma dot_eq0 n (u : 'cV[F]_n) : (u^T *m u) 0 0 = 0 -> u = 0.
Proof.
rewrite dotE => /eqP; rewrite psumr_eq0; last by move=> i _; rewrite sqr_ge0.
move/allP => h; apply/matrixP => i j; rewrite ord1 mxE.
by have := h i (mem_index_enum _); rewrite /= sqrf_eq0 => /eqP.
Qed.

Lemma dot_gt0 n (u : 'cV[F]_n) : u != 0 -> 0 < (u^T *m u) 0 0.
Proof.
move=> u0; rewrite lt_neqAle dot_ge0 andbT eq_sym; apply: contra u0 => /eqP h.
by rewrite (dot_eq0 h).
Qed.

Lemma qf_gram n m (B : 'M[F]_(n, m)) v : qf (B *m B^T) v = ((B^T *m v)^T *m (B^T *m v)) 0 0.
Proof. by rewrite /qf trmx_mul trmxK !mulmxA. Qed.

Lemma qf_congr n m (A : 'M[F]_n) (B : 'M[F]_(n, m)) v : qf (B^T *m A *m B) v = qf A (B *m v).
Proof. by rewrite /qf trmx_mul !mulmxA. Qed.

Lemma qf_scalar n a (v : 'cV[F]_n) : qf a%:M v = a * (v^T *m v) 0 0.
Proof. by rewrite /qf mul_mx_scalar -scalemxAl mxE. Qed.

Lemma qf0 n (A : 'M[F]_n) : qf A 0 = 0.
Proof. by rewrite /qf mulmx0 mxE. Qed.

(* ---- psd / pd closure ----------------------------------------------- *)
Lemma pd_psd n (A : 'M[F]_n) : pd A -> psd A.
Proof.
move=> pA v; case: (eqVneq v 0) => [->|v0]; first by rewrite qfE qf0.
by apply: ltW; apply: pA.
Qed.

Lemma psdD n (A B : 'M[F]_n) : psd A -> psd B -> psd (A + B).
Proof. by move=> pA pB v; rewrite qfE qfD addr_ge0 // -qfE. Qed.

Lemma pdDl n (A B : 'M[F]_n) : pd A -> psd B -> pd (A + B).
Proof. by move=> pA pB v v0; rewrite qfE qfD ltr_paddr // -qfE ?pA ?pB. Qed.

Lemma pdDr n (A B : 'M[F]_n) : psd A -> pd B -> pd (A + B).
Proof. by move=> pA pB; rewrite addrC; apply: pdDl. Qed.

Lemma psd_gram n m (B : 'M[F]_(n, m)) : psd (B *m B^T).
Proof. by move=> v; rewrite qfE qf_gram dot_ge0. Qed.

Lemma psd_gramT n m (B : 'M[F]_(m, n)) : psd (B^T *m B).
Proof. by have := psd_gram B^T; rewrite trmxK. Qed.

Lemma psd_congr n m (A : 'M[F]_n) (B : 'M[F]_(n, m)) : psd A -> psd (B^T *m A *m B).
Proof. by move=> pA v; rewrite qfE qf_congr -qfE. Qed.

Lemma psd_scalar n a : 0 <= a -> psd (a%:M : 'M[F]_n).
Proof. by move=> a0 v; rewrite qfE qf_scalar mulr_ge0 // dot_ge0. Qed.

Lemma pd_scalar n a : 0 < a -> pd (a%:M : 'M[F]_n).
Proof. by move=> a0 v v0; rewrite qfE qf_scalar mulr_gt0 // dot_gt0. Qed.

Lemma psdZ n a (A : 'M[F]_n) : 0 <= a -> psd A -> psd (a *: A).
Proof. by move=> a0 pA v; rewrite qfE qfZ mulr_ge0 // -qfE. Qed.

Lemma pdZ n a (A : 'M[F]_n) : 0 < a -> pd A -> pd (a *: A).
Proof. by move=> a0 pA v v0; rewrite qfE qfZ mulr_gt0 // -qfE pA. Qed.

Lemma psd0 n : psd (0 : 'M[F]_n).
Proof. by move=> v; rewrite mulmx0 mul0mx mxE. Qed.

Lemma qf_diagv n (d v : 'cV[F]_n) : qf (diagv d) v = \sum_i d i 0 * v i 0 ^+ 2.
Proof.
rewrite /qf mxE; apply: eq_bigr => i _; rewrite mxE (bigD1 i) //= big1 ?addr0.
  by rewrite !mxE eqxx expr2 mulrA (mulrC (v i 0)).
by move=> k ki; rewrite !mxE (negbTE ki) mulr0.
Qed.

Lemma psd_diagv n (d : 'cV[F]_n) : (forall i, 0 <= d i 0) -> psd (diagv d).
Proof.
by move=> d0 v; rewrite qfE qf_diagv; apply: sumr_ge0 => i _; rewrite mulr_ge0 // sqr_ge0.
Qed.

Lemma pd_diagv n (d : 'cV[F]_n) : (forall i, 0 < d i 0) -> pd (diagv d).
Proof.
move=> d0 v v0; rewrite qfE qf_diagv lt_neqAle; apply/andP; split; last first.
  by apply: sumr_ge0 => i _; rewrite mulr_ge0 ?sqr_ge0 // ltW.
rewrite eq_sym; apply: contra v0; rewrite psumr_eq0; last first.
  by move=> i _; rewrite mulr_ge0 ?sqr_ge0 // ltW.
move/allP => h; apply/eqP/matrixP => i j; rewrite ord1 mxE.
have := h i (mem_index_enum _); rewrite /= mulf_eq0 sqrf_eq0 (gt_eqF (d0 i)) /=.
by move/eqP.
Qed.

(* ---- symmetry --------------------------------------------------------- *)
Lemma symD n (A B : 'M[F]_n) : sym A -> sym B -> sym (A + B).
Proof. by rewrite /sym => sA sB; rewrite linearD /= sA sB. Qed.

Lemma symB n (A B : 'M[F]_n) : sym A -> sym B -> sym (A - B).
Proof. by rewrite /sym => sA sB; rewrite linearB /= sA sB. Qed.

Lemma sym_gram n m (B : 'M[F]_(n, m)) : sym (B *m B^T).
Proof. by rewrite /sym trmx_mul trmxK. Qed.

Lemma sym_gramT n m (B : 'M[F]_(m, n)) : sym (B^T *m B).
Proof. by rewrite /sym trmx_mul trmxK. Qed.

Lemma sym_scalar n a : sym (a%:M : 'M[F]_n).
Proof. by rewrite /sym tr_scalar_mx. Qed.

Lemma sym_diagv n (d : 'cV[F]_n) : sym (diagv d).
Proof.
apply/matrixP => i j; rewrite !mxE eq_sym; case: eqP => // ->; by [].
Qed.

Lemma symZ n a (A : 'M[F]_n) : sym A -> sym (a *: A).
Proof. by rewrite /sym => sA; rewrite linearZ /= sA. Qed.

Lemma sym_congr n m (A : 'M[F]_n) (B : 'M[F]_(n, m)) : sym A -> sym (B^T *m A *m B).
Proof. by rewrite /sym => sA; rewrite !trmx_mul trmxK sA mulmxA. Qed.

Lemma sym_inv n (A : 'M[F]_n) : sym A -> sym (invmx A).
Proof. by rewrite /sym => sA; rewrite trmx_inv sA. Qed.

(* ---- positive definite matrices are invertible ------------------------ *)
Lemma pd_unit n (A : 'M[F]_n) : pd A -> A \in unitmx.
Proof.
move=> pA; rewrite -unitmx_tr -row_free_unit -kermx_eq0; apply/negPn/negP.
case/rowV0Pn => u /sub_kermxP uA u0.
have v0 : u^T != 0 by apply: contra u0 => /eqP h; rewrite -(trmxK u) h trmx0.
have := pA _ v0; rewrite trmxK.
have e : A *m u^T = 0 by rewrite -[A]trmxK -trmx_mul uA trmx0.
by rewrite -mulmxA e mulmx0 mxE ltxx.
Qed.

Lemma spd_unit n (A : 'M[F]_n) : spd A -> A \in unitmx.
Proof. by case=> _; apply: pd_unit. Qed.

(* inverse of an spd matrix is spd *)
Lemma pd_inv n (A : 'M[F]_n) : spd A -> pd (invmx A).
Proof.
move=> sA; have uA := spd_unit sA; case: sA => sA pA v v0.
have -> : invmx A = (invmx A)^T *m A *m invmx A.
  by rewrite trmx_inv sA mulVmx // mul1mx.
rewrite qfE qf_congr -qfE; apply: pA; apply: contra v0 => /eqP h.
by rewrite -[v]mul1mx -(mulmxV uA) -mulmxA h mulmx0.
Qed.

Lemma spd_inv n (A : 'M[F]_n) : spd A -> spd (invmx A).
Proof. by move=> sA; split; [apply: sym_inv; case: sA|apply: pd_inv]. Qed.

(* ---- Loewner order ---------------------------------------------------- *)
Definition loe n (A B : 'M[F]_n) := psd (B - A).

Lemma loe_refl n (A : 'M[F]_n) : loe A A.
Proof. by rewrite /loe subrr; apply: psd0. Qed.

Lemma loe_qf n (A B : 'M[F]_n) : loe A B <-> forall v, qf A v <= qf B v.
Proof.
split=> [h v|h v]; first by have := h v; rewrite qfE qfB subr_ge0.
by rewrite qfE qfB subr_ge0.
Qed.

(* ---- Schur complement ------------------------------------------------- *)
(* If the joint Gram matrix [[A, B], [B^T, C]] is psd and A is spd, then
   C - B^T A^-1 B is psd. *)
Lemma schur_psd n m (A : 'M[F]_n) (B : 'M[F]_(n, m)) (C : 'M[F]_m) :
  spd A -> psd (block_mx A B B^T C) -> psd (C - B^T *m invmx A *m B).
Proof.
move=> sA pJ v; have uA := spd_unit sA; case: sA => sA _.
pose t := invmx A *m B *m v.
have tT : t^T = v^T *m B^T *m invmx A by rewrite /t !trmx_mul trmx_inv sA mulmxA.
have e0 : (- t)^T *m A + v^T *m B^T = 0.
  by rewrite linearN /= mulNmx tT -!mulmxA mulVmx // mulmx1 addNr.
have := pJ (col_mx (- t) v); rewrite tr_col_mx mul_row_block mul_row_col e0 mul0mx add0r.
suff -> : v^T *m (C - B^T *m invmx A *m B) *m v = ((- t)^T *m B + v^T *m C) *m v by [].
by rewrite linearN /= tT mulmxBr mulmxBl mulmxDl !mulNmx addrC !mulmxA.
Qed.

End Psd.
