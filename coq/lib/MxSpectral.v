(* Spectral theorem for symmetric matrices over a real closed field F:  A = P diag(d) P^T with P^T P = 1.
   Step 1 (real eigenpair) goes through determinants over the algebraic closure F[i] only (no complex
   vectors): a root l = a + ib of the characteristic polynomial makes (A - a)^2 + b^2 singular over F, and for
   symmetric A a kernel vector v gives |v (A - a)|^2 + b^2 |v|^2 = 0, hence v A = a v.
   Step 2: a Householder reflection moves the unit eigenvector to e_0; induction on the dimension. *)
From mathcomp Require Import all_ssreflect all_algebra.
From mathcomp Require Import complex ring.
From MellonV Require Import MatOps MxInst MxPsd MxChol.
Set Implicit Arguments.
Unset Strict Implicit.
Unset Printing Implicit Defensive.
Import Order.TTheory GRing.Theory Num.Theory.
Local Open Scope ring_scope.
Local Open Scope complex_scope.

Section Spectral.
Variable F : rcfType.
Local Notation C := (complex F).
Local Notation f := (real_complex F).

(* row-vector dot products *)
Lemma rdot_ge0 n (u : 'rV[F]_n) : 0 <= (u *m u^T) 0 0.
Proof. by have := dot_ge0 u^T; rewrite trmxK. Qed.

Lemma rdot_eq0 n (u : 'rV[F]_n) : (u *m u^T) 0 0 = 0 -> u = 0.
Proof. by have := @dot_eq0 _ _ u^T; rewrite trmxK => h /h e; rewrite -[u]trmxK e trmx0. Qed.

Lemma real_eigenpair n (A : 'M[F]_n.+1) :
  sym A -> exists a : F, exists2 v : 'rV[F]_n.+1, v != 0 & v *m A = a *: v.
Proof.
move=> sA.
have szp : size (map_poly f (char_poly A)) != 1%N by rewrite size_map_poly size_char_poly.
have [l rl] := closed_rootP _ szp.
move: rl; rewrite map_char_poly -eigenvalue_root_char => /eigenvalueP [w wA w0].
case: l wA => a b wA.
have [Aa eAa] : {Aa : 'M[F]_n.+1 | Aa = A - a%:M} by eexists.
pose M := Aa *m Aa + (b ^+ 2)%:M.
have detM : \det M = 0.
  apply: (fmorph_inj [rmorphism of f]); rewrite -det_map_mx rmorph0.
  pose Y : 'M[C]_n.+1 := map_mx f Aa.
  pose c : C := (0 +i* b)%C.
  have eY : Y = map_mx f A - (a%:C)%:M by rewrite /Y eAa map_mxB map_scalar_mx.
  have e1 : map_mx f A - (a +i* b)%C%:M = Y - c%:M.
    rewrite eY -addrA -opprD -raddfD /=; congr (_ - _%:M).
    by rewrite /c; simpc.
  have fact : map_mx f M = (Y - c%:M) *m (Y + c%:M).
    rewrite /M map_mxD map_mxM map_scalar_mx -/Y.
    rewrite mulmxBl !mulmxDr mul_mx_scalar !mul_scalar_mx opprD addrA addrK scale_scalar_mx -raddfN /=.
    congr (_ + _%:M).
    by rewrite /c; simpc; rewrite expr2.
  rewrite fact det_mulmx -e1.
  have -> : \det (map_mx f A - (a +i* b)%C%:M) = 0; last by rewrite mul0r.
  apply/eqP/det0P; exists w => //.
  by rewrite mulmxBr wA mul_mx_scalar subrr.
have /det0P [v v0 vM] : \det M == 0 by rewrite detM.
exists a, v => //.
pose u := v *m Aa.
have sAa : Aa^T = Aa by rewrite eAa linearB /= sA tr_scalar_mx.
have vM2 : u *m Aa + (b ^+ 2) *: v = 0.
  by rewrite -vM /M mulmxDr mulmxA mul_mx_scalar.
have uu : u *m Aa *m v^T = u *m u^T by rewrite {3}/u trmx_mul sAa !mulmxA.
have h : (u *m u^T) 0 0 + b ^+ 2 * (v *m v^T) 0 0 = 0.
  have := congr1 (fun X : 'rV[F]_n.+1 => (X *m v^T) 0 0) vM2.
  by rewrite mul0mx [RHS]mxE mulmxDl [LHS]mxE uu -scalemxAl => <-; rewrite [X in _ = _ + X]mxE.
have u0 : (u *m u^T) 0 0 = 0.
  apply/eqP; rewrite eq_le rdot_ge0 andbT -(ler_add2r (b ^+ 2 * (v *m v^T) 0 0)) h add0r.
  by rewrite mulr_ge0 ?sqr_ge0 ?rdot_ge0.
have := rdot_eq0 u0; rewrite /u eAa mulmxBr mul_mx_scalar => /eqP; rewrite subr_eq0 => /eqP.
by [].
Qed.

(* ---- Householder reflection taking e_0 to a unit vector x ---------------- *)
Lemma mx11E (M : 'M[F]_1) : M = (M 0 0)%:M. Proof. exact: mx11_scalar. Qed.
Lemma sub00 (M N : 'M[F]_1) : (M - N) 0 0 = M 0 0 - N 0 0. Proof. by rewrite !mxE. Qed.

Lemma householder n (x : 'cV[F]_n.+1) :
  (x^T *m x) 0 0 = 1 ->
  exists H : 'M[F]_n.+1, [/\ H^T = H, H *m H = 1%:M & H *m delta_mx 0 0 = x].
Proof.
move=> x1; pose e : 'cV[F]_n.+1 := delta_mx 0 0; pose u := x - e.
have ee : (e^T *m e) 0 0 = 1.
  by rewrite /e trmx_delta -rowE !mxE !eqxx.
case: (eqVneq u 0) => [u0|u0].
  exists 1%:M; split; rewrite ?trmx1 ?mulmx1 ?mul1mx //.
  by apply/eqP; rewrite eq_sym -subr_eq0 -/e -/u u0.
pose s := (u^T *m u) 0 0.
have s0 : s != 0 by rewrite gt_eqF // dot_gt0.
pose t := (x^T *m e) 0 0.
have tC : (e^T *m x) 0 0 = t.
  by rewrite /t -[e^T *m x]trmxK trmx_mul trmxK mxE.
have es : s = 2%:R * (1 - t).
  rewrite /s /u mulmxBr linearB /= !mulmxBl !sub00 x1 ee tC -/t.
  by ring.
have ue : u^T *m e = (t - 1)%:M.
  by rewrite [LHS]mx11E /u linearB /= mulmxBl sub00 -/t ee.
have uu : u^T *m u = s%:M by rewrite [LHS]mx11E.
pose H : 'M[F]_n.+1 := 1%:M - (2%:R / s) *: (u *m u^T).
have sH : H^T = H by rewrite /H linearB linearZ /= trmx1 trmx_mul trmxK.
exists H; split=> //.
- pose W := u *m u^T; pose c := 2%:R / s.
  have WW : W *m W = s *: W.
    by rewrite /W -mulmxA (mulmxA u^T) uu mul_scalar_mx -scalemxAr.
  have k : c * c * s = c + c by rewrite /c; field.
  rewrite /H -/W -/c mulmxBl !mulmxBr mul1mx mulmx1 -!scalemxAl -!scalemxAr mul1mx WW !scalerA.
  by rewrite k scalerDl opprB addrK subrK.
- rewrite /H mulmxBl mul1mx -scalemxAl -mulmxA ue mul_mx_scalar scalerA -/e.
  have -> : 2%:R / s * (t - 1) = -1.
    have t1 : 1 - t != 0 by apply: contra s0 => /eqP h; rewrite es h mulr0.
    by rewrite es; field.
  by rewrite scaleN1r opprK /u addrC subrK.
Qed.

Lemma diagv_col_mx n (a : F) (d : 'cV[F]_n) :
  diagv (col_mx (a%:M : 'M_1) d) = block_mx a%:M 0 0 (diagv d).
Proof.
apply/matrixP => i j.
case: (split_ordP i) => i' ->; case: (split_ordP j) => j' ->; rewrite [LHS]mxE.
- by rewrite block_mxEul col_mxEu eq_shift !mxE !ord1 eqxx.
- by rewrite block_mxEur eq_shift mxE.
- by rewrite block_mxEdl eq_shift mxE.
- by rewrite block_mxEdr col_mxEd eq_shift mxE.
Qed.

Theorem spectral n (A : 'M[F]_n) :
  sym A -> exists P : 'M[F]_n, exists d : 'cV[F]_n, P^T *m P = 1%:M /\ A = P *m diagv d *m P^T.
Proof.
elim: n A => [A _|n IH A sA].
  by exists 1%:M, 0; split; [rewrite trmx1 mulmx1|apply/matrixP => -[]].
change ('M[F]_(1 + n)) in A.
have [a [v v0 vA]] := real_eigenpair sA.
pose nv := Num.sqrt ((v *m v^T) 0 0).
have vv0 : 0 < (v *m v^T) 0 0.
  rewrite lt_neqAle rdot_ge0 andbT eq_sym; apply: contra v0 => /eqP h; apply/eqP; exact: rdot_eq0.
have nv0 : nv != 0 by rewrite gt_eqF // sqrtr_gt0.
pose x : 'cV[F]_(1 + n) := nv^-1 *: v^T.
have x1 : (x^T *m x) 0 0 = 1.
  rewrite /x -scalemxAr linearZ /= trmxK -scalemxAl scalerA mxE -invfM -expr2 sqr_sqrtr ?ltW //.
  by rewrite mulVf // gt_eqF.
have Ax : A *m x = a *: x.
  rewrite /x -scalemxAr scalerA [a * _]mulrC -scalerA; congr (_ *: _).
  by rewrite -[A]sA -trmx_mul vA linearZ.
have [H [sH HH He]] := householder x1.
pose e : 'cV[F]_(1 + n) := delta_mx 0 0.
have Hx : H *m x = e by rewrite -He mulmxA HH mul1mx.
have [B eB0] : {B : 'M[F]_(1 + n) | B = H *m A *m H} by eexists.
have sB : sym B by rewrite /sym eB0 !trmx_mul sH sA mulmxA.
have Be : B *m e = a *: e by rewrite eB0 -!mulmxA He Ax -scalemxAr Hx.
have [sUL sDR eUR] := sym_block sB.
have dl0 : dlsubmx B = 0.
  apply/matrixP => i j; rewrite !mxE ord1.
  have := congr1 (fun M : 'cV[F]_(1 + n) => M (rshift 1 i) 0) Be.
  rewrite -colE !mxE (_ : lshift n 0 = 0 :> 'I_(1 + n)); last exact: val_inj.
  by move=> ->; rewrite (_ : (rshift 1 i == 0 :> 'I_(1 + n)) = false) ?mulr0.
have ul : ulsubmx B = a%:M.
  rewrite [LHS]mx11E !mxE; congr (_%:M).
  have := congr1 (fun M : 'cV[F]_(1 + n) => M 0 0) Be.
  rewrite -colE !mxE eqxx mulr1 => <-; congr (B _ _); exact: val_inj.
have [P' [d' [PP eB']]] := IH _ sDR.
pose Q : 'M[F]_(1 + n) := block_mx 1%:M 0 0 P'.
have QQ : Q^T *m Q = 1%:M.
  by rewrite /Q tr_block_mx mulmx_block !trmx0 trmx1 !mulmx0 !mul0mx mul1mx !addr0 add0r PP -scalar_mx_block.
exists (H *m Q), (col_mx (a%:M : 'M_1) d'); split.
  by rewrite trmx_mul sH -mulmxA (mulmxA H) HH mul1mx.
have eB : B = Q *m diagv (col_mx (a%:M : 'M_1) d') *m Q^T.
  rewrite diagv_col_mx /Q tr_block_mx !mulmx_block !trmx0 trmx1.
  rewrite !mulmx0 !mul0mx !mul1mx !mulmx1 !addr0 !add0r -eB'.
  by rewrite !mul0mx -[LHS]submxK ul eUR dl0 trmx0.
have -> : A = H *m B *m H by rewrite eB0 !mulmxA HH mul1mx -mulmxA HH mulmx1.
by rewrite eB trmx_mul sH !mulmxA.
Qed.

(* ---- reduced QR factorisation (Householder), k = min(n, m) columns ------------------------ *)
(* a symmetric orthogonal H that maps a given column c to a multiple of e_0 *)
Lemma householder_col n (c : 'cV[F]_n.+1) :
  exists H : 'M[F]_n.+1, exists r : F, [/\ H^T = H, H *m H = 1%:M & H *m c = r *: delta_mx 0 0].
Proof.
case: (eqVneq c 0) => [->|c0].
  by exists 1%:M, 0; split; rewrite ?trmx1 ?mulmx1 ?mulmx0 ?scale0r.
pose nc := Num.sqrt ((c^T *m c) 0 0).
have cc0 : 0 < (c^T *m c) 0 0 by apply: dot_gt0.
have nc0 : nc != 0 by rewrite gt_eqF // sqrtr_gt0.
pose x : 'cV[F]_n.+1 := nc^-1 *: c.
have x1 : (x^T *m x) 0 0 = 1.
  rewrite /x -scalemxAr linearZ /= -scalemxAl scalerA mxE -invfM -expr2 sqr_sqrtr ?ltW //.
  by rewrite mulVf // gt_eqF.
have [H [sH HH He]] := householder x1.
exists H, nc; split=> //.
have -> : c = nc *: x by rewrite /x scalerA divff // scale1r.
by rewrite -scalemxAr -He mulmxA HH mul1mx.
Qed.

Lemma qr_exists n m k (C : 'M[F]_(n, m)) :
  k = minn n m -> exists Q : 'M[F]_(n, k), exists R : 'M[F]_(k, m), Q *m R = C /\ Q^T *m Q = 1%:M.
Proof.
elim: n m k C => [|n IH] m k C.
  rewrite min0n => ->; exists 0, 0; split; first by apply/matrixP => -[].
  by apply/matrixP => -[].
case: m C => [|m] C.
  rewrite minn0 => ->; exists 0, 0; split; first by apply/matrixP => i [].
  by apply/matrixP => -[].
rewrite minnSS => ->.
change ('M[F]_(1 + n, 1 + m)) in C.
have [H [r [sH HH Hc]]] := householder_col (lsubmx C).
pose D : 'M[F]_(1 + n, 1 + m) := H *m C.
have [Q' [R' [QR' QQ']]] := IH m (minn n m) (drsubmx D) (erefl _).
have dl0 : dlsubmx D = 0.
  rewrite /dlsubmx /D -mul_dsub_mx -mulmx_lsub mul_dsub_mx Hc; apply/matrixP => i j; rewrite !mxE !ord1.
  by rewrite (_ : (rshift 1 i == 0 :> 'I_(1 + n)) = false) ?mulr0.
pose Q : 'M[F]_(1 + n, 1 + minn n m) := (H : 'M[F]_(1 + n)) *m block_mx (1%:M : 'M[F]_1) 0 0 Q'.
pose R : 'M[F]_(1 + minn n m, 1 + m) := block_mx (ulsubmx D) (ursubmx D) 0 R'.
exists Q, R; split.
  rewrite /Q /R -mulmxA (@mulmx_block _ 1 n 1 (minn n m) 1 m) !mul1mx !mul0mx !mulmx0 !addr0 add0r QR'.
  have -> : block_mx (ulsubmx D) (ursubmx D) 0 (drsubmx D) = D by rewrite -dl0 submxK.
  by rewrite /D mulmxA HH mul1mx.
rewrite /Q trmx_mul sH -mulmxA (mulmxA H) HH mul1mx.
by rewrite (@tr_block_mx _ 1 n 1 (minn n m)) (@mulmx_block _ 1 (minn n m) 1 n 1 (minn n m)) !trmx0 trmx1 !mulmx0 !mul0mx mul1mx !addr0 add0r QQ' -scalar_mx_block.
Qed.

End Spectral.
