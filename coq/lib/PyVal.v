(* PyVal: a small dynamically-typed value universe with the semantics of the
   Python / NumPy / JAX primitives that Mellon's decision logic uses.
   Models only; no proofs in this file (see PyValFacts.v).
   Every primitive is total: ill-typed uses return [Err <exception class>],
   mirroring the class CPython/JAX raise. *)
From Coq Require Import ZArith QArith List Bool String Ascii.
Import ListNotations.
Open Scope Z_scope.

(* ------------------------------------------------------------------ *)
(* exceptions and the error monad *)
Inductive exn :=
  | ValueError | TypeError | AttributeError | AssertionError
  | IndexError | KeyError | OtherError.

Inductive res (A : Type) := Ok (a : A) | Err (e : exn).
Arguments Ok {A} a.
Arguments Err {A} e.

Definition bind {A B} (m : res A) (f : A -> res B) : res B :=
  match m with Ok a => f a | Err e => Err e end.
Definition bind2 {A B C} (f : A -> B -> res C) (a : res A) (b : res B) : res C :=
  bind a (fun x => bind b (fun y => f x y)).
Definition bind3 {A B C D} (f : A -> B -> C -> res D) (a : res A) (b : res B) (c : res C) : res D :=
  bind a (fun x => bind b (fun y => bind c (fun z => f x y z))).
Definition rmap {A B} (f : A -> B) (m : res A) : res B := bind m (fun a => Ok (f a)).

(* try: body except <classes>: handler *)
Definition exn_eqb (a b : exn) : bool :=
  match a, b with
  | ValueError, ValueError | TypeError, TypeError | AttributeError, AttributeError
  | AssertionError, AssertionError | IndexError, IndexError | KeyError, KeyError
  | OtherError, OtherError => true
  | _, _ => false
  end.
Definition try_except {A} (body : res A) (classes : list exn) (handler : res A) : res A :=
  match body with
  | Ok a => Ok a
  | Err e => if existsb (exn_eqb e) classes then handler else Err e
  end.

(* ------------------------------------------------------------------ *)
(* floats: exact rationals extended with the IEEE specials.  Only comparisons,
   and the handful of arithmetic operations the modelled logic performs, are
   defined; correspondence runs use inputs on which float arithmetic is exact. *)
Inductive xf := XFin (q : Q) | XPInf | XNInf | XNaN.

Definition Qltb (a b : Q) : bool := negb (Qle_bool b a).

Definition xf_ltb (a b : xf) : bool :=
  match a, b with
  | XNaN, _ | _, XNaN => false
  | XFin p, XFin q => Qltb p q
  | XNInf, XNInf => false
  | XNInf, _ => true
  | _, XNInf => false
  | XPInf, _ => false
  | XFin _, XPInf => true
  end.
Definition xf_eqb (a b : xf) : bool :=
  match a, b with
  | XFin p, XFin q => Qeq_bool p q
  | XPInf, XPInf | XNInf, XNInf => true
  | _, _ => false
  end.
Definition xf_leb (a b : xf) : bool := xf_ltb a b || xf_eqb a b.
Definition xf_isnan (a : xf) : bool := match a with XNaN => true | _ => false end.
Definition xf_isinf (a : xf) : bool := match a with XPInf | XNInf => true | _ => false end.

Definition xf_add (a b : xf) : xf :=
  match a, b with
  | XNaN, _ | _, XNaN => XNaN
  | XFin p, XFin q => XFin (Qred (p + q))
  | XPInf, XNInf | XNInf, XPInf => XNaN
  | XPInf, _ | _, XPInf => XPInf
  | XNInf, _ | _, XNInf => XNInf
  end.
Definition Qsgn (q : Q) : Z := Z.sgn (Qnum q).
Definition xf_sgn (a : xf) : Z :=
  match a with XFin q => Qsgn q | XPInf => 1 | XNInf => -1 | XNaN => 0 end.
Definition xf_mul (a b : xf) : xf :=
  match a, b with
  | XNaN, _ | _, XNaN => XNaN
  | XFin p, XFin q => XFin (Qred (p * q))
  | _, _ => match (xf_sgn a * xf_sgn b)%Z with
            | 0 => XNaN | Zpos _ => XPInf | Zneg _ => XNInf end
  end.
Definition xf_neg (a : xf) : xf :=
  match a with XFin q => XFin (Qred (- q)) | XPInf => XNInf | XNInf => XPInf | XNaN => XNaN end.
Definition xf_of_Z (z : Z) : xf := XFin (inject_Z z).

(* ------------------------------------------------------------------ *)
(* GaussianProcessType *)
Inductive gpt := FULL | FULL_NYSTROEM | SPARSE_CHOLESKY | SPARSE_NYSTROEM | FIXED.
Definition gpt_eqb (a b : gpt) : bool :=
  match a, b with
  | FULL, FULL | FULL_NYSTROEM, FULL_NYSTROEM | SPARSE_CHOLESKY, SPARSE_CHOLESKY
  | SPARSE_NYSTROEM, SPARSE_NYSTROEM | FIXED, FIXED => true
  | _, _ => false
  end.

(* array element kind (dtype family) *)
Inductive akind := KF | KI | KB.
Definition akind_eqb (a b : akind) :=
  match a, b with KF, KF | KI, KI | KB, KB => true | _, _ => false end.

(* ------------------------------------------------------------------ *)
Inductive val :=
  | VNone
  | VBool (b : bool)
  | VInt (z : Z)
  | VFloat (f : xf)
  | VStr (s : string)
  | VNumStr (s : string) (f : xf)                        (* a str that float() parses to f *)
  | VEnum (g : gpt)
  | VArr (k : akind) (shape : list Z) (data : list xf)   (* JAX array, row-major *)
  | VNpArr (k : akind) (shape : list Z) (data : list xf) (* numpy.ndarray: NOT an instance of jax.numpy.ndarray *)
  | VTuple (l : list val)
  | VList (l : list val)
  | VDict (l : list (val * val))                        (* insertion ordered *)
  | VSet (l : list val)
  | VSlice (a b c : val)
  | VNpScalar (k : akind) (f : xf)                       (* numpy.float64 / int64 scalar object *)
  | VJInt (z : Z)                                        (* 0-d integer JAX array (count, index) *)
  | VObj (cls : string) (id : Z).                        (* opaque object: class name and identity *)

(* numeric view *)
Inductive num := NZ (z : Z) | NF (f : xf).
Definition num_xf (n : num) : xf := match n with NZ z => xf_of_Z z | NF f => f end.

(* 0-d / 1-element arrays take part in scalar arithmetic and comparisons *)
Definition as_num (v : val) : option num :=
  match v with
  | VBool b => Some (NZ (if b then 1 else 0))
  | VInt z => Some (NZ z)
  | VJInt z => Some (NZ z)
  | VFloat f => Some (NF f)
  | VNpScalar KF f => Some (NF f)
  | VNpScalar _ (XFin q) => Some (NZ (Qnum q))
  | VArr KF [] [f] | VNpArr KF [] [f] => Some (NF f)
  | VArr _ [] [XFin q] | VNpArr _ [] [XFin q] => Some (NZ (Qnum q))
  | _ => None
  end.

Definition num_ltb (a b : num) : bool :=
  match a, b with
  | NZ x, NZ y => Z.ltb x y
  | _, _ => xf_ltb (num_xf a) (num_xf b)
  end.
Definition num_eqb (a b : num) : bool :=
  match a, b with
  | NZ x, NZ y => Z.eqb x y
  | _, _ => xf_eqb (num_xf a) (num_xf b)
  end.
Definition num_leb (a b : num) : bool :=
  match a, b with
  | NZ x, NZ y => Z.leb x y
  | _, _ => xf_leb (num_xf a) (num_xf b)
  end.

Definition is_array (v : val) : bool := match v with VArr _ _ _ | VNpArr _ _ _ => true | _ => false end.

(* result kind of an elementwise comparison involving at least one array *)
Definition arr_data (v : val) : option (list Z * list xf) :=
  match v with
  | VArr _ sh d | VNpArr _ sh d => Some (sh, d)
  | _ => match as_num v with Some n => Some ([], [num_xf n]) | None => None end
  end.

Fixpoint zip_with {A B C} (f : A -> B -> C) (l1 : list A) (l2 : list B) : list C :=
  match l1, l2 with
  | a :: r1, b :: r2 => f a b :: zip_with f r1 r2
  | _, _ => []
  end.

Definition xf_of_bool (b : bool) : xf := XFin (inject_Z (if b then 1 else 0)).
Definition xf_truth (f : xf) : bool := match f with XFin q => negb (Qeq_bool q 0) | _ => true end.

Definition list_Z_eqb (a b : list Z) : bool :=
  (Nat.eqb (List.length a) (List.length b)) && forallb (fun p => Z.eqb (fst p) (snd p)) (combine a b).

(* broadcasting of an array with a scalar, or two arrays of equal shape *)
Definition broadcast2 (f : xf -> xf -> xf) (k : akind) (a b : val) : res val :=
  match arr_data a, arr_data b with
  | Some (sa, da), Some (sb, db) =>
      match sa, sb with
      | [], [] => match da, db with
                  | [x], [y] => Ok (VArr k [] [f x y])
                  | _, _ => Err TypeError end
      | [], _ => match da with [x] => Ok (VArr k sb (map (fun y => f x y) db)) | _ => Err TypeError end
      | _, [] => match db with [y] => Ok (VArr k sa (map (fun x => f x y) da)) | _ => Err TypeError end
      | _, _ => if list_Z_eqb sa sb then Ok (VArr k sa (zip_with f da db)) else Err ValueError
      end
  | _, _ => Err TypeError
  end.

(* ---- comparisons (Python semantics) ---- *)
Definition cmp_ord (nb : num -> num -> bool) (xb : xf -> xf -> bool) (a b : val) : res val :=
  if is_array a || is_array b then broadcast2 (fun x y => xf_of_bool (xb x y)) KB a b
  else match as_num a, as_num b with
       | Some x, Some y => Ok (VBool (nb x y))
       | _, _ => Err TypeError     (* '<' not supported between NoneType/str and int ... *)
       end.
Definition py_lt := cmp_ord num_ltb xf_ltb.
Definition py_le := cmp_ord num_leb xf_leb.
Definition py_gt (a b : val) := py_lt b a.
Definition py_ge (a b : val) := py_le b a.

Fixpoint string_eqb (a b : string) : bool :=
  match a, b with
  | EmptyString, EmptyString => true
  | String c1 r1, String c2 r2 => Ascii.eqb c1 c2 && string_eqb r1 r2
  | _, _ => false
  end.

(* == on scalars never raises *)
Definition scalar_eqb (a b : val) : bool :=
  match as_num a, as_num b with
  | Some x, Some y => num_eqb x y
  | _, _ =>
      match a, b with
      | VNone, VNone => true
      | VStr s, VStr t | VNumStr s _, VNumStr t _ | VStr s, VNumStr t _ | VNumStr s _, VStr t => string_eqb s t
      | VEnum g, VEnum h => gpt_eqb g h
      | VObj c i, VObj d j => Z.eqb i j
      | _, _ => false
      end
  end.
Definition py_eq (a b : val) : res val :=
  if is_array a || is_array b then
    match arr_data a, arr_data b with
    | Some _, Some _ => broadcast2 (fun x y => xf_of_bool (xf_eqb x y)) KB a b
    | _, _ => Ok (VBool false)
    end
  else Ok (VBool (scalar_eqb a b)).
Definition py_ne (a b : val) : res val :=
  if is_array a || is_array b then
    match arr_data a, arr_data b with
    | Some _, Some _ => broadcast2 (fun x y => xf_of_bool (negb (xf_eqb x y))) KB a b
    | _, _ => Ok (VBool true)
    end
  else Ok (VBool (negb (scalar_eqb a b))).

(* identity: None, bools, enum members are singletons; objects by id *)
Definition py_is (a b : val) : res val :=
  Ok (VBool match a, b with
            | VNone, VNone => true
            | VBool x, VBool y => Bool.eqb x y
            | VEnum g, VEnum h => gpt_eqb g h
            | VObj _ i, VObj _ j => Z.eqb i j
            | _, _ => false
            end).
Definition py_is_not (a b : val) : res val :=
  bind (py_is a b) (fun v => match v with VBool x => Ok (VBool (negb x)) | _ => Err TypeError end).

(* truth value *)
Definition truthy (v : val) : res bool :=
  match v with
  | VNone => Ok false
  | VBool b => Ok b
  | VInt z | VJInt z => Ok (negb (Z.eqb z 0))
  | VFloat f => Ok (xf_truth f)
  | VNpScalar _ f => Ok (xf_truth f)
  | VStr s | VNumStr s _ => Ok (negb (string_eqb s ""))
  | VEnum _ => Ok true
  | VArr _ _ [f] | VNpArr _ _ [f] => Ok (xf_truth f)
  | VArr _ _ _ | VNpArr _ _ _ => Err ValueError    (* truth value of an array with more than one element (or empty: deprecated/False) *)
  | VTuple l | VList l | VSet l => Ok (negb (Nat.eqb (List.length l) 0))
  | VDict l => Ok (negb (Nat.eqb (List.length l) 0))
  | VSlice _ _ _ => Ok true
  | VObj _ _ => Ok true
  end.
Definition py_not (v : val) : res val := rmap (fun b => VBool (negb b)) (truthy v).

(* short-circuit boolean operators used in conditions *)
Definition and_then (a : res bool) (b : res bool) : res bool :=
  bind a (fun x => if x then b else Ok false).
Definition or_else (a : res bool) (b : res bool) : res bool :=
  bind a (fun x => if x then Ok true else b).
Definition cond (v : res val) : res bool := bind v truthy.
Definition of_bool (b : res bool) : res val := rmap VBool b.

(* ---- types ---- *)
Inductive pytype := TInt | TFloat | TBool | TStr | TNone | TDict | TList | TTuple | TSet
                  | TSlice | TNdarray | TGpType | TNpInteger | TNpFloating | TIterable | TClass (name : string).

Definition py_isinstance1 (v : val) (t : pytype) : bool :=
  match t, v with
  | TInt, (VInt _ | VBool _) => true
  | TBool, VBool _ => true
  | TFloat, VFloat _ => true
  | TFloat, VNpScalar KF _ => true           (* numpy.float64 subclasses float *)
  | TStr, (VStr _ | VNumStr _ _) => true
  | TNone, VNone => true
  | TDict, VDict _ => true
  | TList, VList _ => true
  | TTuple, VTuple _ => true
  | TSet, VSet _ => true
  | TSlice, VSlice _ _ _ => true
  | TNdarray, VArr _ _ _ => true
  | TNdarray, VJInt _ => true
  | TGpType, VEnum _ => true
  | TNpInteger, VNpScalar KI _ => true
  | TNpFloating, VNpScalar KF _ => true
  | TIterable, (VArr _ _ _ | VNpArr _ _ _ | VJInt _ | VList _ | VTuple _ | VSet _ | VDict _ | VStr _ | VNumStr _ _) => true   (* ndarray defines __iter__ even when 0-d *)
  | TClass n, VObj c _ => string_eqb n c
  | _, _ => false
  end.
Definition py_isinstance (v : val) (ts : list pytype) : res val :=
  Ok (VBool (existsb (py_isinstance1 v) ts)).
(* type(v) is T  -- exact type, no subclassing *)
Definition py_type_is (v : val) (t : pytype) : res val :=
  Ok (VBool match t, v with
            | TInt, VInt _ => true
            | TFloat, VFloat _ => true
            | TBool, VBool _ => true
            | TStr, (VStr _ | VNumStr _ _) => true
            | _, _ => false
            end).

(* ---- arithmetic on scalars ---- *)
Definition py_neg (v : val) : res val :=
  match v with
  | VInt z => Ok (VInt (- z))
  | VJInt z => Ok (VJInt (- z))
  | VBool b => Ok (VInt (- (if b then 1 else 0)))
  | VFloat f => Ok (VFloat (xf_neg f))
  | VArr k sh d => Ok (VArr (match k with KB => KI | _ => k end) sh (map xf_neg d))
  | _ => Err TypeError
  end.

Definition arith (fz : Z -> Z -> Z) (ff : xf -> xf -> xf) (a b : val) : res val :=
  if is_array a || is_array b then
    let k := match a, b with
             | VArr KF _ _, _ | _, VArr KF _ _ => KF
             | VFloat _, _ | _, VFloat _ => KF
             | _, _ => KI end in
    broadcast2 ff k a b
  else match as_num a, as_num b with
       | Some (NZ x), Some (NZ y) =>
           Ok (match a, b with VJInt _, _ | _, VJInt _ => VJInt (fz x y) | _, _ => VInt (fz x y) end)
       | Some x, Some y => Ok (VFloat (ff (num_xf x) (num_xf y)))
       | _, _ => Err TypeError
       end.
Definition py_add := arith Z.add xf_add.
Definition py_sub := arith Z.sub (fun a b => xf_add a (xf_neg b)).
Definition py_mul := arith Z.mul xf_mul.

(* true division on finite values; division by zero raises for Python scalars *)
Definition xf_div (a b : xf) : option xf :=
  match a, b with
  | XFin p, XFin q => if Qeq_bool q 0 then None else Some (XFin (Qred (p / q)))
  | _, _ => None
  end.
Definition py_truediv (a b : val) : res val :=
  match as_num a, as_num b with
  | Some x, Some y => match xf_div (num_xf x) (num_xf y) with
                      | Some r => Ok (VFloat r) | None => Err OtherError end
  | _, _ => Err TypeError
  end.

(* builtin min / max of two scalars: returns one of the operands *)
Definition py_min2 (a b : val) : res val :=
  bind (bind (py_lt b a) truthy) (fun t => Ok (if t then b else a)).
Definition py_max2 (a b : val) : res val :=
  bind (bind (py_gt b a) truthy) (fun t => Ok (if t then b else a)).

(* float(v) *)
Definition py_float (v : val) : res val :=
  match v with
  | VFloat f => Ok (VFloat f)
  | VInt z | VJInt z => Ok (VFloat (xf_of_Z z))
  | VBool b => Ok (VFloat (xf_of_Z (if b then 1 else 0)))
  | VNpScalar _ f => Ok (VFloat f)
  | VArr _ [] [f] | VNpArr _ [] [f] => Ok (VFloat f)         (* 0-d arrays convert *)
  | VArr _ _ _ | VNpArr _ _ _ => Err TypeError            (* only 0-dimensional arrays can be converted (NumPy >= 2.x, JAX) *)
  | VNumStr _ f => Ok (VFloat f)
  | VStr _ => Err ValueError               (* could not convert string to float *)
  | _ => Err TypeError
  end.
Definition py_int (v : val) : res val :=
  match v with
  | VInt z | VJInt z => Ok (VInt z)
  | VBool b => Ok (VInt (if b then 1 else 0))
  | VNpScalar KI (XFin q) | VNpScalar KB (XFin q) => Ok (VInt (Qnum q))
  | VArr KI _ [XFin q] | VArr KB _ [XFin q] => Ok (VInt (Qnum q))
  | _ => Err TypeError
  end.

(* ---- arrays ---- *)
Definition np_isnan (v : val) : res val :=
  match v with
  | VArr _ sh d | VNpArr _ sh d => Ok (VArr KB sh (map (fun x => xf_of_bool (xf_isnan x)) d))
  | _ => match as_num v with
         | Some n => Ok (VBool (xf_isnan (num_xf n)))
         | None => Err TypeError end
  end.
Definition np_isinf (v : val) : res val :=
  match v with
  | VArr _ sh d | VNpArr _ sh d => Ok (VArr KB sh (map (fun x => xf_of_bool (xf_isinf x)) d))
  | _ => match as_num v with
         | Some n => Ok (VBool (xf_isinf (num_xf n)))
         | None => Err TypeError end
  end.

Definition count_true (d : list xf) : Z := Z.of_nat (List.length (filter xf_truth d)).
Definition np_count_nonzero (v : val) : res val :=
  match v with
  | VArr _ _ d => Ok (VJInt (count_true d))
  | _ => Err TypeError
  end.
Definition np_any (v : val) : res val :=
  match v with
  | VArr _ _ d => Ok (VArr KB [] [xf_of_bool (existsb xf_truth d)])
  | _ => Err TypeError
  end.
Definition np_all (v : val) : res val :=
  match v with
  | VArr _ _ d => Ok (VArr KB [] [xf_of_bool (forallb xf_truth d)])
  | _ => Err TypeError
  end.
Definition np_sum (v : val) : res val :=
  match v with
  | VArr k _ d => Ok (VArr (match k with KB => KI | _ => k end) []
                       [fold_left xf_add d (XFin 0)])
  | _ => Err TypeError
  end.

Fixpoint cumsum_from (acc : xf) (l : list xf) : list xf :=
  match l with
  | [] => []
  | x :: r => let a := xf_add acc x in a :: cumsum_from a r
  end.
Definition np_cumsum (v : val) : res val :=
  match v with
  | VArr k [n] d => Ok (VArr (match k with KB => KI | _ => k end) [n] (cumsum_from (XFin 0) d))
  | _ => Err TypeError
  end.

(* searchsorted(a, v) with side='left': number of entries strictly below v *)
Fixpoint count_lt (l : list xf) (t : xf) : Z :=
  match l with
  | [] => 0
  | x :: r => if xf_ltb x t then 1 + count_lt r t else 0
  end.
Definition np_searchsorted (a t : val) : res val :=
  match a, arr_data t with
  | VArr _ [_] d, Some ([], [x]) => Ok (VJInt (count_lt d x))
  | _, _ => Err TypeError
  end.

(* Python slice arithmetic on one axis of length n: the list of selected indices *)
Definition opt_index (v : val) : res (option Z) :=
  match v with
  | VNone => Ok None
  | _ => match as_num v with Some (NZ z) => Ok (Some z) | _ => Err TypeError end
  end.
Fixpoint range_from (start step : Z) (count : nat) : list Z :=
  match count with O => [] | S c => start :: range_from (start + step) step c end.
Definition slice_indices (n : Z) (a b c : option Z) : res (list Z) :=
  let step := match c with None => 1 | Some s => s end in
  if Z.eqb step 0 then Err ValueError else
  let clampl (x lo hi : Z) := Z.max lo (Z.min hi x) in
  if Z.ltb 0 step then
    let start := match a with None => 0 | Some s => clampl (if Z.ltb s 0 then s + n else s) 0 n end in
    let stop := match b with None => n | Some s => clampl (if Z.ltb s 0 then s + n else s) 0 n end in
    let cnt := if Z.ltb start stop then (stop - start + step - 1) / step else 0 in
    Ok (range_from start step (Z.to_nat cnt))
  else
    let start := match a with None => n - 1 | Some s => clampl (if Z.ltb s 0 then s + n else s) (-1) (n - 1) end in
    let stop := match b with None => -1 | Some s => clampl (if Z.ltb s 0 then s + n else s) (-1) (n - 1) end in
    let cnt := if Z.ltb stop start then (start - stop - step - 1) / (- step) else 0 in
    Ok (range_from start step (Z.to_nat cnt)).

Definition nthZ {A} (l : list A) (i : Z) (d : A) : A := nth (Z.to_nat i) l d.

(* a[i] for a static integer index on a 1-d array (negative allowed; out of range raises) *)
Definition np_index1 (a i : val) : res val :=
  match a, as_num i with
  | VArr k [n] d, Some (NZ z) =>
      let j := if Z.ltb z 0 then z + n else z in
      if (Z.leb 0 j && Z.ltb j n)%bool then Ok (VArr k [] [nthZ d j XNaN]) else Err IndexError
  | VTuple l, Some (NZ z) | VList l, Some (NZ z) =>
      let n := Z.of_nat (List.length l) in
      let j := if Z.ltb z 0 then z + n else z in
      if (Z.leb 0 j && Z.ltb j n)%bool then Ok (nthZ l j VNone) else Err IndexError
  | _, _ => Err TypeError
  end.

(* a[lo:hi:step] on a 1-d array *)
Definition np_slice1 (a lo hi st : val) : res val :=
  match a with
  | VArr k [n] d =>
      bind3 (fun x y z => bind (slice_indices n x y z)
               (fun idx => Ok (VArr k [Z.of_nat (List.length idx)] (map (fun i => nthZ d i XNaN) idx))))
            (opt_index lo) (opt_index hi) (opt_index st)
  | _ => Err TypeError
  end.

(* a[:, lo:hi:step] on a 2-d array *)
Definition np_slice_cols (a lo hi st : val) : res val :=
  match a with
  | VArr k [r; c] d =>
      bind3 (fun x y z => bind (slice_indices c x y z)
               (fun idx =>
                  let rows := range_from 0 1 (Z.to_nat r) in
                  Ok (VArr k [r; Z.of_nat (List.length idx)]
                        (flat_map (fun i => map (fun j => nthZ d (i * c + j) XNaN) idx) rows))))
            (opt_index lo) (opt_index hi) (opt_index st)
  | _ => Err TypeError
  end.

Definition np_shape (v : val) : res val :=
  match v with
  | VArr _ sh _ | VNpArr _ sh _ => Ok (VTuple (map VInt sh))
  | VJInt _ => Ok (VTuple [])
  | _ => Err AttributeError
  end.
Definition np_ndim (v : val) : res val :=
  match v with
  | VArr _ sh _ | VNpArr _ sh _ => Ok (VInt (Z.of_nat (List.length sh)))
  | VJInt _ => Ok (VInt 0)
  | _ => Err AttributeError
  end.
Definition np_size (v : val) : res val :=
  match v with
  | VArr _ _ d | VNpArr _ _ d => Ok (VInt (Z.of_nat (List.length d)))
  | VJInt _ => Ok (VInt 1)
  | _ => Err AttributeError
  end.
Definition py_len (v : val) : res val :=
  match v with
  | VArr _ (n :: _) _ | VNpArr _ (n :: _) _ => Ok (VInt n)
  | VArr _ [] _ | VNpArr _ [] _ => Err TypeError
  | VList l | VTuple l | VSet l => Ok (VInt (Z.of_nat (List.length l)))
  | VDict l => Ok (VInt (Z.of_nat (List.length l)))
  | VStr s => Ok (VInt (Z.of_nat (String.length s)))
  | _ => Err TypeError
  end.

Definition py_tuple (l : list (res val)) : res val :=
  rmap VTuple (fold_right (fun x acc => bind x (fun v => bind acc (fun r => Ok (v :: r)))) (Ok []) l).

Definition mk_tuple2 (a b : val) : res val := Ok (VTuple [a; b]).

(* ------------------------------------------------------------------ *)
(* tuple-argument wrappers used by the translator for subscripts *)
Definition np_slice1_t (t : val) : res val :=
  match t with VTuple [a; lo; hi; st] => np_slice1 a lo hi st | _ => Err TypeError end.
Definition np_slice_cols_t (t : val) : res val :=
  match t with VTuple [a; lo; hi; st] => np_slice_cols a lo hi st | _ => Err TypeError end.

Definition py_list (l : list (res val)) : res val :=
  rmap VList (fold_right (fun x acc => bind x (fun v => bind acc (fun r => Ok (v :: r)))) (Ok []) l).

Fixpoint assoc_lookup (k : val) (l : list (val * val)) : option val :=
  match l with
  | [] => None
  | (k', v) :: r => if scalar_eqb k k' then Some v else assoc_lookup k r
  end.

(* a[i] : arrays and sequences by (static) integer, dicts by key *)
Definition py_getitem (a i : val) : res val :=
  match a with
  | VDict l => match assoc_lookup i l with Some v => Ok v | None => Err KeyError end
  | VArr _ [_] _ | VTuple _ | VList _ => np_index1 a i
  | VNone => Err TypeError
  | _ => Err TypeError
  end.

(* ---- strings ---- *)
Definition ascii_lower (c : ascii) : ascii :=
  let n := nat_of_ascii c in
  if (Nat.leb 65 n && Nat.leb n 90)%bool then ascii_of_nat (n + 32) else c.
Fixpoint string_map (f : ascii -> ascii) (s : string) : string :=
  match s with EmptyString => EmptyString | String c r => String (f c) (string_map f r) end.
Definition str_lower (v : val) : res val :=
  match v with VStr s => Ok (VStr (string_map ascii_lower s)) | _ => Err AttributeError end.
(* s.replace(a, b) for single-character a, b (the only use in the modelled code) *)
Definition str_replace (v a b : val) : res val :=
  match v, a, b with
  | VStr s, VStr (String x EmptyString), VStr (String y EmptyString) =>
      Ok (VStr (string_map (fun c => if Ascii.eqb c x then y else c) s))
  | VStr _, _, _ => Err OtherError
  | _, _, _ => Err AttributeError
  end.
Fixpoint string_prefix (p s : string) : bool :=
  match p, s with
  | EmptyString, _ => true
  | String c r, String d t => Ascii.eqb c d && string_prefix r t
  | _, EmptyString => false
  end.
Fixpoint string_contains (p s : string) : bool :=
  string_prefix p s || match s with EmptyString => false | String _ t => string_contains p t end.

Definition py_in (x c : val) : res val :=
  match c with
  | VStr s => match x with VStr p => Ok (VBool (string_contains p s)) | _ => Err TypeError end
  | VList l | VTuple l | VSet l => Ok (VBool (existsb (scalar_eqb x) l))
  | VDict l => Ok (VBool (existsb (fun kv => scalar_eqb x (fst kv)) l))
  | _ => Err TypeError
  end.
Definition py_not_in (x c : val) : res val := bind (py_in x c) py_not.

Definition gpt_value (g : gpt) : string :=
  match g with
  | FULL => "full" | FULL_NYSTROEM => "full_nystroem" | SPARSE_CHOLESKY => "sparse_cholesky"
  | SPARSE_NYSTROEM => "sparse_nystroem" | FIXED => "fixed"
  end.
Definition enum_value (v : val) : res val :=
  match v with VEnum g => Ok (VStr (gpt_value g)) | _ => Err AttributeError end.

(* ------------------------------------------------------------------ *)
(* structural equality used by the correspondence check (NaN equals NaN here:
   this compares encodings, it is not Python's ==) *)
Definition xf_same (a b : xf) : bool :=
  match a, b with
  | XFin p, XFin q => Qeq_bool p q
  | XPInf, XPInf | XNInf, XNInf | XNaN, XNaN => true
  | _, _ => false
  end.
Fixpoint list_eqb {A} (e : A -> A -> bool) (l m : list A) : bool :=
  match l, m with
  | [], [] => true
  | x :: r, y :: t => e x y && list_eqb e r t
  | _, _ => false
  end.
Fixpoint val_eqb (a b : val) {struct a} : bool :=
  match a, b with
  | VNone, VNone => true
  | VBool x, VBool y => Bool.eqb x y
  | VInt x, VInt y => Z.eqb x y
  | VJInt x, VJInt y => Z.eqb x y
  | VFloat x, VFloat y => xf_same x y
  | VStr x, VStr y => string_eqb x y
  | VNumStr x f, VNumStr y g => string_eqb x y && xf_same f g
  | VEnum g, VEnum h => gpt_eqb g h
  | VArr k s d, VArr k' s' d' | VNpArr k s d, VNpArr k' s' d' => akind_eqb k k' && list_Z_eqb s s' && list_eqb xf_same d d'
  | VTuple l, VTuple m | VList l, VList m | VSet l, VSet m =>
      (fix go (l m : list val) : bool :=
         match l, m with
         | [], [] => true
         | x :: r, y :: t => val_eqb x y && go r t
         | _, _ => false
         end) l m
  | VDict l, VDict m =>
      (fix go (l m : list (val * val)) : bool :=
         match l, m with
         | [], [] => true
         | (k1, v1) :: r, (k2, v2) :: t => val_eqb k1 k2 && val_eqb v1 v2 && go r t
         | _, _ => false
         end) l m
  | VSlice a1 b1 c1, VSlice a2 b2 c2 => val_eqb a1 a2 && val_eqb b1 b2 && val_eqb c1 c2
  | VNpScalar k x, VNpScalar k' y => akind_eqb k k' && xf_same x y
  | VObj c i, VObj d j => string_eqb c d && Z.eqb i j
  | _, _ => false
  end.
Definition res_eqb (a b : res val) : bool :=
  match a, b with
  | Ok x, Ok y => val_eqb x y
  | Err e, Err f => exn_eqb e f
  | _, _ => false
  end.
Definition failing (cases : list (nat * bool)) : list nat :=
  map fst (filter (fun c => negb (snd c)) cases).

(* ------------------------------------------------------------------ *)
(* array construction / reshaping used by validate_array and validate_time_x *)
Definition py_hasattr (v : val) (name : string) : res val :=
  Ok (VBool match v with
            | VObj cls _ => string_eqb cls "sparse"%string && string_eqb name "todense"%string
            | VArr _ _ _ => existsb (string_eqb name) ["shape"%string; "ndim"%string; "size"%string; "reshape"%string; "T"%string]
            | _ => false
            end).
Definition m_todense (v : val) : res val :=
  match v with VObj _ _ => Err OtherError | _ => Err AttributeError end.

Definition np_isscalar (v : val) : res val :=
  Ok (VBool match v with
            | VBool _ | VInt _ | VFloat _ | VNpScalar _ _ | VJInt _ | VStr _ | VNumStr _ _ => true
            | VArr _ [] _ | VNpArr _ [] _ => true
            | _ => false
            end).

Fixpoint all_some {A} (l : list (option A)) : option (list A) :=
  match l with
  | [] => Some []
  | Some a :: r => match all_some r with Some t => Some (a :: t) | None => None end
  | None :: _ => None
  end.
Definition num_of_elem (v : val) : option xf :=
  match v with VStr _ | VNumStr _ _ => None | _ => match as_num v with Some n => Some (num_xf n) | None => None end end.
Definition seq_items (v : val) : option (list val) :=
  match v with VList l | VTuple l => Some l | _ => None end.

(* asarray(v, dtype=float) for arrays and for (nested, depth <= 2) sequences of numbers *)
Definition np_asarray_float (v : val) : res val :=
  match v with
  | VArr _ sh d | VNpArr _ sh d => Ok (VArr KF sh d)
  | VJInt z => Ok (VArr KF [] [xf_of_Z z])
  | VList l | VTuple l =>
      match all_some (map num_of_elem l) with
      | Some d => Ok (VArr KF [Z.of_nat (List.length l)] d)
      | None =>
          match all_some (map seq_items l) with
          | Some rows =>
              match rows with
              | [] => Err ValueError
              | r0 :: _ =>
                  let c := List.length r0 in
                  if forallb (fun r => Nat.eqb (List.length r) c) rows then
                    match all_some (map num_of_elem (List.concat rows)) with
                    | Some d => Ok (VArr KF [Z.of_nat (List.length rows); Z.of_nat c] d)
                    | None => Err ValueError
                    end
                  else Err ValueError
              end
          | None => Err ValueError
          end
      end
  | VNumStr _ f => Ok (VArr KF [] [f])
  | VStr _ => Err ValueError
  | _ => match as_num v with
         | Some n => Ok (VArr KF [] [num_xf n])
         | None => Err TypeError
         end
  end.

Definition py_all_gen (p : val -> res bool) (it : val) : res bool :=
  match it with
  | VTuple l | VList l =>
      fold_right (fun x acc => bind (p x) (fun b => if b then acc else Ok false)) (Ok true) l
  | _ => Err TypeError
  end.
Definition py_any_gen (p : val -> res bool) (it : val) : res bool :=
  match it with
  | VTuple l | VList l =>
      fold_right (fun x acc => bind (p x) (fun b => if b then Ok true else acc)) (Ok false) l
  | _ => Err TypeError
  end.

(* squeeze: drop all axes of length one *)
Definition np_squeeze (v : val) : res val :=
  match v with
  | VArr k sh d | VNpArr k sh d => Ok (VArr k (filter (fun s => negb (Z.eqb s 1)) sh) d)
  | _ => match as_num v with Some _ => Ok v | None => Err TypeError end
  end.

(* full(n, fill) with a scalar-like fill *)
Definition np_full (n fill : val) : res val :=
  match as_num n, fill with
  | Some (NZ z), VArr k [] [x] => Ok (VArr k [z] (repeat x (Z.to_nat z)))
  | Some (NZ z), VArr _ _ _ => Err ValueError              (* cannot broadcast *)
  | Some (NZ z), _ =>
      match fill, as_num fill with
      | VStr _, _ | VNumStr _ _, _ => Err ValueError
      | _, Some (NZ i) => Ok (VArr KI [z] (repeat (xf_of_Z i) (Z.to_nat z)))
      | _, Some (NF f) => Ok (VArr KF [z] (repeat f (Z.to_nat z)))
      | _, None => Err TypeError
      end
  | _, _ => Err TypeError
  end.

(* a.reshape(-1, 1) *)
Definition np_reshape2 (a r c : val) : res val :=
  match a, r, c with
  | VArr k sh d, VInt (-1), VInt 1 => Ok (VArr k [Z.of_nat (List.length d); 1] d)
  | VArr _ _ _, _, _ => Err OtherError
  | _, _, _ => Err AttributeError
  end.

(* concatenate((a, b), axis=1) for 2-d arrays with equal row counts *)
Fixpoint take_rows {A} (c : nat) (rows : nat) (d : list A) : list (list A) :=
  match rows with O => [] | S r => firstn c d :: take_rows c r (skipn c d) end.
Definition np_concat_cols (t : val) : res val :=
  match t with
  | VTuple [VArr k [r1; c1] d1; VArr k2 [r2; c2] d2] =>
      if Z.eqb r1 r2 then
        Ok (VArr (match k, k2 with KF, _ | _, KF => KF | _, _ => k end) [r1; c1 + c2]
              (List.concat (zip_with (fun a b => a ++ b)
                         (take_rows (Z.to_nat c1) (Z.to_nat r1) d1)
                         (take_rows (Z.to_nat c2) (Z.to_nat r2) d2))))
      else Err TypeError          (* jax: dimensions must match *)
  | _ => Err TypeError
  end.

(* ------------------------------------------------------------------ *)
(* boolean-array operators, masks, where, builtin min over an array *)
Definition xf_lift2 (f : bool -> bool -> bool) (a b : xf) : xf := xf_of_bool (f (xf_truth a) (xf_truth b)).
Definition py_or_ (a b : val) : res val :=
  match a, b with
  | VBool x, VBool y => Ok (VBool (x || y))
  | VArr KB _ _, _ | _, VArr KB _ _ => broadcast2 (xf_lift2 orb) KB a b
  | _, _ => Err TypeError
  end.
Definition py_and_ (a b : val) : res val :=
  match a, b with
  | VBool x, VBool y => Ok (VBool (x && y))
  | VArr KB _ _, _ | _, VArr KB _ _ => broadcast2 (xf_lift2 andb) KB a b
  | _, _ => Err TypeError
  end.
Definition py_invert (v : val) : res val :=
  match v with
  | VArr KB sh d => Ok (VArr KB sh (map (fun x => xf_of_bool (negb (xf_truth x))) d))
  | VBool b => Ok (VInt (if b then -2 else -1))
  | _ => Err TypeError
  end.
(* a[mask] for 1-d a and a boolean mask of the same shape *)
Fixpoint select_mask (d m : list xf) : list xf :=
  match d, m with
  | x :: r, b :: t => if xf_truth b then x :: select_mask r t else select_mask r t
  | _, _ => []
  end.
Definition np_mask1 (a m : val) : res val :=
  match a, m with
  | VArr k [n] d, VArr KB [n'] md =>
      if Z.eqb n n' then let r := select_mask d md in Ok (VArr k [Z.of_nat (List.length r)] r) else Err IndexError
  | _, _ => Err TypeError
  end.
(* builtin min(iterable) over a 1-d array: first minimal element by <, NaN-unaware like Python *)
Definition py_min1 (v : val) : res val :=
  match v with
  | VArr k [_] (x :: r) => Ok (VArr k [] [fold_left (fun m y => if xf_ltb y m then y else m) r x])
  | VArr _ [_] [] => Err ValueError
  | _ => Err TypeError
  end.
(* where(cond, a, b) with cond, a arrays of one shape and b a scalar-like *)
Definition np_where (c a b : val) : res val :=
  match c, a, arr_data b with
  | VArr KB sh cd, VArr k sh2 ad, Some ([], [y]) =>
      if list_Z_eqb sh sh2 then Ok (VArr k sh (zip_with (fun t x => if xf_truth t then x else y) cd ad))
      else Err ValueError
  | _, _, _ => Err TypeError
  end.

Definition np_expand0 (v : val) : res val :=
  match v with VArr k sh d => Ok (VArr k (1 :: sh) d) | _ => Err TypeError end.
(* a[i] extended with boolean-mask indexing *)
Definition py_getitem2 (a i : val) : res val :=
  match a, i with
  | VArr _ [_] _, VArr KB _ _ => np_mask1 a i
  | _, _ => py_getitem a i
  end.

(* transpose (rank <= 2) and atleast_2d *)
Definition transpose2 {A} (r c : nat) (d : list A) (dflt : A) : list A :=
  flat_map (fun j => map (fun i => nth (i * c + j) d dflt) (seq 0 r)) (seq 0 c).
Definition np_T (v : val) : res val :=
  match v with
  | VArr k [r; c] d => Ok (VArr k [c; r] (transpose2 (Z.to_nat r) (Z.to_nat c) d XNaN))
  | VNpArr k [r; c] d => Ok (VNpArr k [c; r] (transpose2 (Z.to_nat r) (Z.to_nat c) d XNaN))
  | VArr k [n] d | VNpArr k [n] d => Ok v
  | VArr k [] d | VNpArr k [] d => Ok v
  | VJInt _ => Ok v
  | VArr _ _ _ => Err OtherError
  | _ => Err AttributeError
  end.
Definition np_atleast_2d (v : val) : res val :=
  match v with
  | VArr k [] d | VNpArr k [] d => Ok (VArr k [1; 1] d)
  | VArr k [n] d | VNpArr k [n] d => Ok (VArr k [1; n] d)
  | VArr _ _ _ => Ok v
  | VNpArr k sh d => Ok (VArr k sh d)
  | _ => match as_num v with Some n => Ok (VArr (match n with NZ _ => KI | NF _ => KF end) [1; 1] [num_xf n]) | None => Err TypeError end
  end.
