(* C17, repo-independent definitions: vocabulary of the generated inference tables (gen/C17Tables.v)
   and the hand-written models they parameterise.  Definitions only, no proofs.

   What these models carry is the WIRING of the optimisers into the estimator and the SHAPE of the loops
   (how many steps, what is recorded, which PRNG key each step uses) - not SciPy's line search, Adam's
   arithmetic or XLA: those are Section variables. *)
From Coq Require Import Reals List ZArith Bool String.
From MellonV Require Import PyVal.
Import ListNotations.

Inductive optimizer := OAdam | OAdvi | OLbfgsb.
Inductive routine := RAdam | RAdvi | RLbfgsb.
(* estimator attributes written by _run_inference *)
Inductive attr := APre | APreStd | AOptState | ALosses.
(* fields of the named tuples returned by the routines *)
Inductive field := FPre | FPreStd | FOptState | FLosses | FLoss.
Inductive src := SNone | SField (f : field) | SSingleton (f : field).
(* expressions behind the fields of minimize_lbfgsb's result *)
Inductive lexpr := EOptParams | EOptState | EOptFunVal | ELossAtInitial | EInitialValue.
Inductive idx_src := IdxLoopVar | IdxConst (z : Z).
Inductive app_src := AppStepValue | AppNothing.
Inductive trace_post := TPStack | TPNone.
Inductive key_source := KeyLoopIndex | KeyConst (z : Z).
Inductive std_expr := StdExp | StdId.
Inductive seed_kind := SeedParam | SeedDerivedKey | SeedConst | SeedGlobalState | SeedUnknown.

Record loop_skel := mkSkel {
  sk_offset : Z;              (* the loop runs range(n_iter + offset) *)
  sk_index : idx_src;         (* index handed to the step *)
  sk_appends : nat;           (* trace entries appended per iteration *)
  sk_appended : app_src;      (* what is appended: the value returned by the step *)
  sk_params_after_loop : bool;(* parameters are read from the state after the last step *)
  sk_post : trace_post        (* stack(losses): same length *)
}.

Definition attr_eqb (a b : attr) : bool :=
  match a, b with APre, APre | APreStd, APreStd | AOptState, AOptState | ALosses, ALosses => true | _, _ => false end.
Definition field_eqb (a b : field) : bool :=
  match a, b with FPre, FPre | FPreStd, FPreStd | FOptState, FOptState | FLosses, FLosses | FLoss, FLoss => true | _, _ => false end.

Fixpoint lookup_attr (a : attr) (w : list (attr * src)) : option src :=
  match w with [] => None | (b, s) :: r => if attr_eqb a b then Some s else lookup_attr a r end.
Fixpoint lookup_field {T} (f : field) (w : list (field * T)) : option T :=
  match w with [] => None | (g, s) :: r => if field_eqb f g then Some s else lookup_field f r end.

(* ------------------------------------------------------------------ _run_inference *)
Fixpoint find_optimizer (names : list (string * optimizer)) (s : string) : option optimizer :=
  match names with
  | [] => None
  | (n, o) :: r => if String.eqb s n then Some o else find_optimizer r s
  end.

(* outcome of _run_inference for the optimizer string s: the wiring that is applied, or the exception *)
Definition run_inference_model (names : list (string * optimizer)) (unknown : exn)
           (wiring : optimizer -> list (attr * src)) (s : string) : res (optimizer * list (attr * src)) :=
  match find_optimizer names s with
  | Some o => Ok (o, wiring o)
  | None => Err unknown
  end.

(* ------------------------------------------------------------------ L-BFGS-B *)
Section Lbfgsb.
  Variable Param : Type.
  Variable loss : Param -> R.
  Variable x0 : Param.
  (* what ScipyMinimize(method="L-BFGS-B").run(x0) returned *)
  Variable opt_params : Param.
  Variable opt_fun_val : R.

  Inductive lval := LParam (p : Param) | LReal (r : R) | LRealList (l : list R) | LOpaque | LNone.

  Definition lexpr_sem (e : lexpr) : lval :=
    match e with
    | EOptParams => LParam opt_params
    | EOptState => LOpaque
    | EOptFunVal => LReal opt_fun_val
    | ELossAtInitial => LReal (loss x0)
    | EInitialValue => LParam x0
    end.

  (* value of estimator attribute a after _run_inference with optimizer L-BFGS-B *)
  Definition lbfgsb_attr (fields : list (field * lexpr)) (wiring : list (attr * src)) (a : attr) : option lval :=
    match lookup_attr a wiring with
    | None => None
    | Some SNone => Some LNone
    | Some (SField f) => option_map lexpr_sem (lookup_field f fields)
    | Some (SSingleton f) =>
      match option_map lexpr_sem (lookup_field f fields) with
      | Some (LReal r) => Some (LRealList [r])
      | _ => None
      end
    end.
End Lbfgsb.
Arguments LParam {Param}. Arguments LReal {Param}. Arguments LRealList {Param}. Arguments LOpaque {Param}. Arguments LNone {Param}.

(* ------------------------------------------------------------------ the Adam / ADVI loops *)
Section Loop.
  Variable State Val : Type.
  Variable step : Z -> State -> Val * State.   (* (index, state) -> (recorded value, new state) *)

  Definition step_index (sk : loop_skel) (i : Z) : Z :=
    match sk_index sk with IdxLoopVar => i | IdxConst z => z end.

  Fixpoint loop_from (sk : loop_skel) (n : nat) (i : Z) (s : State) (trace : list Val) (idxs : list Z)
    : State * list Val * list Z :=
    match n with
    | O => (s, trace, idxs)
    | S n' =>
      let (v, s') := step (step_index sk i) s in
      let rec := match sk_appended sk with AppStepValue => repeat v (sk_appends sk) | AppNothing => [] end in
      loop_from sk n' (i + 1)%Z s' (trace ++ rec) (idxs ++ [step_index sk i])
    end.

  Definition iterations (sk : loop_skel) (n_iter : Z) : nat := Z.to_nat (n_iter + sk_offset sk).

  (* (final state, recorded trace, indices handed to the step) *)
  Definition run_loop (sk : loop_skel) (n_iter : Z) (s0 : State) : State * list Val * list Z :=
    loop_from sk (iterations sk n_iter) 0%Z s0 [] [].
End Loop.

(* PRNG keys used by ADVI: PRNGKey(index handed to the step), or a constant *)
Definition advi_keys (ks : key_source) (idxs : list Z) : list Z :=
  match ks with KeyLoopIndex => idxs | KeyConst z => map (fun _ => z) idxs end.

Definition std_sem (e : std_expr) (log_std : list R) : list R :=
  match e with StdExp => map exp log_std | StdId => log_std end.

(* ------------------------------------------------------------------ randomness sites *)
Definition seed_kind_seeded (k : seed_kind) : bool :=
  match k with SeedParam | SeedDerivedKey | SeedConst => true | _ => false end.

(* a site is admissible when its seed is an argument / a key derived from one / a constant, or when it is the
   k-means call inside parameters.compute_landmarks (reached only when no landmarks are given) *)
Definition site_ok (s : string * string * string * seed_kind) : bool :=
  let '(file, fn, callee, k) := s in
  seed_kind_seeded k
  || (String.eqb callee "sklearn.cluster.k_means" && String.eqb fn "compute_landmarks" && String.eqb file "mellon/parameters.py").

Definition on_inference_path (s : string * string * string * seed_kind) : bool :=
  let '(file, _, _, _) := s in String.eqb file "mellon/inference.py".
