(* PyVal extension for the file-codec logic of Predictor.to_json / from_json (C07). Models only. *)
From Coq Require Import ZArith QArith List Bool String Ascii.
From MellonV Require Import PyVal.
Import ListNotations.
Open Scope string_scope.

(* a pathlib.Path is modelled by its text: VDict [("__path__", VStr s)] (not a str instance) *)
Definition mk_path (s : string) : val := VDict [(VStr "__path__", VStr s)].
Definition py_str (v : val) : res val :=
  match v with
  | VStr s | VNumStr s _ => Ok (VStr s)
  | VDict [(VStr "__path__", VStr s)] => Ok (VStr s)
  | _ => Err OtherError
  end.

Fixpoint srev_acc (s acc : string) : string :=
  match s with EmptyString => acc | String c r => srev_acc r (String c acc) end.
Definition srev (s : string) : string := srev_acc s "".
Definition ends_with_s (suffix s : string) : bool := string_prefix (srev suffix) (srev s).

Definition str_endswith (v suffix : val) : res val :=
  match v, suffix with
  | VStr s, VStr t | VNumStr s _, VStr t => Ok (VBool (ends_with_s t s))
  | _, _ => Err AttributeError
  end.
(* + on two str concatenates, otherwise numeric + *)
Definition py_add_s (a b : val) : res val :=
  match a, b with
  | VStr s, VStr t => Ok (VStr (s ++ t))
  | _, _ => py_add a b
  end.
