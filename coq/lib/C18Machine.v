(* C18: symbolic state machine of the staged estimator API (hand-written once, parametric in the
   GENERATED tables and guard functions of gen/C18Gen.v).  Definitions only.

   state  = the bound x (an object with an identity, or None), the data it holds, and for every
            cached attribute an optional symbolic value;
   value  = [Canon a d]: "what _compute_a / the stage writing a yields from canonical inputs for data d"
            (each _compute_X is a deterministic function of the attributes it reads - the generated
            reads table - and of the constructor parameters), or [Mixed] when some input was not canonical.
   Every public method is expanded into micro steps (bind x through a generated guard, prepare one
   attribute, validate, run a stage); execution stops at the first failing micro step and keeps the
   state reached so far, like the Python code. *)
From Coq Require Import ZArith List Bool String.
From MellonV Require Import PyVal.
Import ListNotations.
Open Scope Z_scope.
Open Scope string_scope.

Inductive data := DX | DF.
Definition data_eqb (a b : data) : bool := match a, b with DX, DX | DF, DF => true | _, _ => false end.

Inductive term := Canon (a : string) (d : data) | Mixed.

(* ---- generated structure of one estimator ---- *)
Record table := {
  t_order : list string;                               (* prepare_inference: "SET_X", attribute names, "VALIDATE" *)
  t_reads : list (string * list string);               (* attribute / stage -> self.* state attributes it reads *)
  t_writes : list (string * list string);              (* stage -> state attributes it writes *)
  t_process_always : list string;                      (* stages of process_inference *)
  t_process_build : list string;                       (* ... only with build_predict *)
  t_predicts : list (string * string);                 (* lazy properties: attribute tested for None, stage called *)
  t_fit : list string                                  (* body of fit *)
}.

(* generated guards: validate -> self.x -> x -> result (the x to continue with / the new self.x) *)
Definition validator := val -> val -> val -> val -> res val.
Record guards := {
  g_set_x : validator -> val -> val -> res val;
  g_prepare : validator -> val -> val -> res val;
  g_fit_predict : validator -> val -> val -> res val
}.

(* ---- arguments a caller can offer for x ---- *)
Inductive arg := ANone | AOrig (d : data) | AJax (d : data) | ABound.

Record state := {
  sx : val;                      (* VNone or VObj "jax" id *)
  sdata : option data;
  sattrs : list (string * term);
  scount : Z                     (* source of fresh object identities *)
}.

Definition jax_id (d : data) : Z := match d with DX => 1 | DF => 2 end.
Definition orig_id (d : data) : Z := match d with DX => 11 | DF => 12 end.
Definition arg_val (s : state) (a : arg) : val :=
  match a with
  | ANone => VNone
  | AOrig d => VObj "np" (orig_id d)
  | AJax d => VObj "jax" (jax_id d)
  | ABound => sx s
  end.
Definition arg_data (s : state) (a : arg) : option data :=
  match a with AOrig d | AJax d => Some d | ANone | ABound => sdata s end.

(* validate_array / validate_time_x at the level of object identity: a float JAX array is returned
   unchanged, anything else is converted into a NEW array object *)
Definition validate_at (k : Z) : validator :=
  fun v _ _ _ =>
    match v with
    | VObj c i => if string_eqb c "jax" then Ok v else Ok (VObj "jax" (1000 + k))
    | _ => Err TypeError
    end.

Fixpoint lookup (a : string) (m : list (string * term)) : option term :=
  match m with
  | [] => None
  | (b, t) :: r => if string_eqb a b then Some t else lookup a r
  end.
Fixpoint slookup (a : string) (m : list (string * list string)) : list string :=
  match m with
  | [] => []
  | (b, t) :: r => if string_eqb a b then t else slookup a r
  end.

Definition is_canon (d : data) (t : option term) : bool :=
  match t with Some (Canon _ d') => data_eqb d d' | _ => false end.

(* all inputs of a computation are available (x: bound) *)
Definition ready (s : state) (rs : list string) : bool :=
  forallb (fun r => if string_eqb r "x" then match sdata s with Some _ => true | None => false end
                    else match lookup r (sattrs s) with Some _ => true | None => false end) rs.
Definition value_of (s : state) (d : data) (rs : list string) (a : string) : term :=
  if forallb (fun r => string_eqb r "x" || is_canon d (lookup r (sattrs s))) rs then Canon a d else Mixed.

Definition write (s : state) (rs ws : list string) : res state :=
  match sdata s with
  | Some d =>
      if ready s rs then
        Ok {| sx := sx s; sdata := sdata s; scount := scount s;
              sattrs := map (fun w => (w, value_of s d rs w)) ws ++ sattrs s |}
      else Err OtherError              (* "not ready": the Python code trips over a None *)
  | None => Err OtherError
  end.

Inductive gkind := GSetX | GPrepare | GFitPredict.
Inductive micro :=
  | MGuard (k : gkind) (a : arg)       (* offer an x through a guard: result is the x carried on *)
  | MSetX                               (* set_x on the carried x *)
  | MPrepareGuardCarried                (* prepare_inference's own guard on the carried x (inside fit) *)
  | MAttr (a : string)                  (* _prepare_attribute(a) *)
  | MCheck (name : string)              (* validate_parameter: reads only *)
  | MStage (name : string)              (* _run_inference / a _set_* stage *)
  | MLazy (attr stage : string).        (* property: build only when the attribute is None *)

(* the carried x lives in a pair with the state *)
Definition mstate := (state * val)%type.

Section Exec.
  Variable tb : table.
  Variable gs : guards.

  Definition bind_x (s : state) (newx : val) (d : option data) : state :=
    {| sx := newx; sdata := (match sdata s with Some d0 => Some d0 | None => d end);
       sattrs := sattrs s; scount := scount s |}.

  Definition exec (ms : mstate) (m : micro) (carried_data : option data) : res (mstate * option data) :=
    let (s, cx) := ms in
    match m with
    | MGuard k a =>
        let g := match k with GSetX => g_set_x gs | GPrepare => g_prepare gs | GFitPredict => g_fit_predict gs end in
        match g (validate_at (scount s)) (sx s) (arg_val s a) with
        | Ok x' => match k with
                   | GSetX => Ok ((bind_x s x' (arg_data s a), x'), arg_data s a)     (* set_x assigns self.x itself *)
                   | _ => Ok ((s, x'), arg_data s a)
                   end
        | Err e => Err e
        end
    | MPrepareGuardCarried =>
        match g_prepare gs (validate_at (scount s)) (sx s) cx with
        | Ok x' => Ok ((s, x'), carried_data)
        | Err e => Err e
        end
    | MSetX =>
        match g_set_x gs (validate_at (scount s)) (sx s) cx with
        | Ok x' => Ok ((bind_x s x' carried_data, x'), carried_data)
        | Err e => Err e
        end
    | MAttr a =>
        match lookup a (sattrs s) with
        | Some _ => Ok (ms, carried_data)
        | None => match write s (slookup a (t_reads tb)) [a] with
                  | Ok s' => Ok ((s', cx), carried_data) | Err e => Err e end
        end
    | MCheck nm =>
        match write s (slookup nm (t_reads tb)) [] with
        | Ok s' => Ok ((s', cx), carried_data) | Err e => Err e end
    | MStage nm =>
        match write s (slookup nm (t_reads tb)) (slookup nm (t_writes tb)) with
        | Ok s' => Ok ((s', cx), carried_data) | Err e => Err e end
    | MLazy a nm =>
        match lookup a (sattrs s) with
        | Some _ => Ok (ms, carried_data)
        | None => match write s (slookup nm (t_reads tb)) (slookup nm (t_writes tb)) with
                  | Ok s' => Ok ((s', cx), carried_data) | Err e => Err e end
        end
    end.

  (* run micro steps until the first failure; the state reached so far is kept *)
  Fixpoint exec_list (ms : mstate) (cd : option data) (l : list micro) : mstate * option exn :=
    match l with
    | [] => (ms, None)
    | m :: r => match exec ms m cd with
                | Ok (ms', cd') => exec_list ms' cd' r
                | Err e => (ms, Some e)
                end
    end.

  Definition order_micro : list micro :=
    map (fun a => if string_eqb a "SET_X" then MSetX
                  else if string_eqb a "VALIDATE" then MCheck "VALIDATE" else MAttr a) (t_order tb).
  Definition process_micro (build : bool) : list micro :=
    map MStage (t_process_always tb) ++ (if build then map MStage (t_process_build tb) else []).
  (* fit(x) = prepare_inference(x); run_inference(); process_inference(build_predict) on the carried x *)
  Definition fit_tail (build : bool) : list micro :=
    MPrepareGuardCarried :: order_micro ++ [MStage "_run_inference"] ++ process_micro build.

  Inductive op :=
    | OSetX (a : arg) | OPrepare (a : arg) | ORun | OProcess (build : bool) | OPredict (i : nat)
    | OFit (a : arg) | OFitPredict (a : arg).

  Definition expand (o : op) : list micro :=
    match o with
    | OSetX a => [MGuard GSetX a]
    | OPrepare a => MGuard GPrepare a :: order_micro
    | ORun => [MStage "_run_inference"]
    | OProcess b => process_micro b
    | OPredict i => match nth_error (t_predicts tb) i with Some (a, nm) => [MLazy a nm] | None => [] end
    | OFit a => MGuard GPrepare a :: order_micro ++ [MStage "_run_inference"] ++ process_micro true
    | OFitPredict a => MGuard GFitPredict a :: fit_tail false
    end.

  Definition tick (s : state) : state :=
    {| sx := sx s; sdata := sdata s; sattrs := sattrs s; scount := scount s + 1 |}.

  Definition step (s : state) (o : op) : state * option exn :=
    let '((s', _), e) := exec_list (s, VNone) None (expand o) in (tick s', e).

  Fixpoint run (s : state) (ops : list op) : state * list (option exn) :=
    match ops with
    | [] => (s, [])
    | o :: r => let (s', e) := step s o in let (s'', es) := run s' r in (s'', e :: es)
    end.

  Definition init : state := {| sx := VNone; sdata := None; sattrs := []; scount := 0 |}.
  Definition init_with (d : data) (presets : list string) : state :=
    {| sx := VNone; sdata := None; sattrs := map (fun a => (a, Canon a d)) presets; scount := 0 |}.

  (* ---- the reflexive side condition on the generated tables ---- *)
  Definition mem (a : string) (l : list string) : bool := existsb (string_eqb a) l.
  Definition subset (a b : list string) : bool := forallb (fun x => mem x b) a.
  (* every entry of the prepare order reads only x and attributes prepared earlier *)
  Fixpoint order_ok (before : list string) (l : list string) : bool :=
    match l with
    | [] => true
    | a :: r =>
        (if string_eqb a "SET_X" then true else subset (slookup a (t_reads tb)) ("x" :: before))
        && order_ok (a :: before) r
    end.
  Fixpoint stages_ok (avail : list string) (l : list string) : bool :=
    match l with
    | [] => true
    | nm :: r => subset (slookup nm (t_reads tb)) ("x" :: avail) && stages_ok (slookup nm (t_writes tb) ++ avail) r
    end.
  Definition order_respects_deps : bool :=
    match t_order tb with
    | first :: _ => string_eqb first "SET_X"
    | [] => false
    end
    && order_ok [] (t_order tb)
    && stages_ok (t_order tb) ("_run_inference" :: t_process_always tb ++ t_process_build tb)
    && forallb (fun p => stages_ok (t_order tb ++ slookup "_run_inference" (t_writes tb)
                                      ++ flat_map (fun nm => slookup nm (t_writes tb)) (t_process_always tb)) [snd p])
               (t_predicts tb)
    && list_eqb string_eqb (t_fit tb)
         ["self.prepare_inference(x)"; "self.run_inference()"; "self.process_inference(build_predict=build_predict)"; "return self"].

  (* ---- encodings for the executable correspondence ---- *)
  Definition enc_res (e : option exn) : val :=
    match e with
    | None => VStr "ok"
    | Some ValueError => VStr "ValueError"
    | Some _ => VStr "NotReady"
    end.
  Definition enc_state (universe : list string) (s : state) : val :=
    VList (VBool (match sx s with VNone => false | _ => true end)
           :: map (fun a => VBool (match lookup a (sattrs s) with Some _ => true | None => false end)) universe).
  Definition all_canon (universe : list string) (s : state) : bool :=
    forallb (fun a => match lookup a (sattrs s) with
                      | None => true
                      | Some (Canon b d) => string_eqb a b && match sdata s with Some d' => data_eqb d d' | None => false end
                      | Some Mixed => false end) universe.
  Definition run_enc (universe : list string) (s0 : state) (ops : list op) : res val :=
    let (s, es) := run s0 ops in
    Ok (VTuple [VList (map enc_res es); enc_state universe s; VBool (all_canon universe s);
                match sdata s with Some DX => VStr "X" | Some DF => VStr "F" | None => VStr "-" end]).
End Exec.

(* comparison used by the correspondence run: outcomes, which attributes are set (positions flagged in [mask] are
   attributes whose value is legitimately None, e.g. the landmarks of a full GP, and are exempt), the equality verdict
   and the bound data *)
Fixpoint flags_agree (mask : list bool) (a b : list val) : bool :=
  match mask, a, b with
  | [], [], [] => true
  | m :: mr, x :: ar, y :: br => (m || val_eqb x y) && flags_agree mr ar br
  | _, _, _ => false
  end.
Definition c18_compare (mask : list bool) (model : res val) (expected : val) : res val :=
  Ok (VBool match model, expected with
            | Ok (VTuple [r1; VList f1; c1; d1]), VTuple [r2; VList f2; c2; d2] =>
                val_eqb r1 r2 && flags_agree mask f1 f2 && val_eqb c1 c2 && val_eqb d1 d2
            | _, _ => false
            end).
