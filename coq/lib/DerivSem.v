(* C12, repo-independent definitions: the vocabulary of the generated wiring tables
   (gen/C12Wiring.v) and their per-row semantics.  Definitions only, no proofs.

   A predictor is abstracted by [umean : list R -> R], the value of its `_mean` on ONE
   prepared row (for time-aware predictors the row is state ++ [time]: the merge of
   validate_time_x, proved in C13).  All derivative methods are vmapped over rows with
   in_axes 0 for every argument, so a method is modelled on one row; the user's
   positional arguments of that row are [uargs : list (list R)]  ([x] or [state; [time]]). *)
From Coq Require Import Reals List ZArith Bool.
From MellonV Require Import ALists.
Import ListNotations.
Open Scope R_scope.

Inductive pcls := CPredictor | CExpPredictor | CPredictorTime.
Inductive meth := MGradient | MHessian | MHessLogDet | MTimeDerivative.
(* self.__call__ | self.mean | self._mean *)
Inductive callable := CCall | CMean | CUMean.
(* symbolic value of a local array inside a predictor method *)
Inductive argexpr :=
| ARaw (i : nat)                 (* i-th positional data argument as given *)
| A2d (a : argexpr)              (* ensure_2d (validate_array a): identity on a row *)
| AMerged                        (* validate_time_x(arg0, arg1, n_features, cast_scalar=True) *)
| AStateCols (a : argexpr)       (* a[:, :-1] *)
| ATimeCol (a : argexpr).        (* a[:, -1] *)
Inductive dfun := DGradient | DHessian | DHessLogDet.
Inductive post := PNone | PColumn (k : Z).
Inductive tail := TId | TExp | TSubLogN.
Inductive adop := AFun | AJacrev (a : adop) | AJacfwd (a : adop).
(* ISlogdetSquare: the per-row Hessian is reshaped to (d, d) (scalar-valued functions only);
   ISlogdetPerOutput: (d, d) when the function is scalar-valued (hess.size = d*d), one (d, d) block per output otherwise *)
Inductive inner_post := INone | ISlogdetSquare | ISlogdetPerOutput.
Inductive shape_target := SX | SXX | SEveryOther | SRows | SRowsOut.
Inductive center := CenX | CenLandmarks.

Record wiring := mkW { w_fun : dfun; w_callable : callable; w_args : list argexpr; w_post : post }.
Record drow := mkD { d_op : adop; d_inner : inner_post; d_thr : option nat;
                     d_small : shape_target; d_large : shape_target; d_atleast2d : bool }.

(* ------------------------------------------------------------------ rows *)
Fixpoint arg_sem (uargs : list (list R)) (a : argexpr) : list R :=
  match a with
  | ARaw i => nth i uargs []
  | A2d a' => arg_sem uargs a'
  | AMerged => concat uargs
  | AStateCols a' => removelast (arg_sem uargs a')
  | ATimeCol a' => [last (arg_sem uargs a') 0]
  end.

Inductive dval := VVec (v : list R) | VScal (r : R) | VMat (m : list (list R)) | VPair (s l : R).

Section Sem.
  (* tables (instantiated with the generated ones) *)
  Variable call_target mean_target : pcls -> option pcls.
  Variable mean_input : pcls -> argexpr.
  Variable mean_tail : pcls -> bool -> tail.
  Variable deriv_table : dfun -> drow.
  (* the predictor *)
  Variable umean : list R -> R.
  Variable logn : R.
  (* autodiff oracles: jax.jacrev on a scalar function of a vector, jax.jacfwd on a vector function,
     jax.numpy.linalg.slogdet *)
  Variable Drev : (list R -> R) -> list R -> list R.
  Variable Dfwd : (list R -> list R) -> list R -> list (list R).
  Variable slogdet : list (list R) -> R * R.

  Definition tail_sem (t : tail) (v : R) : R :=
    match t with TId => v | TExp => exp v | TSubLogN => v - logn end.

  (* the `mean` function object defined in class c, called with positional rows [args] and the
     default value (False) of its boolean flag *)
  Definition mean_body (c : pcls) (args : list (list R)) : R :=
    tail_sem (mean_tail c false) (umean (arg_sem args (mean_input c))).

  (* attribute look-up on an instance of class c *)
  Definition callable_sem (c : pcls) (k : callable) (args : list (list R)) : R :=
    match k with
    | CUMean => umean (nth 0 args [])
    | CMean => match mean_target c with Some c' => mean_body c' args | None => 0 end
    | CCall => match call_target c with Some c' => mean_body c' args | None => 0 end
    end.

  (* what calling the predictor returns *)
  Definition predict (c : pcls) (args : list (list R)) : R := callable_sem c CCall args.

  Definition grad_sem (op : adop) (f : list R -> R) (x : list R) : option (list R) :=
    match op with AJacrev AFun => Some (Drev f x) | _ => None end.
  Definition hess_sem (op : adop) (f : list R -> R) (x : list R) : option (list (list R)) :=
    match op with AJacfwd (AJacrev AFun) => Some (Dfwd (Drev f) x) | _ => None end.

  Definition apply_post (p : post) (v : dval) : option dval :=
    match p, v with
    | PNone, _ => Some v
    | PColumn k, VVec g => Some (VScal (nth (norm_index (length g) k) g 0))
    | _, _ => None
    end.

  (* one row of derivatives.<w_fun>(callable, a0, *rest) as wired by the method *)
  Definition method_value (c : pcls) (w : wiring) (uargs : list (list R)) : option dval :=
    match map (arg_sem uargs) (w_args w) with
    | [] => None
    | a0 :: rest =>
      let f := fun a => callable_sem c (w_callable w) (a :: rest) in
      let r := deriv_table (w_fun w) in
      match w_fun w, d_inner r with
      | DGradient, INone =>
        match grad_sem (d_op r) f a0 with Some g => apply_post (w_post w) (VVec g) | None => None end
      | DHessian, INone =>
        match hess_sem (d_op r) f a0 with Some h => apply_post (w_post w) (VMat h) | None => None end
      | DHessLogDet, ISlogdetSquare
      | DHessLogDet, ISlogdetPerOutput =>     (* f is scalar-valued here: hess.size = d * d, the (d, d) branch *)
        match hess_sem (d_op r) f a0 with
        | Some h => apply_post (w_post w) (VPair (fst (slogdet h)) (snd (slogdet h)))
        | None => None
        end
      | _, _ => None
      end
    end.
End Sem.

(* ------------------------------------------------------------------ shape model *)
Definition shape := list nat.
Fixpoint every_other (s : shape) : shape :=
  match s with
  | a :: _ :: r => a :: every_other r
  | [a] => [a]
  | [] => []
  end.
Definition sprod (s : shape) : nat := fold_right Nat.mul 1%nat s.

(* the predictor called on one row x[None, :] of shape (1, d) returns (1,) for scalar-valued predictors and
   (1, m) for m output columns *)
Definition call_out_shape (m : option nat) : shape :=
  match m with None => [1%nat] | Some k => [1%nat; k] end.

(* shape contract of the autodiff operators: out ++ in per application *)
Fixpoint adop_shape (op : adop) (out inp : shape) : shape :=
  match op with
  | AFun => out
  | AJacrev a | AJacfwd a => adop_shape a out inp ++ inp
  end.

Definition target_shape (t : shape_target) (xs raw : shape) : shape :=
  match t with
  | SX => xs
  | SXX => xs ++ tl xs
  | SEveryOther => every_other raw
  | SRows => firstn 1 xs
  | SRowsOut => every_other (firstn (length raw - 4) raw)    (* (n,) for scalar-valued functions, (n, m) for m outputs *)
  end.

(* raw vmapped result and the shape that is returned, for x of shape (n, d) *)
Definition raw_shape (r : drow) (n d : nat) (m : option nat) : shape :=
  n :: adop_shape (d_op r) (call_out_shape m) [1%nat; d].
Definition out_shape (r : drow) (n d : nat) (m : option nat) : shape :=
  let raw := raw_shape r n d m in
  match d_thr r with
  | Some thr => if (length raw <=? thr)%nat then target_shape (d_small r) [n; d] raw
                else target_shape (d_large r) [n; d] raw
  | None => target_shape (d_small r) [n; d] raw
  end.

(* ------------------------------------------------------------------ the affine read-out `_mean` *)
(* mu + dot(cov_func(Xnew, centers), weights) on one row, for an abstract kernel k *)
Definition readout (k : list R -> list R -> R) (mu : R) (w : list R) (B : list (list R)) (x : list R) : R :=
  mu + sum_list (map2 (fun wj bj => k x bj * wj) w B).
