(* MathComp instance of MatOps over an arbitrary real closed field, with the
   library oracles (cholesky, eigh-truncation, reduced qr) as parameters.
   solve_triangular reads only the stated triangle of its first argument:
   solve_lower T B := (lower part of T)^-1 B. *)
From mathcomp Require Import all_ssreflect all_algebra.
From MellonV Require Import MatOps.
Set Implicit Arguments.
Unset Strict Implicit.
Unset Printing Implicit Defensive.
Import Order.TTheory GRing.Theory Num.Theory.
Local Open Scope ring_scope.

Section Inst.
Variable F : rcfType.

Definition lowpart n (A : 'M[F]_n) : 'M[F]_n := \matrix_(i, j) (if (j <= i)%N then A i j else 0).
Definition uppart n (A : 'M[F]_n) : 'M[F]_n := \matrix_(i, j) (if (i <= j)%N then A i j else 0).
Definition diagof n (A : 'M[F]_n) : 'cV[F]_n := \col_i A i i.
Definition diagv n (v : 'cV[F]_n) : 'M[F]_n := \matrix_(i, j) (if i == j then v i 0 else 0).

Variable cholF : forall n : nat, 'M[F]_n -> 'M[F]_n.
Variable eigS : forall n p : nat, 'M[F]_n -> 'cV[F]_p.
Variable eigV : forall n p : nat, 'M[F]_n -> 'M[F]_(n, p).
Variable qrQ : forall n m k : nat, 'M[F]_(n, m) -> 'M[F]_(n, k).
Variable qrR : forall n m k : nat, 'M[F]_(n, m) -> 'M[F]_(k, m).

Definition MxOps : MatOps F (matrix F) := {|
  s0 := 0; s1 := 1;
  sadd := fun a b => a + b; ssub := fun a b => a - b; smul := fun a b => a * b;
  sdiv := fun a b => a / b; ssqrt := fun a => Num.sqrt a; sltb := fun a b => a < b;
  mmul := fun m n p (A : 'M_(m, n)) (B : 'M_(n, p)) => A *m B;
  mtr := fun m n (A : 'M_(m, n)) => A^T;
  madd := fun m n (A B : 'M_(m, n)) => A + B;
  msub := fun m n (A B : 'M_(m, n)) => A - B;
  mscale := fun m n a (A : 'M_(m, n)) => a *: A;
  meye := fun n => 1%:M;
  mconst := fun m n a => const_mx a;
  mdiagv := diagv;
  mdiagof := diagof;
  mmap := fun m n f (A : 'M_(m, n)) => map_mx f A;
  mmap2 := fun m n f (A B : 'M_(m, n)) => \matrix_(i, j) f (A i j) (B i j);
  mbcol := fun m n f (A : 'M_(m, n)) (v : 'cV_n) => \matrix_(i, j) f (A i j) (v j 0);
  msum0 := fun m n (A : 'M_(m, n)) => \col_j \sum_i A i j;
  msum1 := fun m n (A : 'M_(m, n)) => \col_i \sum_j A i j;
  chol := cholF;
  solve_lower := fun n p (T : 'M_n) (B : 'M_(n, p)) => invmx (lowpart T) *m B;
  solve_upper := fun n p (T : 'M_n) (B : 'M_(n, p)) => invmx (uppart T) *m B;
  eig_vals := fun n p A => eigS p A;
  eig_vecs := fun n p A => eigV p A;
  qr_q := fun n m k C => qrQ k C;
  qr_r := fun n m k C => qrR k C
|}.

(* ---- triangular matrices -------------------------------------------- *)
Definition is_lower n (A : 'M[F]_n) := forall i j : 'I_n, (i < j)%N -> A i j = 0.
Definition is_upper n (A : 'M[F]_n) := forall i j : 'I_n, (j < i)%N -> A i j = 0.

Lemma lowpart_id n (A : 'M[F]_n) : is_lower A -> lowpart A = A.
Proof.
move=> lA; apply/matrixP=> i j; rewrite mxE; case: leqP => // lt_ij; by rewrite lA.
Qed.

Lemma uppart_id n (A : 'M[F]_n) : is_upper A -> uppart A = A.
Proof.
move=> uA; apply/matrixP=> i j; rewrite mxE; case: leqP => // lt_ij; by rewrite uA.
Qed.

Lemma is_upper_tr n (A : 'M[F]_n) : is_lower A -> is_upper A^T.
Proof. by move=> lA i j lt_ji; rewrite mxE lA. Qed.

Lemma uppart_tr n (A : 'M[F]_n) : uppart A^T = (lowpart A)^T.
Proof. by apply/matrixP=> i j; rewrite !mxE. Qed.

Lemma lowpart_tr n (A : 'M[F]_n) : lowpart A^T = (uppart A)^T.
Proof. by apply/matrixP=> i j; rewrite !mxE. Qed.

Lemma lower_unit n (A : 'M[F]_n) :
  is_lower A -> (forall i, A i i != 0) -> A \in unitmx.
Proof.
move=> lA dA; rewrite unitmxE unitfE det_trig; last by apply/is_trig_mxP.
by apply/prodf_neq0 => i _.
Qed.

(* a lower-triangular matrix applied from the diagonal only: what
   solve_triangular(L.T, _, lower=True) or solve_triangular(L, _) would read *)
Lemma uppart_lower n (A : 'M[F]_n) : is_lower A -> uppart A = diagv (diagof A).
Proof.
move=> lA; apply/matrixP=> i j; rewrite !mxE.
case: (ltngtP i j) => [lt_ij|lt_ji|/val_inj ->]; rewrite ?eqxx //.
- by rewrite lA // ifN // neq_ltn lt_ij.
- by rewrite ifN // neq_ltn lt_ji orbT.
Qed.

(* ---- cholesky contract ---------------------------------------------- *)
Definition psd n (A : 'M[F]_n) := forall v : 'cV[F]_n, 0 <= (v^T *m A *m v) 0 0.
Definition pd n (A : 'M[F]_n) := forall v : 'cV[F]_n, v != 0 -> 0 < (v^T *m A *m v) 0 0.
Definition sym n (A : 'M[F]_n) := A^T = A.
Definition spd n (A : 'M[F]_n) := sym A /\ pd A.

(* what jnp.linalg.cholesky is assumed to return on a symmetric positive
   definite input (validated on every recorded call of a run) *)
Definition chol_of n (L A : 'M[F]_n) :=
  [/\ is_lower L, (forall i, 0 < L i i) & L *m L^T = A].

Definition chol_contract := forall n (A : 'M[F]_n), spd A -> chol_of (cholF A) A.

Lemma chol_of_unit n (L A : 'M[F]_n) : chol_of L A -> L \in unitmx.
Proof. by case=> lL dL _; apply: lower_unit => // i; rewrite lt0r_neq0. Qed.

(* solve_triangular contracts, derived from the definition above *)
Lemma solve_lowerP n p (T : 'M[F]_n) (B : 'M[F]_(n, p)) :
  is_lower T -> T \in unitmx -> T *m (invmx (lowpart T) *m B) = B.
Proof. by move=> lT uT; rewrite lowpart_id // mulmxA mulmxV // mul1mx. Qed.

Lemma solve_upperP n p (T : 'M[F]_n) (B : 'M[F]_(n, p)) :
  is_upper T -> T \in unitmx -> T *m (invmx (uppart T) *m B) = B.
Proof. by move=> lT uT; rewrite uppart_id // mulmxA mulmxV // mul1mx. Qed.

End Inst.
