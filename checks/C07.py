"""C07 — predictor persistence (JSON, gzip, bz2, dict, copy) is lossless.

Model: the state model coq/lib/Serial.v (ser/deser/kser/kdeser/pser/pdeser) is hand-written and tied by
the exact correspondence of this run; the file-codec decision functions py_to_json / py_from_json are
regenerated from mellon/base_predictor.py by translate/pylogic_io.py on every run.  Heap aliasing of
copy() and bit-identity of the evaluation methods are runtime facts checked by execution."""
import bz2
import gzip
import json
import logging
import os
import pathlib
import random
import shutil
import tempfile

import numpy as np

from translate.pylogic import Translator, Unsupported
from translate.pylogic_io import translate_io
from vlib import enc
from vlib.core import Broken, TRUSTED_COMMON, REPO, BUILD
from checks.C19 import encv, canon, kexpr_of, same_value

LEGACY = {"FullConditional": "FullConditionalMean", "ExpFullConditional": "ExpFullConditionalMean",
          "FullConditionalTime": "FullConditionalMeanTime", "LandmarksConditional": "LandmarksConditionalMean",
          "ExpLandmarksConditional": "ExpLandmarksConditionalMean", "LandmarksConditionalTime": "LandmarksConditionalMeanTime",
          "LandmarksConditionalCholesky": "LandmarksConditionalMeanCholesky",
          "ExpLandmarksConditionalCholesky": "ExpLandmarksConditionalMeanCholesky",
          "LandmarksConditionalCholeskyTime": "LandmarksConditionalMeanCholeskyTime"}


def translate():
    tr = Translator(REPO)
    translate_io(tr, "mellon.base_predictor.Predictor.to_json", "py_to_json")
    translate_io(tr, "mellon.base_predictor.Predictor.from_json", "py_from_json")
    return {"gen/C07Codec.v": tr.emit(header_imports=("PyVal", "PyValIO"))}, \
        ["mellon.base_predictor.Predictor.to_json", "mellon.base_predictor.Predictor.from_json"]


def strip(d, keep_version=True):
    """drop the volatile metadata entries (date, interpreter)"""
    if isinstance(d, dict):
        out = {}
        for k, v in d.items():
            if k == "metadata" and isinstance(v, dict):
                keys = ["classname", "module_name"] + (["module_version"] if keep_version and "cov_func" in d else [])
                out[k] = {kk: v[kk] for kk in keys}
            else:
                out[k] = strip(v, keep_version)
        return out
    if isinstance(d, list):
        return [strip(x, keep_version) for x in d]
    return d


def pstate_of(p):
    items = [(k, getattr(p, k)) for k in p._state_variables]
    items += [("n_input_features", p.n_input_features), ("n_obs", p.n_obs), ("_state_variables", p._state_variables)]
    return "(mk_pstate %s [%s] %s)" % (enc.coq_str(type(p).__name__),
                                       "; ".join("(%s, %s)" % (enc.coq_str(k), encv(v)) for k, v in items), kexpr_of(p.cov_func))


def outputs(p, X, timed, light=False):
    outs = {}

    def put(name, f):
        o = enc.outcome(f)
        if o[0] == "ok":
            parts = o[1] if isinstance(o[1], tuple) else (o[1],)
            outs[name] = [np.asarray(z) for z in parts]
        else:
            outs[name] = o[1]
    put("mean", lambda: p(X))
    put("mean_normalized", lambda: p(X, normalize=True))
    if light:
        put("covarianceTrue", lambda: p.covariance(X, diag=True))
        put("mean_covarianceFalse", lambda: p.mean_covariance(X, diag=False))
        return outs
    for dg in (True, False):
        put("covariance%s" % dg, lambda: p.covariance(X, diag=dg))
        put("mean_covariance%s" % dg, lambda: p.mean_covariance(X, diag=dg))
        put("uncertainty%s" % dg, lambda: p.uncertainty(X, diag=dg))
    put("gradient", lambda: p.gradient(X))
    put("hessian", lambda: p.hessian(X))
    put("hessian_log_determinant", lambda: p.hessian_log_determinant(X))
    if timed:
        put("time_derivative", lambda: p.time_derivative(X))
        put("multi_time", lambda: p(X[:, :-1], multi_time=[0.0, 1.0]))
    return outs


def shared_mutables(ka, kb, path="cov_func"):
    """paths of mutable attribute objects (list / dict / set / NumPy array) that two kernel expressions share by identity"""
    out = []
    if ka is None or kb is None or not hasattr(ka, "__dict__") or not hasattr(kb, "__dict__"):
        return out
    for name, va in vars(ka).items():
        vb = vars(kb).get(name)
        if hasattr(va, "__dict__") and callable(va):          # a nested kernel
            out += shared_mutables(va, vb, path + "." + name)
        elif isinstance(va, (list, dict, set, np.ndarray)) and va is vb:
            out.append(path + "." + name)
    return out


def same_outputs(a, b):
    bad = []
    for k in a:
        x, y = a[k], b.get(k)
        if isinstance(x, str) or isinstance(y, str):
            if x != y:
                bad.append(k)
            continue
        if len(x) != len(y) or any(u.shape != v.shape or u.dtype != v.dtype or u.tobytes() != v.tobytes() for u, v in zip(x, y)):
            bad.append(k)
    return bad


def magic(path):
    with open(path, "rb") as f:
        h = f.read(3)
    return "gzip" if h[:2] == b"\x1f\x8b" else ("bz2" if h == b"BZh" else "plain")


def run(ctx):
    import jax.numpy as jnp
    import mellon
    from mellon import Predictor
    mellon.logger.setLevel(logging.CRITICAL)
    rng = random.Random(ctx.seed)
    nrng = np.random.default_rng(ctx.seed)
    enc.NP_DISTINCT = True
    ctx.cov["trusted_base"] = TRUSTED_COMMON + [
        "coq/lib/Serial.v (hand-written state model; tie = exact correspondence of this run)",
        "translate/pylogic_io.py (with-statements -> the (opener, mode, path) triple; json/gzip/bz2/open are opaque oracles)",
        "packaging.version comparison (legacy flag) is an oracle; CPython json/gzip/bz2 text round trip is a contract exercised by every file case",
        "bit-identity of evaluation on identical state rests on XLA determinism (runtime; checked by execution)",
    ]
    gen = None
    try:
        gen, funcs = translate()
        ctx.cov["translated_functions"] = funcs
        ctx.build_props(gen)
    except Unsupported as u:
        ctx.broken.append(Broken("translation", "to_json/from_json", str(u)))

    import time as _time
    timing = {"translate+build": round(_time.time() - ctx.t0, 1)}
    _t = _time.time()
    # ---- predictors of the nine classes
    n = 16
    X = nrng.normal(size=(n, 2))
    # three time points of unequal sizes: the time predictors' n_obs (average cells per time point) is fractional (16/3)
    t = np.repeat([0.0, 1.0, 2.5], [5, 4, 7])
    Xt = np.concatenate([X, t[:, None]], axis=1)
    from mellon.cov import Matern52, ExpQuad
    kern = Matern52(1.2, active_dims=slice(None, None)) * 1.5 + ExpQuad(2.0, active_dims=[0, 1]) ** 2
    specs = []
    for unc in ((True, False) if ctx.thorough else (True,)):
        for gp, kw in (("full", dict(n_landmarks=0)), ("chol", dict(n_landmarks=6)), ("dtc", dict(n_landmarks=6, rank=0.8))):
            common = dict(predictor_with_uncertainty=unc, **kw)
            if unc:
                common.update(optimizer="advi", n_iter=3)
            u_ = "-unc" if unc else "-plain"      # tags name the files written below: they must be unique
            specs.append(("density-" + gp + u_, lambda c=common: mellon.DensityEstimator(cov_func=kern, **c).fit(X).predict, X, False))
            specs.append(("dim-" + gp + u_, lambda c=common: mellon.DimensionalityEstimator(k=4, **c).fit(X).predict, X, False))
            specs.append(("time-" + gp + u_, lambda c=common: mellon.TimeSensitiveDensityEstimator(ls_time=1.0, **c).fit(Xt).predict, Xt, True))
    if not ctx.thorough:
        specs.append(("density-full-nounc", lambda: mellon.DensityEstimator(n_landmarks=0).fit(X).predict, X, False))
        specs.append(("time-chol-nounc", lambda: mellon.TimeSensitiveDensityEstimator(ls_time=1.0, n_landmarks=6).fit(Xt).predict, Xt, True))
    tmp = tempfile.mkdtemp(dir=os.path.join(BUILD, "C07"))
    cases, meta, dist = [], [], {}
    classes_seen = set()
    trips = 0
    fit_s = 0.0
    try:
        for tag, make, Xq, timed in specs:
            _tf = _time.time()
            o = enc.outcome(make)
            fit_s += _time.time() - _tf
            if o[0] != "ok":
                ctx.broken.append(Broken("harness", "fit-" + tag, o[1]))
                continue
            p = o[1]
            cname = type(p).__name__
            classes_seen.add(cname)
            Q = Xq[:5] + 0.05
            ref = outputs(p, Q, timed)
            d0 = p.to_dict()
            # plain JSON-compatible data
            try:
                js = json.dumps(d0)
            except TypeError as e:
                ctx.violation("C07|%s|not-json" % cname, "to_dict() is not JSON-compatible data", {"class": cname, "error": str(e)})
                continue
            # model correspondence: serialised state and restored state
            exp1 = canon(strip(d0))
            cases.append(("Ok (pser %s %s)" % (enc.coq_str(d0["metadata"]["module_version"]), pstate_of(p)), "(Ok %s)" % encv(exp1)))
            meta.append({"what": "to_dict", "class": cname, "tag": tag})
            restored = {}

            def trip(kind, f):
                nonlocal trips
                trips += 1
                o2 = enc.outcome(f)
                if o2[0] != "ok":
                    ctx.violation("C07|%s|%s|%s" % (cname, kind, o2[1]), "round trip fails", {"class": cname, "route": kind, "exception": o2[1]})
                    return None
                q = o2[1]
                light = kind.startswith("file:")
                got = outputs(q, Q, timed, light)
                problems = same_outputs({k: v for k, v in ref.items() if k in got}, got)
                state_ok = type(q) is type(p) and q.n_obs == p.n_obs and q.n_input_features == p.n_input_features \
                    and repr(q.cov_func) == repr(p.cov_func) and set(q._state_variables) == set(p._state_variables) \
                    and all(same_value(getattr(q, k), getattr(p, k)) for k in p._state_variables)
                re_ok = canon(strip(q.to_dict())) == canon(strip(d0))
                if problems or not state_ok or not re_ok:
                    ctx.violation("C07|%s|%s" % (cname, kind), "restored predictor differs from the original",
                                  {"class": cname, "route": kind, "methods_differing": problems, "state_equal": state_ok,
                                   "reserialised_equal": re_ok})
                dist[kind.split(":")[0]] = dist.get(kind.split(":")[0], 0) + 1
                return q
            q = trip("dict", lambda: Predictor.from_dict(p.to_dict()))
            if q is not None:
                ver = enc.coq_str(d0["metadata"]["module_version"])
                q2 = Predictor.from_json_str(js)
                keys = list(d0["data"].keys())      # the order in which __setstate__ assigns the attributes
                lit = "(mk_pstate %s [%s] %s)" % (enc.coq_str(type(q2).__name__),
                                                  "; ".join("(%s, %s)" % (enc.coq_str(k), encv(getattr(q2, k))) for k in keys),
                                                  kexpr_of(q2.cov_func))
                cases.append(("rmap (pser %s) (bind (json_rt (pser %s %s)) (pdeser false 8))" % (ver, ver, pstate_of(p)),
                              "(Ok (pser %s %s))" % (ver, lit)))
                meta.append({"what": "from_json(to_json)", "class": cname, "tag": tag})
            trip("json-str", lambda: Predictor.from_json_str(p.to_json()))
            c = trip("copy", lambda: p.copy())
            if c is not None:
                shared = [k for k in p._state_variables if getattr(c, k) is getattr(p, k) and not isinstance(getattr(p, k), (int, float))]
                aliased = c._state_variables is p._state_variables or c.cov_func is p.cov_func
                # mutable attributes anywhere in the kernel expression (list-valued active_dims ...) must not be shared either:
                # by the copy, by from_dict(to_dict()), or by two predictors read from one dictionary
                d_once = p.to_dict()
                q_a, q_b = Predictor.from_dict(d_once), Predictor.from_dict(d_once)
                nested = (["copy:" + x for x in shared_mutables(c.cov_func, p.cov_func)]
                          + ["from_dict(to_dict()):" + x for x in shared_mutables(q_a.cov_func, p.cov_func)]
                          + ["two from_dict of one dict:" + x for x in shared_mutables(q_a.cov_func, q_b.cov_func)])
                if nested:
                    ctx.violation("C07|%s|copy-aliasing|kernel" % cname, "a restored predictor shares a mutable kernel attribute with its source",
                                  {"class": cname, "shared": nested, "kernel": repr(p.cov_func)})
                # reading a dictionary must not consume it: the second read gives the same predictor, the dictionary is unchanged
                trips += 1
                if canon(strip(d_once)) != canon(strip(d0)) or q_b.n_obs != p.n_obs or q_a.n_obs != p.n_obs \
                        or canon(strip(q_b.to_dict())) != canon(strip(d0)):
                    ctx.violation("C07|%s|dict-read-twice" % cname, "from_dict changes the dictionary it reads / a second read differs from the first",
                                  {"class": cname, "n_obs": [repr(p.n_obs), repr(q_a.n_obs), repr(q_b.n_obs)],
                                   "dictionary_unchanged": canon(strip(d_once)) == canon(strip(d0))})
                # serialise, modify, serialise again: what is written is the CURRENT state
                trips += 1
                c2 = p.copy()
                _ = (c2.to_json(), c2.to_dict())
                c2.n_obs = 777                       # metadata alone first (the documented way to complete a legacy predictor) ...
                r1 = enc.outcome(lambda: (Predictor.from_json_str(c2.to_json()), Predictor.from_dict(c2.to_dict()), c2.copy()))
                c2.mu = c2.mu * 0 + 0.25             # ... then a state variable
                r2 = enc.outcome(lambda: (Predictor.from_json_str(c2.to_json()), Predictor.from_dict(c2.to_dict()), c2.copy()))
                if r1[0] != "ok" or any(r.n_obs != 777 for r in r1[1]):
                    r2 = r1
                if r2[0] != "ok" or any(r.n_obs != 777 for r in r2[1]) or (r2 is not r1 and any(not same_value(r.mu, c2.mu) for r in r2[1])):
                    ctx.violation("C07|%s|serialise-modify-serialise" % cname, "a predictor modified after a first serialisation is written with stale state",
                                  {"class": cname, "expected_n_obs": 777,
                                   "observed": r2[1] if r2[0] == "err" else [repr(r.n_obs) for r in r2[1]]})
                c._state_variables.add("zzz")
                c.mu = 123.0
                mutated = "zzz" in p._state_variables or p.mu == 123.0
                if shared or aliased or mutated:
                    ctx.violation("C07|%s|copy-aliasing" % cname, "copy() shares mutable state with its source",
                                  {"class": cname, "shared_attributes": shared, "aliased_containers": aliased, "source_mutated": mutated})
            # files: keyword x filename form
            forms = [("str-noext", "p_%s.json", str), ("str-gz", "p_%s.json.gz", str), ("str-bz2", "p_%s.json.bz2", str),
                     ("path-noext", "q_%s.json", pathlib.Path), ("path-gz", "q_%s.json.gz", pathlib.Path),
                     ("path-bz2", "q_%s.json.bz2", pathlib.Path)]
            if not ctx.thorough and len(classes_seen) > 3:
                forms = forms[1:2] + forms[4:5]
            for fname, pat, ctor in forms:
                for comp in (None, "gzip", "bz2"):
                    if ctor is pathlib.Path and comp == "bz2" and pat.endswith(".gz"):
                        continue        # keyword contradicts the extension of a Path (excluded, see CodecThm.contradictory)
                    base = os.path.join(tmp, pat % (tag + "_" + fname + "_" + str(comp)))
                    fn = ctor(base)
                    before = set(os.listdir(tmp))
                    ow = enc.outcome(lambda: p.to_json(fn, compress=comp))
                    new = sorted(set(os.listdir(tmp)) - before)
                    if ow[0] != "ok" or len(new) != 1:
                        ctx.violation("C07|%s|write|%s|%s" % (cname, fname, comp), "to_json fails", {"filename": str(fn), "compress": comp})
                        continue
                    wpath = os.path.join(tmp, new[0])
                    codec = magic(wpath)
                    # model: which opener / path
                    if gen is not None:
                        fv = "(VStr %s)" % enc.coq_str(base) if ctor is str else "(mk_path %s)" % enc.coq_str(base)
                        opener = {"gzip": "gzip.open", "bz2": "bz2.open", "plain": "open"}[codec]
                        mode = "w" if codec == "plain" else "wt"
                        wv = "(VStr %s)" % enc.coq_str(wpath) if ctor is str else "(mk_path %s)" % enc.coq_str(wpath)
                        cases.append(("py_to_json %s %s" % (fv, enc.val(comp)),
                                      "(Ok (VTuple [VStr %s; VStr %s; %s]))" % (enc.coq_str(opener), enc.coq_str(mode), wv)))
                        meta.append({"what": "to_json-codec", "class": cname, "form": fname, "compress": comp, "written": codec})
                    readers = [comp]
                    if ctor is str or comp is None:
                        readers.append(None)
                    for rc in readers:
                        trip("file:%s:%s:%s" % (fname, comp, rc), lambda: Predictor.from_json(ctor(wpath), compress=rc))
            # legacy (< 1.4.0) dictionaries
            d1 = json.loads(js)
            d1["metadata"]["module_version"] = "1.3.1"
            d1["metadata"]["classname"] = LEGACY[cname]
            d1["data"].pop("n_obs", None)
            d1["data"].pop("_state_variables", None)
            ol = enc.outcome(lambda: Predictor.from_dict(json.loads(json.dumps(d1))))
            trips += 1
            if ol[0] != "ok":
                ctx.violation("C07|%s|legacy|%s" % (cname, ol[1]), "a pre-1.4.0 dictionary does not load", {"class": cname})
            else:
                ql = ol[1]
                # a legacy dictionary carries no n_obs (expected None below): normalised prediction is refused by design
                pr = {k: v for k, v in ref.items() if k != "mean_normalized"}
                got = {k: v for k, v in outputs(ql, Q, timed).items() if k != "mean_normalized"}
                if type(ql) is not type(p) or ql.n_obs is not None or same_outputs(pr, got):
                    ctx.violation("C07|%s|legacy" % cname, "a pre-1.4.0 dictionary loads to a different predictor",
                                  {"class": cname, "n_obs": repr(ql.n_obs), "methods_differing": same_outputs(pr, got)})
                if gen is not None:
                    keys = list(d1["data"].keys()) + ["n_obs", "_state_variables"]
                    # the upgrade builds the set from the dictionary keys: the model keeps that order (sets are unordered in Python)
                    sv_order = [k for k in keys[:-1] if k != "n_input_features"]
                    sv_lit = "(VSet [%s])" % "; ".join(enc.val(k) for k in sv_order)
                    if set(sv_order) != set(ql._state_variables):
                        ctx.violation("C07|%s|legacy-state-variables" % cname, "legacy upgrade computes the wrong _state_variables",
                                      {"class": cname, "expected": sorted(sv_order), "observed": sorted(ql._state_variables)})
                    lit = "(mk_pstate %s [%s] %s)" % (enc.coq_str(type(ql).__name__),
                                                      "; ".join("(%s, %s)" % (enc.coq_str(k), sv_lit if k == "_state_variables" else encv(getattr(ql, k))) for k in keys),
                                                      kexpr_of(ql.cov_func))
                    cases.append(("rmap (pser \"1.3.1\") (pdeser true 8 %s)" % encv(canon(strip(d1))),
                                  "(Ok (pser \"1.3.1\" %s))" % lit))
                    meta.append({"what": "legacy-upgrade", "class": cname, "tag": tag})
            # extreme values in the state (bitwise preservation)
            e = p.copy()
            w = np.asarray(e.weights, dtype=float).copy()
            flat = w.reshape(-1)
            flat[: min(5, flat.size)] = [1e300, 5e-324, -0.0, float("nan"), float("inf")][: min(5, flat.size)]
            e.weights = jnp.asarray(w)
            e.mu = -1e-310
            oe = enc.outcome(lambda: Predictor.from_json_str(e.to_json()))
            trips += 1
            if oe[0] != "ok" or not same_value(oe[1].weights, e.weights) or not same_value(float(oe[1].mu), float(e.mu)):
                ctx.violation("C07|%s|extreme-values" % cname, "extreme / non-finite state values are not preserved bit for bit",
                              {"class": cname, "observed": oe[1] if oe[0] == "err" else "differs"})
    finally:
        shutil.rmtree(tmp, ignore_errors=True)
    timing["fits"] = round(fit_s, 1)
    timing["round trips"] = round(_time.time() - _t - fit_s, 1)
    _t = _time.time()
    if gen is not None and cases:
        try:
            bad = ctx.run_cases("c07", "PyVal PyValIO Serial C07Codec", cases, shard=40)
        except Broken as b:
            ctx.broken.append(b)
            bad = {}
        for i, shown in list(bad.items())[:20]:
            ctx.broken.append(Broken("correspondence", meta[i]["what"], "case %r: model gives %s" % (meta[i], shown[:600])))
    if len(classes_seen) < 9:
        ctx.broken.append(Broken("harness", "class-coverage", "only %d of 9 predictor classes built: %s" % (len(classes_seen), sorted(classes_seen))))
    timing["model evaluation in Coq (%d cases)" % len(cases)] = round(_time.time() - _t, 1)
    ctx.cov["timing_s"] = timing
    ctx.cov["evaluations"] = len(cases) + trips
    ctx.cov["traces_validated_against_impl"] = len(cases)
    ctx.cov["distinct_nontrivial"] = len({json.dumps(m_, sort_keys=True) for m_ in meta})
    ctx.cov["rule"] = ("%d fitted predictors covering the 9 classes (with uncertainty; composite kernel with active_dims): to_dict / "
                       "from_json(to_json) / pre-1.4.0 upgrade compared exactly with the Gallina state model evaluated in Coq; the codec and path "
                       "chosen by to_json for each (filename form x compress) compared with the generated py_to_json; %d round trips (dict, JSON "
                       "string, copy, files by keyword and by extension, legacy dictionaries, extreme state values) checked for bit-identical "
                       "mean / covariance / mean_covariance / uncertainty / gradient / hessian / log-determinant (+ time methods), preserved "
                       "class, n_obs, feature count, kernel, equal re-serialisation, no aliasing after copy()." % (len(specs), trips))
    ctx.cov["input_distribution"] = dist
    ctx.cov["classes"] = sorted(classes_seen)
    ctx.cov["samples"] = meta[:3] + meta[-2:]
