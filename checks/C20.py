"""C20 — degenerate and dirty inputs are sanitised or refused, never propagated."""
import itertools
import logging
import math
import random

import numpy as np

from translate.pylogic import Translator, Unsupported
from vlib import enc
from vlib.core import Broken, TRUSTED_COMMON, REPO

VALIDATORS = ["validate_nn_distances", "validate_float_or_int", "validate_positive_float", "validate_float",
              "validate_positive_int", "validate_bool", "validate_string", "validate_float_or_iterable_numerical",
              "validate_1d", "validate_array"]


def translate():
    tr = Translator(REPO)
    for f in VALIDATORS:
        tr.translate("mellon.validation." + f)
    tr.translate("mellon.util.ensure_2d")
    return {"gen/Validators.v": tr.emit(header_imports=("PyVal",))}, ["mellon.validation." + f for f in VALIDATORS] + ["mellon.util.ensure_2d"]


class NumStr(str):
    pass


def encval(v):
    """like enc.val but numeric strings become VNumStr (float() of the text is part of the literal)"""
    if isinstance(v, str):
        try:
            f = float(v)
        except ValueError:
            return enc.val(v)
        return "(VNumStr %s %s)" % (enc.coq_str(v), enc.xf(f))
    return enc.val(v)


def grammar():
    import jax.numpy as jnp
    vals = [None, True, False, 0, 5, -3, 0.0, 2.5, -1.5, float("nan"), float("inf"), float("-inf"),
            "3.5", "-2", "abc", "", "nan",
            np.float64(1.25), np.float64("nan"), np.int64(4),
            np.asarray(2.0), np.asarray(float("nan")), jnp.asarray(2.0), jnp.asarray(3), np.asarray(7), jnp.asarray(float("nan")),
            np.float32("nan"), np.float32(1.5), jnp.asarray([float("nan")]),
            np.asarray([1.5]), np.asarray([[0.5]]), np.asarray([-1.0]), np.asarray([float("nan")]),
            np.asarray([1.0, 2.0]), np.zeros((2, 2)), np.asarray([], dtype=float),
            [1.0, 2.0], [1.5], [], (2.0,), {"a": 1.0}, {1.0, 2.0}, slice(0, 2)]
    return vals


def run(ctx):
    import jax.numpy as jnp
    import mellon
    import mellon.validation as V
    from mellon.util import ensure_2d
    mellon.logger.setLevel(logging.CRITICAL)
    logging.getLogger("mellon.validation").setLevel(logging.CRITICAL)
    rng = random.Random(ctx.seed)
    nrng = np.random.default_rng(ctx.seed)
    enc.NP_DISTINCT = True
    ctx.cov["trusted_base"] = TRUSTED_COMMON + [
        "CPython float()/int()/isinstance and jnp.isnan/isinf/where/asarray semantics as written in coq/lib/PyVal.v (compared exactly with the implementation on the whole value grammar each run)",
        "numeric strings are modelled as VNumStr (the text together with what float() returns for it)",
    ]
    ctx.assumptions += ["float overflow/underflow on accepted inputs is outside the real/rational model: covered only by the finiteness checks of the dirty-data fits (support, not proof)"]
    gen = None
    try:
        gen, funcs = translate()
        ctx.cov["translated_functions"] = funcs
        ctx.build_props(gen)
    except Unsupported as u:
        ctx.broken.append(Broken("translation", "C20 targets", str(u)))

    cases, meta, dist = [], [], {}

    def add(fn, args, model_args, tag):
        o = enc.outcome(lambda: fn(*args))
        if o[0] == "ok" and hasattr(o[1], "shape") and not isinstance(o[1], (np.generic,)):
            o = ("ok", o[1])
        try:
            exp = "(Ok %s)" % encval(o[1]) if o[0] == "ok" else enc.res(o)
        except TypeError:
            return
        cases.append(("py_%s %s" % (tag, " ".join(model_args)), exp))
        meta.append({"validator": tag, "args": [repr(a)[:60] for a in args], "impl": "ok" if o[0] == "ok" else o[1]})
        k = "%s/%s" % (tag, meta[-1]["impl"])
        dist[k] = dist.get(k, 0) + 1
        return o

    # ---- A. scalar validators over the value grammar
    def is_nan(r):
        try:
            return bool(np.isnan(np.asarray(r, dtype=float)).any())
        except (TypeError, ValueError):
            return False

    for v in grammar():
        # independent oracle (property text): a NaN scalar, in whatever container it arrives, is refused by the scalar validators,
        # and the "positive" validators never hand back a value that is not > 0
        for name in ("validate_float", "validate_float_or_int", "validate_positive_float"):
            for opt in (False, True):
                o = enc.outcome(lambda: getattr(V, name)(v, "p", opt))
                dist["oracle/" + name] = dist.get("oracle/" + name, 0) + 1
                if o[0] == "ok" and o[1] is not None and is_nan(o[1]):
                    ctx.violation("C20|%s|nan-accepted" % name, "a NaN scalar is accepted by a scalar validator",
                                  {"validator": name, "value": repr(v), "type": type(v).__name__, "optional": opt, "returned": repr(o[1])})
                if name == "validate_positive_float" and o[0] == "ok" and o[1] is not None and not is_nan(o[1]) and not float(np.asarray(o[1], dtype=float)) > 0:
                    ctx.violation("C20|%s|non-positive-accepted" % name, "a non-positive value is accepted by the positive-float validator",
                                  {"validator": name, "value": repr(v), "optional": opt, "returned": repr(o[1])})
        if isinstance(v, np.float32):
            continue            # the value universe of the model has no float32 (not a Python float): property-text oracle only
        try:
            mv = encval(v)
        except TypeError:
            continue
        for opt in (False, True):
            for name in ("validate_float_or_int", "validate_positive_float", "validate_float", "validate_positive_int", "validate_bool"):
                add(getattr(V, name), (v, "p", opt), [mv, '(VStr "p")', enc.val(opt)], "validation_" + name)
            for pos in (False, True):
                add(V.validate_float_or_iterable_numerical, (v, "p", opt, pos), [mv, '(VStr "p")', enc.val(opt), enc.val(pos)],
                    "validation_validate_float_or_iterable_numerical")
            for nd in (None, 2, (1, 2)):
                add(V.validate_array, (v, "p", opt, nd), [mv, '(VStr "p")', enc.val(opt), enc.val(nd)], "validation_validate_array")
        for choices in (None, {"adam", "advi", "L-BFGS-B"}):
            ch = "VNone" if choices is None else "(VSet [%s])" % "; ".join(enc.val(c) for c in sorted(choices))
            o = add(V.validate_string, (v, "p", choices), [mv, '(VStr "p")', ch], "validation_validate_string")
            if o is not None and o[0] == "ok" and (not isinstance(v, str) or (choices and v not in choices)):
                ctx.violation("C20|validate_string|accepted", "a value outside the allowed option strings is accepted",
                              {"value": repr(v), "choices": sorted(choices) if choices else None})
        if not isinstance(v, (str, dict, set, slice)) and v is not None:
            add(V.validate_1d, (v,), [mv], "validation_validate_1d")
        if isinstance(v, np.ndarray) or hasattr(v, "devices"):
            add(ensure_2d, (v,), [mv], "util_ensure_2d")
    for sv in ("Adam", "ADVI", "l-bfgs-b"):
        o = enc.outcome(lambda: V.validate_string(sv, "p", {"adam", "advi", "L-BFGS-B"}))
        if o != ("err", "ValueError"):
            ctx.violation("C20|validate_string|case-variant", "an option string that is not one of the choices is accepted",
                          {"value": sv, "observed": o[1] if o[0] == "err" else "accepted"})
    add(V.validate_string, ("adam", "p", {"adam", "advi"}), ['(VStr "adam")', '(VStr "p")', '(VSet [(VStr "adam"); (VStr "advi")])'], "validation_validate_string")

    # ---- B. nn_distances: every pattern of {valid, NaN, inf, -inf, 0, negative} up to length 3, random beyond
    atoms = [2.0, 0.5, 8.0, float("nan"), float("inf"), float("-inf"), 0.0, -1.0]
    pats = [list(p) for k in (1, 2, 3) for p in itertools.product(atoms, repeat=k)]
    # tiny but valid distances (near-duplicate cells, small units of length) must be left alone: no absolute threshold
    tiny = [3e-9, 2.5e-12, 1e-300]
    pats += [[t] for t in tiny] + [[3e-9, 0.5], [0.5, 3e-9, float("nan")], [1e-300, 2.0, 0.0], [1e-300, 1.0, -1.0], [2.5e-12, 3e-9, float("inf"), 8.0]]
    for _ in range(200 if ctx.thorough else 40):
        k = rng.randrange(4, 12)
        pats.append([rng.choice(atoms + tiny[:2] + [rng.randrange(1, 64) / 16.0]) for _ in range(k)])
    nn_bad = 0
    for p in pats:
        arr = jnp.asarray(p)
        for opt in (False,):
            o = add(V.validate_nn_distances, (arr, opt), [enc.val(arr), enc.val(opt)], "validation_validate_nn_distances")
            # independent oracle: the property statement
            valid = [x for x in p if math.isfinite(x) and x > 0]
            if not valid:
                ok = o == ("err", "ValueError")
            else:
                m = min(valid)
                exp = [x if (math.isfinite(x) and x > 0) else m for x in p]
                ok = o[0] == "ok" and np.array_equal(np.asarray(o[1]), np.asarray(exp))
            if not ok:
                nn_bad += 1
                ctx.violation("C20|validate_nn_distances|pattern", "invalid distances are not replaced by the smallest valid one / refused",
                              {"nn_distances": [repr(x) for x in p], "observed": o[1] if o[0] == "err" else np.asarray(o[1]).tolist()})
    add(V.validate_nn_distances, (None, True), ["VNone", "(VBool true)"], "validation_validate_nn_distances")
    add(V.validate_nn_distances, (None, False), ["VNone", "(VBool false)"], "validation_validate_nn_distances")

    if gen is not None:
        try:
            bad = ctx.run_cases("c20", "PyVal Validators", cases, shard=300)
        except Broken as b:
            ctx.broken.append(b)
            bad = {}
        for i, shown in list(bad.items())[:20]:
            ctx.broken.append(Broken("correspondence", meta[i]["validator"], "case %r: model gives %s" % (meta[i], shown)))

    # ---- C. dirty-data fits (support): accepted inputs give finite values, degenerate ones are refused
    fits = 0
    n = 20
    base = nrng.normal(size=(n, 2))

    def finite_fit(tag, make, X, **kw):
        nonlocal fits
        fits += 1

        def go():
            est = make(**kw)
            f = np.asarray(est.fit_predict(X))
            q = np.asarray(est.predict(np.asarray(est.x)[:5] + 0.1))
            return f, q, np.asarray(est.nn_distances)
        o = enc.outcome(go)
        if o[0] == "err":
            ctx.violation("C20|fit|%s|%s" % (tag, o[1]), "accepted dirty input fails", {"case": tag, "exception": o[1]})
            return
        f, q, nn = o[1]
        if not (np.all(np.isfinite(f)) and np.all(np.isfinite(q)) and np.all(np.isfinite(nn)) and np.all(nn > 0)):
            ctx.violation("C20|fit|%s|non-finite" % tag, "accepted dirty input yields non-finite values",
                          {"case": tag, "fitted_finite": bool(np.all(np.isfinite(f))), "pred_finite": bool(np.all(np.isfinite(q)))})
    D = mellon.DensityEstimator
    some = np.random.default_rng(0).normal(size=(n, 2)); some[3] = some[2]; some[7] = some[2]
    many = base.copy(); many[: n // 2] = many[0]
    finite_fit("duplicates-some", D, some)
    finite_fit("duplicates-many", D, many)
    finite_fit("constant-column", D, np.concatenate([base, np.ones((n, 1))], axis=1))
    finite_fit("one-dimensional", D, base[:, 0])
    finite_fit("list-container", D, base.tolist())
    finite_fit("int-dtype", D, (base * 10).astype(int))
    try:
        import scipy.sparse as sp
        finite_fit("sparse-matrix", D, sp.csr_matrix(base))
    except ImportError:
        pass
    dirty_nn = np.abs(nrng.normal(size=n)) + 0.1
    dirty_nn[[0, 3, 5, 9]] = [np.nan, np.inf, 0.0, -2.0]
    finite_fit("dirty-nn_distances", D, base, nn_distances=dirty_nn)
    finite_fit("dim-duplicates", mellon.DimensionalityEstimator, some, k=5)       # known finding (see known_findings.jsonl)
    if ctx.thorough:
        Xt = np.concatenate([some, np.repeat([0.0, 1.0], n // 2)[:, None]], axis=1)
        finite_fit("time-duplicates", mellon.TimeSensitiveDensityEstimator, Xt)
    refusals = [
        ("all-duplicates", lambda: D().fit(np.ones((n, 2))), {"ValueError"}),
        ("all-invalid-nn", lambda: D(nn_distances=np.full(n, np.nan)), {"ValueError"}),
        ("ls-nan", lambda: D(ls=float("nan")), {"ValueError"}),
        ("ls-negative", lambda: D(ls=-1.0), {"ValueError"}),
        ("ls-zero", lambda: D(ls=0), {"ValueError"}),
        ("jitter-zero", lambda: D(jitter=0.0), {"ValueError"}),
        ("mu-nan", lambda: D(mu=float("nan")), {"ValueError"}),
        ("jit-string", lambda: D(jit="yes"), {"TypeError"}),
        ("uncertainty-int", lambda: D(predictor_with_uncertainty=1), {"TypeError"}),
        ("optimizer-unknown", lambda: D(optimizer="sgd"), {"ValueError"}),
        ("optimizer-case-variant", lambda: D(optimizer="Adam"), {"ValueError"}),
        ("d_method-unknown", lambda: D(d_method="bogus"), {"ValueError"}),
        ("d_method-case-variant", lambda: D(d_method="Fractal"), {"ValueError"}),
        ("optimizer-nonstring", lambda: D(optimizer=3), {"TypeError"}),
        ("n_landmarks-negative", lambda: D(n_landmarks=-1), {"ValueError"}),
        ("n_landmarks-float", lambda: D(n_landmarks=2.5), {"ValueError"}),
        ("rank-nan", lambda: D(rank=float("nan")), {"ValueError"}),
        ("gp_type-unknown", lambda: D(gp_type="bogus"), {"ValueError"}),
        ("x-none", lambda: D().fit(None), {"ValueError", "TypeError"}),
    ]
    est = D().fit(base)
    refusals += [
        ("predict-feature-mismatch", lambda: est.predict(np.zeros((3, 3))), {"ValueError"}),
        ("covariance-feature-mismatch", lambda: mellon.DensityEstimator(optimizer="advi", n_iter=2, predictor_with_uncertainty=True).fit(base).predict.covariance(np.zeros((3, 5))), {"ValueError"}),
    ]
    for tag, f, allowed in refusals:
        o = enc.outcome(f)
        fits += 1
        if o[0] != "err" or o[1] not in allowed:
            ctx.violation("C20|refusal|%s" % tag, "degenerate input is not refused with ValueError/TypeError",
                          {"case": tag, "observed": o[1] if o[0] == "err" else "accepted"})
    pq = np.asarray(est.predict(np.asarray([[0.0, 0.0], [1e3, -1e3], [1e-9, 1e-9]])))
    if not np.all(np.isfinite(pq)):
        ctx.violation("C20|predict|finite-query", "NaN prediction at a finite query point", {"values": pq.tolist()})

    ctx.cov["evaluations"] = len(cases) + fits
    ctx.cov["traces_validated_against_impl"] = len(cases)
    ctx.cov["distinct_nontrivial"] = len({(m_["validator"], tuple(m_["args"])) for m_ in meta if m_["impl"] == "ok"})
    ctx.cov["rule"] = ("A: 11 validators x the value grammar of the property (None, bool, int, float incl. NaN/+-inf, numeric and non-numeric str, "
                       "numpy scalars, 0-d/1-element/larger arrays (numpy and JAX), list/tuple/dict/set/slice) x flags, outcome (value | exception "
                       "class) compared exactly with the generated Gallina model evaluated in Coq; B: validate_nn_distances on every pattern of "
                       "{valid, NaN, +-inf, 0, negative} up to length 3 (exhaustive) and random longer ones, also against the property statement; "
                       "C: %d dirty-data fits / refusals on real estimators (support). distinct_nontrivial = distinct accepted (validator, arguments)." % fits)
    ctx.cov["input_distribution"] = dist
    ctx.cov["dirty_fits_and_refusals"] = fits
    ctx.cov["samples"] = meta[:3] + meta[-2:]
