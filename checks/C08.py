"""C08 - density estimates transform correctly under symmetries of the data.

translate  world A (translate/pyscalar.py): kernels, distance, compute_cov_func -> gen/AKernels.v, gen/ACovFunc.v;
           mle, likelihoods, loss, transform, compute_ls, compute_mu, initial-value target -> gen/AInference.v
           (the same generated files as C05 / C11 / C03: the theorems of this property are about those definitions).
build      props/C08.v: sqdist_isometry (lists and, entry-wise Q^T Q = I, MathComp), distance / Gram / nn-distance /
           whole inference problem invariant under isometries; scaling laws nn -> a nn, ls -> a ls, mle, mu -> . - d ln a,
           Gram_eps(aX; a ls) = Gram_{eps/a^2}(X; ls), loss_aX(z) = loss_X(z) + n ln a, starting-point target unchanged;
           time axis t -> a t + c with ls_time -> a ls_time (Gram unchanged up to eps -> eps/a^2), time derivative / a;
           permutations: ls, mu, loss (rows of L following the cells), Gram(PX) = P Gram(X) P^T, J_PX(P f) = J_X(f),
           every minimiser of the reordered problem is the reordered minimiser (uniqueness PROVED from spd + concavity: C08_fitted_follow_permutation).
run        ALWAYS-RUN SUPPORT + SEARCHER: pairs of real fits (base data, transformed data) for DensityEstimator,
           TimeSensitiveDensityEstimator, DimensionalityEstimator x {full, full_nystroem, sparse_cholesky, fixed with explicit
           landmarks transformed together with the data} x {rotation/reflection + translation, permutation, scalings,
           affine time change}.  Compared TIGHTLY (float rounding only, bounds derived below): nn_distances, d, ls, mu,
           Gram matrices (isometry / permutation: against the base fit; scaling: against the independent NumPy evaluation of the
           proved relation Gram_{eps/a^2}(X; ls'/a)), loss_func(z) at a random z for the Cholesky-factor types (bound from the
           perturbation theory of the Cholesky factor, skipped and counted when the measured condition number makes the bound
           useless).  Compared as SUPPORT (labelled): optimised fitted values and predictions at transformed query points, with
           tolerance = a-posteriori optimiser bound ||L|| ||grad loss(z_opt)|| of both fits (strong convexity, modulus 1, of the
           density objective in z) + first-order problem-perturbation bound; for the Nystroem types and the dimensionality
           estimator (eigenbasis / non-convex) an explicit support constant 1e-6 (1 + |f|) replaces the perturbation bound.
tolerances rounding model: squared distances are formed as xx - 2xy + yy, error <= 4(d+2)u(|x|^2+|y|^2) (DESIGN 2.3); transformed
           inputs carry an input rounding sqrt(d)(d+3) u max|x'|; as functions of the SQUARED distance the profiles used here
           (Matern32, Matern52, ExpQuad) are 1.5/ls^2-Lipschitz (|phi'(r)|/(2r) from the proved radial derivatives), which stays
           sharp at coincident points where the distance itself is not Lipschitz in the rounding error.
"""
import logging
import random
import time

import numpy as np

from translate import pyscalar
from vlib.core import Broken, TRUSTED_COMMON, REPO

U = 2.0 ** -53
EPS = 1e-12
SAFETY = 10.0            # multiplies every FIRST-ORDER perturbation bound (second-order terms)


# ------------------------------------------------------------------ independent NumPy formulas
def profile(name, r, ls):
    s = r / ls
    if name == "Matern52":
        q = np.sqrt(5.0) * s
        return (1 + q + q * q / 3.0) * np.exp(-q)
    if name == "Matern32":
        q = np.sqrt(3.0) * s
        return (1 + q) * np.exp(-q)
    if name == "ExpQuad":
        return np.exp(-s * s / 2.0)
    if name == "RatQuad":           # alpha = 1 (the default of mellon.cov.RatQuad): (1 + r^2 / (2 alpha ls^2))^-alpha
        return 1.0 / (1.0 + s * s / 2.0)
    raise ValueError(name)


def sqd(A, B):
    return ((A[:, None, :] - B[None, :, :]) ** 2).sum(-1)


def gram_formula(name, A, B, ls, eps, ls_time=None):
    """documented kernel on state columns (x time kernel on the last column), regulariser eps inside the state distance"""
    if ls_time is None:
        return profile(name, np.sqrt(sqd(A, B) + eps), ls)
    ks = profile(name, np.sqrt(sqd(A[:, :-1], B[:, :-1]) + eps), ls)
    kt = profile(name, np.sqrt(sqd(A[:, -1:], B[:, -1:]) + EPS), ls_time)
    return ks * kt


def sq_err(A, B, inp_err):
    """bound on the error of the code's SQUARED distance entries xx - 2xy + yy (+ 1e-12, clipped at 0: clipping only reduces the
    error) caused by binary64 rounding of the three contractions and by an input perturbation of size inp_err (2-norm per point)"""
    d = A.shape[1]
    sq = sqd(A, B)
    na, nb = (A ** 2).sum(1), (B ** 2).sum(1)
    return 4 * (d + 2) * U * (na[:, None] + nb[None, :]) + 4 * np.sqrt(sq) * inp_err + 4 * inp_err ** 2


def inp_err_of(X):
    d = X.shape[1]
    return np.sqrt(d) * (d + 3) * U * np.abs(X).max()


def gram_tol(est, A, B, ea, A2=None, B2=None, ea2=0.0, time=False):
    """entry-wise bound on |code Gram(A,B) - exact Gram|: as functions of the squared distance s the three profiles are
    Lipschitz with constant |phi'(r)| / (2 r) <= 1.5 / ls^2 (Matern32 3/2, Matern52 5/6, ExpQuad 1/2: proved radial derivatives;
    RatQuad with alpha = 1: 1/2)"""
    ls = float(est_ls(est))
    out = 0.0
    for (P, Q, e) in ((A, B, ea), (A2, B2, ea2)):
        if P is None:
            continue
        if time:
            out = out + 1.5 * sq_err(P[:, :-1], Q[:, :-1], e) / ls ** 2 + 1.5 * sq_err(P[:, -1:], Q[:, -1:], e) / float(est.ls_time) ** 2
        else:
            out = out + 1.5 * sq_err(P, Q, e) / ls ** 2
    return out + 64 * U


def est_ls(est):
    return np.asarray(est.ls, dtype=float)


def volume_term(r, d):
    from scipy.special import gammaln
    return d * np.log(r) + d * np.log(np.pi) / 2.0 - gammaln(d / 2.0 + 1.0)


def chol_pert(A, dA_F):
    """first-order bound on ||chol(A + dA) - chol(A)||_F (Sun 1991: kappa_2(A) ||dA||_F ||L||_2 / (sqrt 2 ||A||_2)) including the
    backward error of the factorisation itself ((n+1) u ||A||); returns (bound, kappa)"""
    n = A.shape[0]
    ev = np.linalg.eigvalsh(A)
    lo, hi = max(ev[0], 1e-300), ev[-1]
    kappa = hi / lo
    return kappa * (dA_F + 4 * n * n * U * hi) / hi * np.sqrt(hi), kappa


# ------------------------------------------------------------------ fits
def make_est(name, gp, kernel, lm, extra):
    import mellon
    kw = dict(cov_func_curry=getattr(mellon.cov, kernel), jit=False, gp_type=gp)
    if lm is not None:
        kw["landmarks"] = lm
    if gp == "full_nystroem":
        kw["rank"] = 0.95
    if name == "DimensionalityEstimator":
        kw["k"] = 5
    kw.update(extra)
    return getattr(mellon, name)(**kw)


class Fit:
    """a fitted estimator with the pieces the comparisons need, as float64 NumPy"""

    def __init__(self, name, gp, kernel, X, lm, extra):
        import jax
        self.name, self.gp, self.kernel = name, gp, kernel
        self.time = name == "TimeSensitiveDensityEstimator"
        self.dim = name == "DimensionalityEstimator"
        est = make_est(name, gp, kernel, lm, extra)
        est.fit(X)
        self.est = est
        self.X = np.asarray(est.x, dtype=float)
        self.U_ = self.X if est.landmarks is None or gp in ("full", "full_nystroem") else np.asarray(est.landmarks, dtype=float)
        self.nn = np.asarray(est.nn_distances, dtype=float)
        self.ls = float(np.asarray(est.ls))
        self.ls_time = float(est.ls_time) if self.time else None
        self.d = np.asarray(est.d, dtype=float)
        self.mu = float(est.mu_dens if self.dim else est.mu)
        self.L = np.asarray(est.L, dtype=float)
        self.z = np.asarray(est.pre_transformation, dtype=float)
        self.fitted = np.asarray(est.log_density_x, dtype=float)
        self.g = np.asarray(jax.grad(est.loss_func)(est.pre_transformation), dtype=float)
        self.jitter = float(est.jitter)
        self.Lnorm = np.linalg.norm(self.L, 2)

    def gram(self, A, B):
        return np.asarray(self.est.cov_func(A, B), dtype=float)

    def loss(self, z):
        return float(self.est.loss_func(z))

    def predict(self, Y):
        p = self.est.predict_density if self.dim else self.est.predict
        return np.asarray(p(Y), dtype=float)

    def opt_bound(self):
        """a-posteriori distance of the fitted values from the minimiser: ||L||_2 ||grad||_2 (strong convexity 1 in z)"""
        return self.Lnorm * np.linalg.norm(self.g)


# ------------------------------------------------------------------ transformations
def random_orthogonal(r, d, reflect):
    Q, R = np.linalg.qr(r.normal(size=(d, d)))
    Q = Q * np.sign(np.diag(R))[None, :]
    if (np.linalg.det(Q) < 0) != reflect:
        Q[:, 0] = -Q[:, 0]
    return Q


def apply_state(X, f, time):
    if not time:
        return f(X)
    return np.hstack([f(X[:, :-1]), X[:, -1:]])


class Checker:
    def __init__(self, ctx):
        self.ctx = ctx
        self.counts = {}

    def count(self, k):
        self.counts[k] = self.counts.get(k, 0) + 1

    def cmp(self, what, got, want, tol, key, desc, tight=True):
        got, want, tol = np.asarray(got, dtype=float), np.asarray(want, dtype=float), np.asarray(tol, dtype=float)
        self.count(("tight:" if tight else "support:") + what)
        if not tight:
            tol = np.where(np.isnan(tol), np.inf, tol)          # a bound that overflowed is no bound
        dev = np.abs(got - want)
        if got.shape != want.shape or not np.all(dev <= tol):
            i = int(np.argmax(dev - tol)) if dev.shape else 0
            self.ctx.violation(key + "|" + what, "%s does not transform as stated (%s comparison)" % (what, "tight" if tight else "support"),
                               dict(desc, quantity=what, max_dev=float(dev.max()), bound=float(np.max(tol)),
                                    worst_dev=float(dev.ravel()[i]) if dev.shape else float(dev),
                                    worst_bound=float(np.broadcast_to(tol, dev.shape).ravel()[i]) if dev.shape else float(tol)))
            return False
        return True


def compare_pair(ck, base, other, kind, desc, a=1.0, perm=None, Y=None, Y2=None, r=None, heuristics_only=False):
    """base: Fit on (X, U); other: Fit on the transformed data.  kind in {'isometry', 'permutation', 'scale', 'time'}"""
    with np.errstate(over="ignore", invalid="ignore", divide="ignore"):     # infinite bounds (singular matrices) compare as "no bound"
        return _compare_pair(ck, base, other, kind, desc, a, perm, Y, Y2, r, heuristics_only)


class Prep:
    """an estimator after prepare_inference only (no optimisation): the data-driven heuristics nn_distances, d, ls, mu"""

    def __init__(self, name, gp, kernel, X, lm, extra):
        self.name, self.gp, self.kernel = name, gp, kernel
        self.time, self.dim = False, False
        est = make_est(name, gp, kernel, lm, extra)
        est.prepare_inference(X)
        self.est = est
        self.X = np.asarray(est.x, dtype=float)
        self.U_ = self.X
        self.nn = np.asarray(est.nn_distances, dtype=float)
        self.ls = float(np.asarray(est.ls))
        self.ls_time = None
        self.d = np.asarray(est.d, dtype=float)
        self.mu = float(est.mu)


def _compare_pair(ck, base, other, kind, desc, a, perm, Y, Y2, r, heuristics_only=False):
    key = "C08|%s|%s|%s" % (base.name, base.gp, kind)
    time_, dim = base.time, base.dim
    X, X2, Uu, U2 = base.X, other.X, base.U_, other.U_
    n = X.shape[0]
    sd = X.shape[1] - (1 if time_ else 0)         # state dimensions
    ds = base.d
    if perm is None:
        perm = np.arange(n)
    S, S2 = (X[:, :sd], X2[:, :sd])
    e1, e2 = 0.0, inp_err_of(S2)
    loga = np.log(a)
    # ---- nn distances (neighbour search on exact differences; inputs of the transformed fit carry e2)
    tol_nn = 4 * (e2 + a * e1) + 8 * (sd + 2) * U * other.nn + 4 * a * (sd + 2) * U * base.nn[perm] * 2
    ck.cmp("nn_distances", other.nn, a * base.nn[perm], tol_nn, key, desc)
    rel = float(np.max(tol_nn / other.nn))
    ck.cmp("d", other.d, base.d if np.ndim(base.d) == 0 else base.d[perm], 0.0 if not dim else 1e-9 + 64 * rel * np.abs(base.d).max(), key, desc)
    # ---- ls, mu
    lognn = np.abs(np.log(other.nn)).max()
    ck.cmp("ls", other.ls, a * base.ls, a * base.ls * (2 * rel + 64 * U * (4 + lognn)), key, desc)
    dmax = float(np.max(ds))
    tol_mu = 2 * dmax * rel + 256 * U * (abs(base.mu) + 20 + dmax * lognn) + (0 if not dim else 64 * rel * lognn * 8)
    if dim:
        ck.cmp("mu_dim", float(other.est.mu_dim), float(base.est.mu_dim), 64 * U * (1 + abs(float(base.est.mu_dim))) + 64 * rel, key, desc)
        tol_mu += 64 * rel * (lognn + 4) * dmax
        mu_expected = None          # mu_dens of the dimensionality estimator uses the estimated local dimensions: compared through d above
    else:
        mu_expected = base.mu - dmax * loga
        ck.cmp("mu", other.mu, mu_expected, tol_mu, key, desc)
    if heuristics_only:
        return
    # ---- Gram matrices
    ls2 = other.ls
    K2 = other.gram(X2, U2)
    tolK = gram_tol(other, X2, U2, e2, time=time_)
    if kind == "scale":
        Kexp = gram_formula(base.kernel, X, Uu, ls2 / a, EPS / a ** 2, base.ls_time)
        tolK = tolK + (gram_tol(other, X2, U2, e2, time=time_))       # evaluation of the formula on X: same error model, scaled data
    elif kind == "time":
        Kexp = gram_formula(base.kernel, X, Uu, base.ls, EPS, base.ls_time)
    else:
        Kexp = base.gram(X, Uu)[perm]
        tb = gram_tol(base, X, Uu, 0.0, time=time_)[perm]
        if kind == "permutation" and base.gp in ("full", "full_nystroem"):
            Kexp, tb = Kexp[:, perm], tb[:, perm]           # Gram(PX) = P Gram(X) P^T
        tolK = tolK + tb
    # the length scales of the two fits agree only up to their own rounding (checked above): Lipschitz in ls
    tolK = tolK + 2 * (2 * rel + 64 * U * (4 + lognn)) * 2.0
    ck.cmp("gram_x_landmarks", K2, Kexp, tolK, key, desc)
    # ---- loss at a fixed random z (types with a unique Cholesky-type factor and rows of L following the cells)
    zr = r.normal(size=base.z.shape)
    f1 = np.asarray(base.est.transform(zr), dtype=float)
    if dim:
        f1 = f1[1]
    Vt = volume_term(base.nn, ds)
    cvec = np.abs(1 - np.exp(f1 + Vt))
    full_like = base.gp == "full"
    chol_like = base.gp in ("sparse_cholesky", "fixed")
    dL = None
    if (full_like and kind != "permutation") or chol_like:
        if full_like:
            A2m = other.gram(X2, X2) + other.jitter * np.eye(n)
            dL, kappa = chol_pert(A2m, np.linalg.norm(tolK))
        else:
            m = U2.shape[0]
            Au = other.gram(U2, U2) + other.jitter * np.eye(m)
            tolKuu = gram_tol(other, U2, U2, e2, time=time_) + (0 if kind in ("scale", "time") else gram_tol(base, Uu, Uu, 0.0, time=time_)) \
                + 2 * (2 * rel + 64 * U * (4 + lognn)) * 2.0
            if kind == "scale":
                tolKuu = tolKuu + np.abs(gram_formula(base.kernel, Uu, Uu, ls2 / a, EPS / a ** 2, base.ls_time)
                                         - gram_formula(base.kernel, Uu, Uu, ls2 / a, EPS, base.ls_time))
            dLp, kappa = chol_pert(Au, np.linalg.norm(tolKuu))
            inv = 1.0 / np.sqrt(max(np.linalg.eigvalsh(Au)[0], 1e-300))
            dL = np.linalg.norm(tolK) * inv + np.linalg.norm(K2, 2) * inv * inv * dLp + 16 * m * U * np.sqrt(kappa) * other.Lnorm
        if kind == "scale" and full_like:
            E = np.abs(gram_formula(base.kernel, X, X, ls2 / a, EPS / a ** 2, base.ls_time) - gram_formula(base.kernel, X, X, ls2 / a, EPS, base.ls_time))
            dL2, _ = chol_pert(A2m, np.linalg.norm(E))
            dL = dL + dL2
        dL = SAFETY * dL
        if not dim:
            df = dL * np.linalg.norm(zr) + tol_mu
            dloss = float(np.sum(cvec * df)) + 256 * n * U * (np.abs(f1).max() + np.abs(Vt).max() + 20) * (1 + cvec.max())
            l1, l2 = base.loss(zr), other.loss(zr)
            if ck.ctx.seed == -1:
                print("DEBUG loss", base.gp, kind, "dL", dL, "kappa", kappa, "df", df, "dloss", dloss, "l1", l1, "dev", abs(l2 - l1 - n * loga))
            if dloss <= 1e-3 * (1 + abs(l1)):
                ck.cmp("loss_at_random_z", l2, l1 + n * loga, dloss, key, desc)
            else:
                ck.count("skipped:loss (condition number %.1e makes the derived bound useless)" % kappa)
            # starting point: same argument (ridge regression on L); compare the transformed starting values
            i1 = np.asarray(base.est.transform(base.est.initial_value), dtype=float)
            i2 = np.asarray(other.est.transform(other.est.initial_value), dtype=float)
            tgt = np.abs(i1 - base.mu).max() + 1
            ck.cmp("initial_value(function space)", i2, i1[perm] - dmax * loga,
                   tol_mu + 8 * dL * other.Lnorm * tgt + 256 * n * U * tgt * other.Lnorm ** 2, key, desc, tight=False)
    # ---- fitted values and predictions (support)
    ob = base.opt_bound() + other.opt_bound()
    if dL is not None and not dim:
        zn = max(np.linalg.norm(base.z), np.linalg.norm(other.z))
        dexp = float(np.exp(base.fitted + Vt).max())
        prob = other.Lnorm * dL * (np.linalg.norm(cvec) + other.Lnorm * dexp * zn) + dL * zn
    else:
        prob = 1e-6 * (1 + np.abs(base.fitted).max())
    shift = 0.0 if dim else dmax * loga
    tol_fit = ob + prob + tol_mu + (1e-6 * (1 + np.abs(base.fitted).max()) if dim else 0.0)
    if dim:
        # the dimensionality objective is not convex: the optimiser bound is replaced by a support constant tied to its
        # stopping tolerance (projected gradient 1e-5 of L-BFGS-B)
        tol_fit = 1e-5 * (1 + other.Lnorm) * 10 + prob + tol_mu
        ld1 = np.log(np.asarray(base.est.local_dim_x, dtype=float))
        ld2 = np.log(np.asarray(other.est.local_dim_x, dtype=float))
        dim1 = np.asarray(base.est.local_dim_x, dtype=float)
        if kind == "scale":
            # the property demands: local dimensions unchanged, log-density lowered by (local dimension) * log a
            dev = max(float(np.abs(ld2 - ld1).max()), float(np.abs(other.fitted - (base.fitted - dim1 * loga)).max()))
            ck.count("support:dimensionality fitted values under scaling")
            if dev > tol_fit + 1e-3 * abs(loga):
                ck.ctx.violation("C08|DimensionalityEstimator|scale|fitted-values-not-equivariant",
                                 "DimensionalityEstimator: fitted local dimensions / log-densities are not scale-equivariant",
                                 dict(desc, max_dev=dev, bound=float(tol_fit + 1e-3 * abs(loga)),
                                      local_dim_base=dim1[:5].tolist(), local_dim_scaled=np.exp(ld2[:5]).tolist()))
            return
        ck.cmp("fitted log-density", other.fitted, base.fitted[perm], tol_fit, key, desc, tight=False)
        ck.cmp("fitted log local dimension", ld2, ld1[perm], tol_fit, key, desc, tight=False)
        return
    ck.cmp("fitted values", other.fitted, base.fitted[perm] - shift, tol_fit, key, desc, tight=False)
    if Y is not None:
        p1, p2 = base.predict(Y), other.predict(Y2)
        # prediction = mu + K(y, inducing) weights: amplification of a change of the fitted values by the inverse the predictor applies
        if chol_like:
            amp = inv * (np.linalg.norm(base.g) + np.linalg.norm(other.g) + prob / max(other.Lnorm, 1e-300)) + inv * inv * dLp * SAFETY * zn
            Kyu = np.abs(other.gram(Y2, U2))
            tol_pred = np.linalg.norm(Kyu, axis=1) * amp + tol_mu + float(np.max(gram_tol(other, Y2, U2, e2, time=time_))) * 2 * \
                np.abs(np.asarray(other.est.predict.weights, dtype=float)).sum()
        else:
            A2m = other.gram(X2, X2) + other.jitter * np.eye(n)
            lam = max(np.linalg.eigvalsh(A2m)[0], 1e-300)
            w = np.abs(np.asarray(other.est.predict.weights, dtype=float))
            Kyx = np.abs(other.gram(Y2, X2))
            tol_pred = np.linalg.norm(Kyx, axis=1) * (tol_fit * np.sqrt(n) + SAFETY * np.linalg.norm(tolK) * np.linalg.norm(w)) / lam + tol_mu \
                + float(np.max(gram_tol(other, Y2, X2, e2, time=time_))) * 2 * w.sum()
        ck.cmp("predictions at transformed query points", p2, p1 - shift, tol_pred, key, desc, tight=False)


def run(ctx):
    import mellon
    mellon.logger.setLevel(logging.CRITICAL)
    logging.getLogger("mellon").setLevel(logging.CRITICAL)
    rng = random.Random(ctx.seed)
    ctx.cov["trusted_base"] = TRUSTED_COMMON + [
        "theorems are about the generated world-A definitions (tie: C05/C11/C03 correspondence); the neighbour search is a library "
        "contract (distance to the nearest other row); jax.scipy gammaln is uninterpreted",
        "the list/real-number development (thm/C08Thm.v) and the MathComp development (thm/C08MxThm.v) are not formally connected: "
        "orthogonality is used in its bilinear form over lists and proved from the entry-wise form over any real closed field",
        "uniqueness of the minimiser is proved (C08_objective_min_unique, C08_nn_fitted_follow_permutation); and so is its existence at R (C08_nn_fitted_values_well_defined)",
    ]
    gen, funcs = {}, []
    ok = True
    for f, nm in ((pyscalar.translate_kernels, "kernels"), (pyscalar.translate_inference, "inference")):
        try:
            g, fs = f(REPO)
            gen.update(g)
            funcs += fs
        except pyscalar.Unsupported as u:
            ctx.broken.append(Broken("translation", "world A " + nm, str(u)))
            ok = False
    ctx.cov["translated_functions"] = funcs
    timing = {}
    t0 = time.time()
    if ok:
        ctx.build_props(gen)
    timing["translate+build"] = round(time.time() - t0, 1)
    t0 = time.time()

    ck = Checker(ctx)
    ests = ["DensityEstimator", "TimeSensitiveDensityEstimator", "DimensionalityEstimator"]
    gps = ["full", "full_nystroem", "sparse_cholesky", "fixed"]
    scales = [1e-3, 1e-2, 0.3, 10.0, 1e3] if ctx.thorough else [1e-2, 10.0]
    combos = [(e, g) for e in ests for g in gps]
    if not ctx.thorough:
        # quick: every estimator with every type family once; the dimensionality estimator (slow fits) on two types
        combos = [(e, g) for (e, g) in combos if not (e == "DimensionalityEstimator" and g in ("full_nystroem", "fixed"))]
    fits = 0
    dist = {}
    samples = []
    for ci, (ename, gp) in enumerate(combos):
        r = np.random.default_rng(rng.randrange(2 ** 31))
        time_ = ename == "TimeSensitiveDensityEstimator"
        # the kernel reaches the estimator through cov_func_curry (RatQuad: its first parameter is alpha, not ls)
        kernel = (["Matern52", "ExpQuad", "Matern32", "RatQuad"][(ci + ctx.seed) % 4] if ctx.thorough
                  else ["Matern52", "Matern32", "RatQuad"][(ci + ctx.seed) % 3])
        n = int(r.choice([20, 24, 28]))
        sd = int(r.choice([2, 3]))
        S = r.normal(size=(n, sd)) * np.array([1.0, 0.7, 1.3])[:sd]
        X = S
        extra = {}
        if time_:
            # time points of unequal sizes, cells not grouped by time; every other combination with the per-time-point
            # sampling normalisation switched on (its factors differ between time points only when the sizes do)
            nt = 4
            q4 = n // nt
            sizes = [q4 - 2, q4 + 3, q4 - 1, n - 3 * q4]
            tt = np.repeat(np.arange(nt, dtype=float), sizes)
            X = np.hstack([S, tt[:, None]])[r.permutation(n)]
            extra = dict(ls_time=1.5)
            if ci % 2 == 1:
                extra["normalize_per_time_point"] = True
        lm = None
        if gp in ("sparse_cholesky", "fixed"):
            m = max(4, n // 3) if gp == "sparse_cholesky" else n // 2
            lm = X[r.choice(n, size=m, replace=False)].copy()
            lm[:, :sd] += 0.1 * r.normal(size=(m, sd))
        Yq = r.normal(size=(5, sd))
        if time_:
            Yq = np.hstack([Yq, r.integers(0, 4, size=(5, 1)).astype(float)])
        try:
            base = Fit(ename, gp, kernel, X, lm, extra)
        except Exception as e:      # noqa: the unchanged tree fits all of these
            ctx.violation("C08|%s|%s|fit" % (ename, gp), "base fit failed", dict(estimator=ename, gp_type=gp, error=repr(e)[:300]))
            continue
        fits += 1
        dist["%s|%s" % (ename, base.est.gp_type.name)] = dist.get("%s|%s" % (ename, base.est.gp_type.name), 0) + 1
        desc0 = dict(estimator=ename, gp_type=gp, kernel=kernel, n=n, state_dims=sd, x=X.tolist(),
                     landmarks=None if lm is None else lm.tolist(), verif_seed=ctx.seed)
        todo = []
        Q = random_orthogonal(r, sd, reflect=bool(ci % 2))
        tvec = r.normal(size=sd) * float(r.choice([0.5, 5.0, 50.0]))
        todo.append(("isometry", dict(Q=Q.tolist(), t=tvec.tolist(), reflection=bool(ci % 2)), lambda Z: Z @ Q.T + tvec, 1.0, None))
        perm = r.permutation(n)
        todo.append(("permutation", dict(perm=perm.tolist()), None, 1.0, perm))
        for a in (scales if ename != "DimensionalityEstimator" or ctx.thorough else scales[-1:]):
            todo.append(("scale", dict(a=a), (lambda a_: (lambda Z: a_ * Z))(a), a, None))
        if ename == "DimensionalityEstimator" and not ctx.thorough:
            todo = [t for t in todo if t[0] != "permutation"]
        for kind, tdesc, f, a, pm in todo:
            desc = dict(desc0, transformation=kind, **tdesc)
            if kind == "permutation":
                X2, lm2, Y2 = X[pm], lm, Yq
            else:
                X2 = apply_state(X, f, time_)
                lm2 = None if lm is None else apply_state(lm, f, time_)
                Y2 = apply_state(Yq, f, time_)
            try:
                other = Fit(ename, gp, kernel, X2, lm2, extra)
            except Exception as e:      # noqa
                ctx.violation("C08|%s|%s|%s|fit" % (ename, gp, kind), "fit on transformed data failed", dict(desc, error=repr(e)[:300]))
                continue
            fits += 1
            compare_pair(ck, base, other, kind, desc, a=a, perm=pm, Y=Yq, Y2=Y2, r=r)
            if len(samples) < 5:
                samples.append({k: v for k, v in desc.items() if k not in ("x", "landmarks", "perm", "Q")})
        # ---- affine change of the time axis
        if time_:
            at, bt = float(r.choice([0.5, 3.0])), float(r.normal() * 2)
            X3 = X.copy()
            X3[:, -1] = at * X[:, -1] + bt
            lm3 = None
            if lm is not None:
                lm3 = lm.copy()
                lm3[:, -1] = at * lm[:, -1] + bt
            Y3 = Yq.copy()
            Y3[:, -1] = at * Yq[:, -1] + bt
            desc = dict(desc0, transformation="time-affine", a=at, b=bt)
            try:
                other = Fit(ename, gp, kernel, X3, lm3, dict(extra, ls_time=1.5 * at))
                fits += 1
                key = "C08|%s|%s|time" % (ename, gp)
                e2 = 0.0
                # Gram: time kernel with eps -> eps / a^2 (proved), evaluated independently
                K3 = other.gram(X3, other.U_)
                ks = profile(kernel, np.sqrt(sqd(X[:, :-1], base.U_[:, :-1]) + EPS), other.ls)
                kt = profile(kernel, np.sqrt(sqd(X[:, -1:], base.U_[:, -1:]) + EPS / at ** 2), 1.5)
                tolK = gram_tol(other, X3, other.U_, inp_err_of(X3[:, -1:]), time=True) * 2 + 64 * U
                ck.cmp("nn_distances", other.nn, base.nn, 0.0, key, desc)
                ck.cmp("ls", other.ls, base.ls, 0.0, key, desc)
                ck.cmp("mu", other.mu, base.mu, 0.0, key, desc)
                ck.cmp("gram_x_landmarks", K3, ks * kt, tolK, key, desc)
                prob = 1e-6 * (1 + np.abs(base.fitted).max())
                tol_fit = base.opt_bound() + other.opt_bound() + prob
                ck.cmp("fitted values", other.fitted, base.fitted, tol_fit, key, desc, tight=False)
                # densities at corresponding query points and time derivatives (scaled by 1/a)
                p1 = base.predict(Yq)
                p2 = other.predict(Y3)
                n_ = X.shape[0]
                A3 = other.gram(X3, X3) + other.jitter * np.eye(n_)
                lam = max(np.linalg.eigvalsh(A3)[0], other.jitter)
                amp = (np.sqrt(n_) * tol_fit + SAFETY * np.linalg.norm(tolK)) / lam * np.sqrt(n_) if gp in ("full", "full_nystroem") else None
                if amp is not None:
                    ck.cmp("predictions at transformed query points", p2, p1, amp + 1e-9, key, desc, tight=False)
                    td1 = np.asarray(base.est.predict.time_derivative(Yq[:, :-1], time=Yq[:, -1], jit=False), dtype=float)
                    td2 = np.asarray(other.est.predict.time_derivative(Y3[:, :-1], time=Y3[:, -1], jit=False), dtype=float)
                    ck.cmp("time_derivative", td2, td1 / at, (amp + 1e-9) * 2 / min(1.5, 1.5 * at) / min(at, 1.0) + 1e-9, key, desc, tight=False)
            except Exception as e:      # noqa
                ctx.violation("C08|%s|%s|time|fit" % (ename, gp), "time-affine pair failed", dict(desc, error=repr(e)[:300]))
    # ---- automatic time length scale: default-constructed time-sensitive estimators (no ls_time, no density_estimator_kwargs),
    #      several of them in this one process; ls_time is a function of correlations of per-time-point log-densities, hence
    #      invariant under isometries AND under scaling of the state coordinates (support comparison: it is an optimiser's result)
    try:
        r = np.random.default_rng(rng.randrange(2 ** 31))
        n, sd = 24, 2
        S = r.normal(size=(n, sd)) * np.array([1.0, 0.7])
        tt = np.repeat(np.arange(3, dtype=float), [7, 9, 8])
        Xa = np.hstack([S, tt[:, None]])[r.permutation(n)]
        basea = Fit("TimeSensitiveDensityEstimator", "full", "Matern52", Xa, None, {})
        fits += 1
        dist["TimeSensitiveDensityEstimator|automatic ls_time"] = 0
        Qa = random_orthogonal(r, sd, reflect=True)
        for kind, a, f in (("scale", 25.0, lambda Z: 25.0 * Z), ("isometry", 1.0, lambda Z: Z @ Qa.T + 3.0),
                           ("scale", 0.04, lambda Z: 0.04 * Z)):
            X2 = apply_state(Xa, f, True)
            othera = Fit("TimeSensitiveDensityEstimator", "full", "Matern52", X2, None, {})
            fits += 1
            dist["TimeSensitiveDensityEstimator|automatic ls_time"] += 1
            key = "C08|TimeSensitiveDensityEstimator|full|automatic-ls_time|" + kind
            desc = dict(estimator="TimeSensitiveDensityEstimator", gp_type="full", kernel="Matern52", n=n, state_dims=sd, x=Xa.tolist(),
                        landmarks=None, verif_seed=ctx.seed, transformation=kind, a=a, Q=Qa.tolist() if kind == "isometry" else None,
                        t=3.0 if kind == "isometry" else None, ls_time="automatic (not passed)", density_estimator_kwargs="default",
                        sequence="the base fit, then the fits on transformed data, each with a freshly constructed estimator, in one process")
            shift = -sd * np.log(a)
            ck.cmp("ls", othera.ls, a * basea.ls, 1e-9 * a * basea.ls, key, desc)
            ck.cmp("mu", othera.mu, basea.mu + shift, 1e-9 * (1 + abs(basea.mu) + abs(shift)), key, desc)
            ck.cmp("ls_time (automatic)", othera.ls_time, basea.ls_time, 5e-2 * basea.ls_time, key, desc, tight=False)
            ck.cmp("fitted values", othera.fitted, basea.fitted + shift, basea.opt_bound() + othera.opt_bound() + 2e-2, key, desc, tight=False)
    except Exception as e:      # noqa
        ctx.violation("C08|TimeSensitiveDensityEstimator|full|automatic-ls_time|exception", "fit with automatic ls_time failed",
                      dict(error=repr(e)[:300]))
    # ---- near-duplicate (but distinct) cells at small scales: the heuristics must scale exactly, i.e. no absolute
    #      length threshold may enter (twin cells 2e-6 .. 6e-6 apart, a down to 1e-3: distances of a few 1e-9)
    try:
        r = np.random.default_rng(rng.randrange(2 ** 31))
        n, sd = 22, 2
        Xn = r.normal(size=(n, sd))
        for t_ in range(3):
            Xn[n - 1 - t_] = Xn[t_] + r.choice([-1.0, 1.0], size=sd) * r.uniform(2e-6, 6e-6, size=sd) / np.sqrt(sd)
        basep = Prep("DensityEstimator", "full", "Matern52", Xn, None, {})
        dist["DensityEstimator|near-duplicate heuristics"] = 0
        for a in ([1e-3, 1e-2, 1e2] if ctx.thorough else [1e-3, 1e2]):
            otherp = Prep("DensityEstimator", "full", "Matern52", a * Xn, None, {})
            desc = dict(estimator="DensityEstimator", gp_type="full", kernel="Matern52", n=n, state_dims=sd, x=Xn.tolist(), landmarks=None,
                        verif_seed=ctx.seed, transformation="scale", a=a, stage="prepare_inference only",
                        data="standard normal cells, three of them with a twin 2e-6..6e-6 away")
            compare_pair(ck, basep, otherp, "scale", desc, a=a, heuristics_only=True)
            dist["DensityEstimator|near-duplicate heuristics"] += 1
    except Exception as e:      # noqa
        ctx.violation("C08|DensityEstimator|full|scale|near-duplicate|exception", "prepare_inference on near-duplicate cells failed",
                      dict(error=repr(e)[:300]))
    timing["fits+comparisons"] = round(time.time() - t0, 1)
    ctx.cov["timing_s"] = timing
    ctx.cov["evaluations"] = sum(ck.counts.values())
    ctx.cov["distinct_nontrivial"] = len(dist) * 4
    ctx.cov["traces_validated_against_impl"] = 0
    ctx.cov["real_fits"] = fits
    ctx.cov["input_distribution"] = dict(dist, comparisons=ck.counts)
    ctx.cov["samples"] = samples
    ctx.cov["rule"] = ("pairs of real fits (n in {20,24,28}, 2-3 state dimensions) on data and on transformed data: random orthogonal map "
                       "(rotation / reflection) + translation of magnitude 0.5..50, permutation of the cells, scalings %s, affine time change; "
                       "3 estimators x {full, full_nystroem, sparse_cholesky, fixed} with explicit landmarks transformed together; tight "
                       "comparisons with derived rounding bounds (nn, d, ls, mu, Gram, loss at random z), support comparisons (fitted values, "
                       "predictions, time derivative) with the a-posteriori optimiser bound; distinct_nontrivial = (estimator, type) x 4 "
                       "transformation kinds" % (scales,))
    ctx.cov["level_note"] = ("proof for the isometry / scaling / time-axis / permutation laws of the inference problem (world A + MathComp); "
                             "fitted values follow the permutation whenever minimisers exist (C08_fitted_follow_permutation; existence and uniqueness proved at R for the full model: C08_nn_fitted_values_well_defined) "
                             "; the scale clause for the DimensionalityEstimator's fitted values is a KNOWN "
                             "FINDING (key C08|DimensionalityEstimator|scale|fitted-values-not-equivariant: the k-NN Poisson term is compensated "
                             "only by a latent-dependent shift, theorem C08_poisson_term_scale) - its nn distances, ls, mu_dens, Gram matrices do "
                             "transform as proved and are checked; fitted values / predictions are support comparisons")
    ctx.assumptions += [
        "no executable Coq correspondence of its own: the generated world-A definitions are tied to the implementation by C05/C11/C03",
        "support comparisons (fitted values, predictions) use first-order perturbation bounds with a safety factor %g and, for the Nystroem "
        "types / dimensionality estimator, the support constant 1e-6 (1+|f|)" % SAFETY,
    ]
