"""C06 - predictive uncertainty is a valid covariance, consistent with the mean function.

translate (all paths of harness/matgen.TARGETS, regenerated from the working tree) -> build coq/props/C06.v
-> run the nine predictor classes with with_uncertainty=True (constructed directly and through
   mellon.inference.compute_conditional with pre_transformation_std) on seeded configurations, recording
   cholesky / solve_triangular and validating their contracts by residual
-> evaluate the GENERATED definitions (constructor attributes L and W, _covariance / _mean_covariance for diag in {T,F},
   compute_parameter_cov_factor) with the PrimFloat instance inside Coq on the implementation's Gram matrices.  The
   covariance definitions are fed the implementation's own L and W so that only summation order differs; the model's
   L and W are compared through the residuals of their defining equations
-> independent NumPy searcher on the implementation alone (every clause of the property text, see `searcher`).

Derived tolerances (u = 2^-53, m conditioning points, q query rows, L the predictor's factor, A = L^-1 K_b*):
  cov entry (a,b):   D_ab = 4(m+2)u (|Kss|_ab + (|A|^T|A|)_ab) + |a_a| d_b + d_a |a_b| + d_a d_b,
                     d_a = 4 m u ||L^-1||_2 || |L||a_a| ||_2        (Higham 2002 Thm 8.5, eq. 3.13)
  PSD / var >= 0:    the exact Schur complement of G^ = [[L L^T, K_b*],[K_*b, Kss]] satisfies
                     y^T S y >= lambda_min(G^) (|V y|^2 + |y|^2), V = (L L^T)^-1 K_b*; lambda_min(G^) is measured
                     (eigvalsh, plus its backward error 8(m+q)u||G^||_2 and the error 2 m u tr(L L^T) of forming L L^T)
  conditioning pts:  var <= (L L^T - K)_ii + D_aa + measured kernel re-evaluation discrepancy  (no amplification)
  monotonicity:      var_W <= var_U + D_U + D_W + ||E_U|| |V_U|^2 + ||E_W|| |V_W|^2, E = L L^T - (K + jI) measured
  W equations:       backward-error bound of the Cholesky solve (wb_common.solve_tol) / triangular solve
  refit corollary:   residuals of the normal equations amplified by the provable factor sqrt(k(x,x)/lambda_min) etc.

Excluded (known shape TypeErrors on the current tree, property C15): _LandmarksConditional with uncertainty and no
y_cov_factor; per-cell sigma with landmarks.  _LandmarksConditionalCholesky(L=None, y_is_mean=False, with_uncertainty=True)
raises ValueError by design (translated as an error path in harness/matgen.ERROR_PATHS).
"""
import random
import re

import numpy as np
from scipy.linalg import solve_triangular as np_st

from harness import matgen
from harness.wb_common import U, real_module, dataset, KERNELS, make_kernel, Recorder, quiet, col2, solve_tol, resid_eval_err
from vlib.core import Broken, TRUSTED_COMMON, REPO

FAMILIES = ["full", "dtc", "chol"]
FLAVOURS = ["plain", "exp", "time"]
CLASSES = {("full", "plain"): "FullConditional", ("full", "exp"): "ExpFullConditional", ("full", "time"): "FullConditionalTime",
           ("dtc", "plain"): "LandmarksConditional", ("dtc", "exp"): "ExpLandmarksConditional",
           ("dtc", "time"): "LandmarksConditionalTime", ("chol", "plain"): "LandmarksConditionalCholesky",
           ("chol", "exp"): "ExpLandmarksConditionalCholesky", ("chol", "time"): "LandmarksConditionalCholeskyTime"}
NOISE = {"full": ["ymean0", "ymean_ycf", "scalar", "subjitter", "vector", "Lgiven_ycf", "ymean_sigma", "noisy_ycf"],
         "dtc": ["ymean_ycf", "ymean_ycf_wide"],
         "chol": ["ymean_scalar", "ymean_vec", "Lgiven_scalar", "Lgiven_vec", "Lgiven_noisy"]}
# generated constructor definitions (attributes L and W) per noise form; None: searcher only
INIT_NAME = {("full", "ymean0"): "FullCond_init_LN_sS_cN_yT_uT", ("full", "ymean_sigma"): "FullCond_init_LN_sS_cN_yT_uT",
             ("full", "ymean_ycf"): "FullCond_init_LN_sS_cM_yT_uT", ("full", "scalar"): "FullCond_init_LN_sS_cN_yF_uT",
             ("full", "subjitter"): "FullCond_init_LN_sS_cN_yF_uT", ("full", "vector"): "FullCond_init_LN_sV_cN_yF_uT",
             ("full", "Lgiven_ycf"): "FullCond_init_LM_sS_cM_yT_uT", ("full", "noisy_ycf"): None,
             ("dtc", "ymean_ycf"): "LandmarksCond_init_sS_cM_yT_uT", ("dtc", "ymean_ycf_wide"): "LandmarksCond_init_sS_cM_yT_uT",
             ("chol", "ymean_scalar"): "LandmarksCholCond_init_LN_sS_yT_uT", ("chol", "ymean_vec"): "LandmarksCholCond_init_LN_sV_yT_uT",
             ("chol", "Lgiven_scalar"): "LandmarksCholCond_init_LM_sS_yT_uT", ("chol", "Lgiven_vec"): "LandmarksCholCond_init_LM_sV_yT_uT",
             ("chol", "Lgiven_noisy"): "LandmarksCholCond_init_LM_sV_yT_uT"}
GEN = {"full": "FullCond", "dtc": "LandmarksCond", "chol": "LandmarksCholCond"}
KB = {"full": "x", "dtc": "xu", "chol": "xu"}


class SymRecorder(Recorder):
    """jnp.linalg.cholesky symmetrises its argument ((A + A^T)/2, lax.linalg.cholesky symmetrize_input=True) before factorising;
    kernel Gram matrices computed through mellon.util.distance are symmetric only up to rounding (xx - 2xy + yy is summed in a
    different order for (i,j) and (j,i)), so the contract is validated against the symmetrised input and the asymmetry recorded"""
    max_rel_asym = 0.0

    def check_cholesky(self, args, kw, L):
        A = np.asarray(args[0], dtype=float)
        if A.ndim == 2 and A.shape[0] == A.shape[1] and A.size:
            self.max_rel_asym = max(self.max_rel_asym, float(np.abs(A - A.T).max() / max(np.abs(A).max(), 1e-300)))
            A = 0.5 * (A + A.T)
        super().check_cholesky((A,) + tuple(args[1:]), kw, L)


def make_configs(rng, thorough):
    cfgs = []
    i = 0
    for rep in range(4 if thorough else 1):
        for fam in FAMILIES:
            for fl in FLAVOURS:
                for kname in KERNELS:
                    i += 1
                    ns = NOISE[fam]
                    cfgs.append(dict(
                        id=i, fam=fam, flavour=fl, kernel=kname, noise=ns[(i + rep) % len(ns)],
                        n=rng.choice([6, 12, 25, 40, 60] if not thorough else [6, 12, 25, 40, 60, 120, 200]),
                        d=rng.choice([1, 2, 3, 5, 25]), data=rng.choice(["gauss", "clustered", "near-duplicate", "anisotropic"]),
                        ls=rng.choice([0.1, 0.3, 1.0, 3.0, 10.0]), compose=(i % 7 == 0),
                        jitter=rng.choice([1e-8, 1e-7, 1e-6, 1e-5, 1e-4, 1e-3]), cols=rng.choice([0, 1, 3]),
                        mrel=rng.choice(["lt", "eq", "gt"]), via_dispatch=(i % 3 == 0), seed=rng.randrange(2 ** 31)))
    return cfgs


def klip(cfg):
    """Lipschitz constant in the distance of the kernels of wb_common.make_kernel (unit amplitude, |phi'| <= 1/ls; compositions
    add a second factor/summand with length scale 2 ls)"""
    return 1.5 / cfg["ls"]


def kdiag_tol(cfg, X, kd):
    """rounding of k(x,x) through mellon.util.distance: sq = xx - 2xy + yy + 1e-12 carries an absolute error
    <= 4(d+2)u|x|^2, the distance sqrt(sq) (true value 1e-6) an error <= that / 1e-6 (or its square root)"""
    d = X.shape[1]
    x2 = np.sum(X * X, axis=1)
    dsq = 4 * (d + 2) * U * x2
    ddist = np.minimum(dsq / 1e-6, np.sqrt(dsq))
    if cfg["kernel"] == "Linear" and not cfg["compose"]:
        return 8 * (d + 2) * U * np.abs(kd) + 1e-300
    return klip(cfg) * ddist * (1 + np.abs(kd)) + 8 * (d + 2) * U * (np.abs(kd) + x2 / cfg["ls"] ** 2) + 1e-300


def build(cfg, with_uncertainty=True, shift=None):
    """construct the predictor with the real code.  shift = (column index) refits without uncertainty on values
    shifted by that column of the input-covariance factor"""
    mc = real_module("mellon.conditional")
    mi = real_module("mellon.inference")
    rng = np.random.default_rng(cfg["seed"])
    n, d, j, fam, noise = cfg["n"], cfg["d"], cfg["jitter"], cfg["fam"], cfg["noise"]
    x = dataset(rng, n, d, cfg["data"])
    if cfg["flavour"] == "time":
        x = np.hstack([x, rng.integers(0, 3, size=(n, 1)).astype(float)])
    cov, kdesc = make_kernel(rng, cfg["kernel"], cfg["ls"], cfg["compose"])
    m = {"lt": max(2, n // 3), "eq": n, "gt": n + 5}[cfg["mrel"]]
    if fam == "full":
        xu, m = x, n
    else:
        extra = dataset(rng, m, x.shape[1], "gauss")
        if cfg["flavour"] == "time":
            extra[:, -1] = rng.integers(0, 3, size=m)
        xu = np.vstack([x[: m // 2], extra[m // 2:]]) if m != n else extra
    c = cfg["cols"]
    nb = n if fam != "chol" else m
    vals = rng.normal(size=(nb,) if c == 0 else (nb, c))
    mu = float(rng.normal())
    K_raw = np.asarray(cov(xu, xu), dtype=float)
    K_bb = 0.5 * (K_raw + K_raw.T)          # jnp.linalg.cholesky factorises the symmetrised input (symmetrize_input=True)
    K_asym = float(np.linalg.norm(K_raw - K_raw.T))
    sigma, ycf, Lgiven, y_is_mean, std, Lfac = 0.0, None, None, True, None, None
    if noise in ("ymean_ycf", "ymean_ycf_wide", "Lgiven_ycf", "noisy_ycf"):
        # the density estimators' factor: compute_parameter_cov_factor(pre_transformation_std, L), L of shape (n, p)
        p_ = {"ymean_ycf": max(1, n // 2), "ymean_ycf_wide": n + 3, "Lgiven_ycf": max(1, n // 3), "noisy_ycf": n}[noise]
        Lfac = rng.normal(size=(n, p_)) / np.sqrt(p_)
        if noise == "noisy_ycf":
            Lfac = Lfac + np.eye(n)
        std = np.abs(rng.normal(size=p_)) * 0.5 + 0.01
        ycf = np.asarray(mi.compute_parameter_cov_factor(std, Lfac), dtype=float)
        y_is_mean = noise != "noisy_ycf"
    if noise.startswith("Lgiven"):
        Lgiven = np.linalg.cholesky(K_bb + (j + 0.01) * np.eye(nb))
    if noise == "scalar":
        sigma, y_is_mean = float(rng.choice([0.05, 0.3, 1.5])), False
    elif noise == "subjitter":
        sigma, y_is_mean = 0.5 * np.sqrt(j), False
    elif noise == "vector":
        sigma = np.abs(rng.normal(size=nb)) * 0.3
        sigma[:: 3] = 0.1 * np.sqrt(j)
        y_is_mean = False
    elif noise in ("ymean_sigma", "ymean_scalar", "Lgiven_scalar"):
        sigma = float(rng.choice([0.05, 0.3, 1.5]))
    elif noise in ("ymean_vec", "Lgiven_vec", "Lgiven_noisy"):
        sigma = np.abs(rng.normal(size=nb)) * 0.3 + 0.001
        std = sigma
        y_is_mean = noise != "Lgiven_noisy"
    # the stated input-covariance factor Y_f
    if ycf is not None:
        Yf = ycf
    elif np.ndim(sigma) == 0:
        Yf = float(sigma) * np.eye(nb)
    else:
        Yf = np.diag(sigma)
    if shift is not None:
        col = Yf[:, shift]
        vals = vals + (col if vals.ndim == 1 else col[:, None])
    cls = getattr(mc, CLASSES[(fam, cfg["flavour"])])
    wu = with_uncertainty
    disp = cfg["via_dispatch"] and cfg["flavour"] == "plain"
    if fam == "full":
        if disp and std is not None and ycf is not None:
            p = mi.compute_conditional(x, None, None, std, vals, mu, cov, Lfac, Lgiven, 0, jitter=j, y_is_mean=y_is_mean, with_uncertainty=wu)
        elif disp and ycf is None:
            p = mi.compute_conditional(x, None, None, None, vals, mu, cov, None, Lgiven, sigma, jitter=j, y_is_mean=y_is_mean, with_uncertainty=wu)
        else:
            p = cls(x, vals, mu, cov, L=Lgiven, sigma=sigma if ycf is None else 0, jitter=j, y_cov_factor=ycf, y_is_mean=y_is_mean, with_uncertainty=wu)
    elif fam == "dtc":
        if disp:
            p = mi.compute_conditional(x, xu, None, std, vals, mu, cov, Lfac, None, 0, jitter=j, y_is_mean=True, with_uncertainty=wu)
        else:
            p = cls(x, xu, vals, mu, cov, sigma=0, jitter=j, y_cov_factor=ycf, y_is_mean=True, with_uncertainty=wu)
    else:
        if disp and Lgiven is not None and np.ndim(sigma) == 1:
            p = mi.compute_conditional(x, xu, vals, std, None, mu, cov, None, Lgiven, 0, jitter=j, y_is_mean=y_is_mean, with_uncertainty=wu)
        else:
            p = cls(xu, vals, mu, cov, n, L=Lgiven, sigma=sigma, jitter=j, y_is_mean=y_is_mean, with_uncertainty=wu)
    if type(p).__name__ != CLASSES[(fam, cfg["flavour"])] and not disp:
        raise AssertionError("wrong class")
    # query set: conditioning points, far rows, duplicated rows, generic rows
    D = x.shape[1]
    mb = xu.shape[0]
    cond_idx = [0, mb // 2, mb - 1]
    rows = [xu[i] for i in cond_idx]
    far = dataset(rng, 2, D, "gauss") + 50.0 * np.sign(rng.normal(size=(2, D)))
    gen_ = dataset(rng, 3, D, "gauss") * 1.5
    if cfg["flavour"] == "time":
        far[:, -1] = rng.integers(0, 4, size=2)
        gen_[:, -1] = rng.integers(0, 4, size=3)
    rows += [far[0], far[1], gen_[0], gen_[1], gen_[0], xu[cond_idx[0]], gen_[2]]
    Xq = np.ascontiguousarray(np.vstack(rows), dtype=float)
    return dict(p=p, x=x, xu=xu, vals=vals, mu=mu, sigma=sigma, ycf=ycf, std=std, Lfac=Lfac, y_is_mean=y_is_mean, Lgiven=Lgiven,
                cov=cov, kdesc=kdesc, Xq=Xq, m=m, nb=nb, K_bb=K_bb, K_asym=K_asym, Yf=Yf, cond=[(0, cond_idx[0]), (1, cond_idx[1]), (2, cond_idx[2]), (8, cond_idx[0])],
                dups=[(5, 7), (0, 8)])


def stated_noise(cfg, b):
    """noise term N of the stated model: the factor is chol(K_bb + N); None when L is supplied"""
    j, nb = cfg["jitter"], b["K_bb"].shape[0]
    if b["Lgiven"] is not None:
        return None
    if cfg["fam"] == "dtc" or b["y_is_mean"]:
        return j * np.eye(nb)
    Yf = b["Yf"]
    Nn = Yf @ Yf.T
    dn = np.diag(Nn)
    return Nn + np.diag(np.where(dn < j, j - dn, 0.0))


def replay_of(cfg, b, extra):
    d = dict(cfg)
    d.update(kernel_desc=b["kdesc"], x=b["x"].tolist(), landmarks=None if cfg["fam"] == "full" else b["xu"].tolist(),
             values=np.asarray(b["vals"]).tolist(), mu=b["mu"], sigma=np.asarray(b["sigma"]).tolist(),
             y_cov_factor=None if b["ycf"] is None else b["ycf"].tolist(), y_is_mean=b["y_is_mean"],
             L_supplied=None if b["Lgiven"] is None else "cholesky(K_bb + (jitter + 0.01) I)", Xnew=b["Xq"].tolist(),
             cls=CLASSES[(cfg["fam"], cfg["flavour"])], with_uncertainty=True)
    d.update(extra)
    return d


def call(p, cfg, method, Xq, diag):
    f = getattr(p, method)
    if cfg["flavour"] == "time" and cfg["id"] % 2 == 0:
        return np.asarray(f(Xq[:, :-1], time=Xq[:, -1], diag=diag), dtype=float)
    return np.asarray(f(Xq, diag=diag), dtype=float)


TINY = 1e-290       # absolute floor: flush-to-zero / gradual underflow (2^-1022 per operation, m^2 operations, amplified by <= 1/jitter)


def cn(Mx):
    """column 2-norms without underflow of the squares"""
    s = np.abs(Mx).max(axis=0)
    s = np.where(s > 0, s, 1.0)
    return s * np.linalg.norm(Mx / s, axis=0)


def cov_terms(L, Kbq, Kss):
    """A = L^-1 K_b*, V = L^-T A, the entrywise rounding bound D of K_ss - A^T A (see module docstring), |a_a|, ..."""
    m = L.shape[0]
    A = np_st(L, Kbq, lower=True)
    V = np_st(L.T, A, lower=False)
    smin = np.linalg.svd(L, compute_uv=False)[-1]
    na = cn(A)
    dd = 4 * m * U / max(smin, 1e-300) * cn(np.abs(L) @ np.abs(A))
    Dm = 4 * (m + 2) * U * (np.abs(Kss) + np.abs(A).T @ np.abs(A)) + np.outer(na, dd) + np.outer(dd, na) + np.outer(dd, dd) + TINY
    return A, V, Dm


def joint_defect(L, Kbq, Kss):
    """eps >= max(0, -lambda_min) of G^ = [[L L^T, K_b*],[K_*b, K_ss]] including the error of measuring it"""
    m, q = L.shape[0], Kss.shape[0]
    M = L @ L.T
    G = np.block([[M, Kbq], [Kbq.T, 0.5 * (Kss + Kss.T)]])
    lam = np.linalg.eigvalsh(G)
    return max(0.0, -lam[0]) + 8 * (m + q) * U * max(abs(lam[0]), abs(lam[-1])) + 2 * m * U * np.trace(M), M


def mc_terms(Ksb, W):
    """B = K_*b W and the entrywise rounding bound of B B^T computed in binary64 from (K_*b, W)"""
    mb, k = W.shape
    B = Ksb @ W
    dB = 4 * (mb + 1) * U * (np.abs(Ksb) @ np.abs(W))
    aB = np.abs(B) + dB
    Dm = 4 * (k + 1) * U * (aB @ aB.T) + dB @ aB.T + aB @ dB.T + TINY
    return B, Dm


def searcher(ctx, cfg, b, counts):
    p, Xq, fam, j = b["p"], b["Xq"], cfg["fam"], cfg["jitter"]
    cov, xb, nb = b["cov"], b["xu"], b["K_bb"].shape[0]
    key = "C06|%s|%s" % (CLASSES[(fam, cfg["flavour"])], cfg["noise"])
    q = Xq.shape[0]

    def viol(clause, what, extra):
        ctx.violation(key + "|" + clause, what, replay_of(cfg, b, extra))
    L = np.asarray(p.L, dtype=float)
    W = np.asarray(p.W, dtype=float)
    if W.ndim == 1:
        W = W[:, None]
    out = dict(L=L, W=W)
    # ---- the factor: lower triangular, L L^T = K_bb + stated noise (or the supplied factor itself)
    Nst = stated_noise(cfg, b)
    if b["Lgiven"] is not None:
        if L.shape != b["Lgiven"].shape or not np.array_equal(L, b["Lgiven"]):
            viol("L", "the supplied factor L is not the one used for the covariance", {})
            return None
    else:
        Ast = b["K_bb"] + Nst
        res = np.linalg.norm(L @ L.T - Ast) if L.shape == Ast.shape else np.inf
        tolL = 2 * (nb + 2) * nb * U * np.linalg.norm(Ast) + 1e-300
        if not res <= tolL or np.abs(np.triu(L, 1)).max(initial=0.0) != 0.0:
            viol("L", "predictor.L is not the Cholesky factor of K + stated noise", {"residual": float(res), "bound": float(tolL)})
            return None
    Kbq = np.asarray(cov(xb, Xq), dtype=float)
    Ksb = np.asarray(cov(Xq, xb), dtype=float)
    Kss = np.asarray(cov(Xq, Xq), dtype=float)
    kd = np.asarray(cov.diag(Xq), dtype=float)
    out.update(Kbq=Kbq, Ksb=Ksb, Kss=Kss, kd=kd)
    # ---- kernel: diag shortcut agrees with the diagonal of the Gram matrix
    tk = kdiag_tol(cfg, Xq, kd)
    counts["kernel_diag"] += 1
    if kd.shape != (q,) or not (np.abs(kd - np.diag(Kss)) <= 2 * tk).all():
        viol("kernel-diag", "cov_func.diag(X) differs from diag(cov_func(X, X))",
             {"diag": kd.tolist(), "gram_diag": np.diag(Kss).tolist(), "bound": (2 * tk).tolist()})
    Cf = call(p, cfg, "covariance", Xq, False)
    Cd = call(p, cfg, "covariance", Xq, True)
    Mf = call(p, cfg, "mean_covariance", Xq, False)
    Md = call(p, cfg, "mean_covariance", Xq, True)
    Uf = call(p, cfg, "uncertainty", Xq, False)
    Ud = call(p, cfg, "uncertainty", Xq, True)
    out.update(Cf=Cf, Cd=Cd, Mf=Mf, Md=Md)
    if Cf.shape != (q, q) or Cd.shape != (q,) or Mf.shape != (q, q) or Md.shape != (q,) or Uf.shape != (q, q) or Ud.shape != (q,):
        viol("shape", "wrong output shape", {"shapes": [list(a.shape) for a in (Cf, Cd, Mf, Md, Uf, Ud)]})
        return None
    if any(np.isnan(a).any() for a in (Cf, Cd, Mf, Md, Uf, Ud)):
        viol("nan", "NaN in an uncertainty output", {})
        return None
    A, V, Dm = cov_terms(L, Kbq, Kss)
    out.update(Dm=Dm)
    Dd = np.diag(Dm)
    eps, Mhat = joint_defect(L, Kbq, Kss)
    asymK = np.abs(Kss - Kss.T)
    dkd = np.abs(kd - np.diag(Kss))
    vn2 = np.linalg.norm(V, 2) ** 2
    vcol2 = cn(V) ** 2
    # ---- covariance(X, diag=False): symmetric, PSD
    counts["cov_sym_psd"] += 1
    if not (np.abs(Cf - Cf.T) <= 2 * Dm + asymK).all():
        viol("cov-symmetric", "covariance(X, diag=False) is not symmetric", {"max_asym": float(np.abs(Cf - Cf.T).max())})
    lam = np.linalg.eigvalsh(0.5 * (Cf + Cf.T))
    tol_psd = np.linalg.norm(Dm) + 0.5 * np.linalg.norm(asymK) + eps * (1 + 2 * vn2) + 8 * q * U * np.abs(lam).max()
    if not lam[0] >= -tol_psd:
        viol("cov-psd", "covariance(X, diag=False) is not positive semi-definite", {"min_eigenvalue": float(lam[0]), "bound": float(tol_psd)})
    # ---- diag=True is the diagonal of diag=False
    counts["cov_diag"] += 1
    if not (np.abs(np.diag(Cf) - Cd) <= 2 * Dd + dkd).all():
        viol("cov-diag", "covariance(X, diag=True) differs from the diagonal of covariance(X, diag=False)",
             {"diag_true": Cd.tolist(), "diag_of_full": np.diag(Cf).tolist(), "bound": (2 * Dd + dkd).tolist()})
    # ---- 0 <= var <= k(x,x)
    counts["var_bounds"] += 1
    lo = -(Dd + eps * (1 + 2 * vcol2))
    if not ((Cd >= lo - dkd).all() and (np.diag(Cf) >= lo).all()):
        viol("var-negative", "a predictive variance is negative", {"variance": Cd.tolist(), "bound": lo.tolist()})
    if not ((Cd <= kd + Dd).all() and (np.diag(Cf) <= np.diag(Kss) + Dd).all()):
        viol("var-above-prior", "a predictive variance exceeds the prior variance k(x,x)", {"variance": Cd.tolist(), "prior": kd.tolist()})
    # ---- conditioning points: var <= noise level
    Neff = np.diag(Mhat) - np.diag(b["K_bb"])
    absLL = np.sum(np.abs(L) * np.abs(L), axis=1)
    for a, i in b["cond"]:
        counts["var_conditioning"] += 1
        tol = Dd[a] + 2 * (nb + 1) * U * (absLL[i] + abs(b["K_bb"][i, i])) + abs(Kss[a, a] - b["K_bb"][i, i]) + 2 * abs(Kbq[i, a] - b["K_bb"][i, i]) + dkd[a]
        if not (Cd[a] <= Neff[i] + tol and Cf[a, a] <= Neff[i] + tol):
            viol("var-at-conditioning-point", "variance at a conditioning point exceeds the noise level there",
                 {"query_row": a, "conditioning_index": i, "variance": float(Cd[a]), "noise_level": float(Neff[i]), "bound": float(tol)})
            break
    # ---- duplicated query rows: equal rows/columns, the 2x2 block is [[v,v],[v,v]]
    for a, a2 in b["dups"]:
        counts["duplicates"] += 1
        if not (np.abs(Cf[a] - Cf[a2]) <= Dm[a] + Dm[a2] + asymK[a] + asymK[a2] + np.abs(Kss[a] - Kss[a2])).all():
            viol("cov-duplicate-rows", "duplicated query rows give different covariance rows", {"rows": [a, a2]})
            break
    # ---- mean_covariance = (K_*b W)(K_*b W)^T, symmetric, PSD
    B, DM = mc_terms(Ksb, W)
    out.update(DM=DM, B=B)
    counts["mean_cov"] += 1
    if not (np.abs(Mf - B @ B.T) <= DM).all():
        viol("mean-cov-gram", "mean_covariance(X, diag=False) is not (K W)(K W)^T with the predictor's W",
             {"max_dev": float(np.abs(Mf - B @ B.T).max()), "bound": float(DM.max())})
    if not (np.abs(Mf - Mf.T) <= 2 * DM).all():
        viol("mean-cov-symmetric", "mean_covariance(X, diag=False) is not symmetric", {})
    lamM = np.linalg.eigvalsh(0.5 * (Mf + Mf.T))
    if not lamM[0] >= -(np.linalg.norm(DM) + 8 * q * U * np.abs(lamM).max()):
        viol("mean-cov-psd", "mean_covariance(X, diag=False) is not positive semi-definite", {"min_eigenvalue": float(lamM[0])})
    if not (np.abs(np.diag(Mf) - Md) <= 2 * np.diag(DM)).all() or not (Md >= 0).all():
        viol("mean-cov-diag", "mean_covariance(X, diag=True) differs from the diagonal of the full matrix or is negative",
             {"diag_true": Md.tolist(), "diag_of_full": np.diag(Mf).tolist()})
    # ---- uncertainty = covariance + mean_covariance
    counts["sum"] += 1
    if not ((np.abs(Uf - (Cf + Mf)) <= 4 * U * (np.abs(Cf) + np.abs(Mf))).all() and (np.abs(Ud - (Cd + Md)) <= 4 * U * (np.abs(Cd) + np.abs(Md))).all()):
        viol("uncertainty-sum", "uncertainty is not covariance + mean_covariance", {})
    # ---- many query rows (beyond any plausible internal block of rows): row i of the variance belongs to query i
    if cfg["id"] % 5 == 1 and q > 1:
        idxb = np.random.default_rng(cfg["seed"] + 7).integers(0, q, size=5000)
        Cbig = call(p, cfg, "covariance", Xq[idxb], True)
        counts["many_rows"] = counts.get("many_rows", 0) + 1
        # Evaluated among 5000 rows, kernel entries are rounded under another blocking of |x|^2 - 2xy + |y|^2.  Derived bound (as
        # kdiag_tol): the squared distance carries an absolute error 4(d+2)u(|x|^2+|y|^2), the distance that divided by itself
        # (or its square root), the kernel klip times that; a perturbation dk of a column of K_b* moves the variance
        # k** - |L^-1 k|^2 by at most dk** + 2 |a| |L^-1|_2 |dk| (+ its square); the solves themselves add u / jitter.
        dq_ = Xq.shape[1]
        x2b_, x2q_ = np.sum(xb * xb, axis=1)[:, None], np.sum(Xq * Xq, axis=1)[None, :]
        sq_ = np.maximum(x2b_ + x2q_ - 2 * xb @ Xq.T, 0.0)
        dsq_ = 4 * (dq_ + 2) * U * (x2b_ + x2q_)
        ddist_ = np.minimum(dsq_ / np.sqrt(sq_ + 1e-12), np.sqrt(dsq_))
        eK_ = klip(cfg) * ddist_ * (1 + np.abs(Kbq)) + 8 * (dq_ + 2) * U * (np.abs(Kbq) + (x2b_ + x2q_) / cfg["ls"] ** 2)
        sminL_ = max(np.linalg.svd(L, compute_uv=False)[-1], 1e-300)
        dk_ = cn(eK_) / sminL_
        dvar_ = 2 * (kdiag_tol(cfg, Xq, kd) + 2 * cn(A) * dk_ + dk_ ** 2)
        tolb = (2 * (Dd + dkd) + dvar_)[idxb] + 64 * U * np.abs(Cd[idxb]) + (1e-9 + 64 * nb * U / j) * (np.abs(kd[idxb]) + 1.0)
        if Cbig.shape != (5000,) or not (np.abs(Cbig - Cd[idxb]) <= tolb).all():
            viol("many-rows", "among 5000 query rows, a row's variance differs from the variance of the same row in a small batch",
                 {"rows": "Xnew[default_rng(seed + 7).integers(0, len(Xnew), 5000)]",
                  "max_difference": float(np.abs(Cbig - Cd[idxb]).max()) if Cbig.shape == (5000,) else "shape"})
    # ---- history: one NumPy buffer refilled in place between calls - every answer is about the buffer's CURRENT content
    #      (bitwise comparison with the call on a fresh copy of that content; no tolerance)
    counts["buffer_reuse"] = counts.get("buffer_reuse", 0) + 1
    buf = np.array(Xq, dtype=float, copy=True)
    for method in ("covariance", "mean_covariance", "uncertainty"):
        call(p, cfg, method, buf, True)
    Xalt = np.array(Xq[::-1], dtype=float, copy=True)
    Xalt[:, : Xq.shape[1] - (1 if cfg["flavour"] == "time" else 0)] += 0.25
    buf[...] = Xalt
    for method in ("covariance", "mean_covariance", "uncertainty"):
        got = call(p, cfg, method, buf, True)
        want = call(p, cfg, method, np.array(Xalt, copy=True), True)
        if not np.array_equal(got, want, equal_nan=True):
            viol("buffer-reuse|" + method, "%s(buf) after the NumPy buffer was refilled in place differs from the call on a fresh copy of the same points" % method,
                 {"sequence": "buf = Xnew.copy(); p.%s(buf, diag=True); buf[...] = Xalt; p.%s(buf, diag=True) vs p.%s(Xalt.copy(), diag=True)" % (method, method, method),
                  "Xalt": Xalt.tolist(), "got": got.tolist(), "want": want.tolist()})
            break
    # ---- W is the linear propagator of the stated input covariance factor
    Yf = b["Yf"]
    counts["W_equation"] += 1
    if W.shape != (nb, Yf.shape[1]):
        viol("W-shape", "W has shape %s" % (W.shape,), {})
        return out
    wsys = w_system(cfg, b, L)
    if wsys[0] == "tri":
        res = np.abs(L.T @ W - Yf)
        bound = 8 * nb * U * (np.abs(L.T) @ np.abs(W)) + 1e-300
        if (res > bound).any():
            viol("W-equation", "W does not satisfy L^T W = diag(sigma)", {"max_ratio": float((res / bound).max())})
    else:
        _, Asys, rhs, extra, _amp = wsys
        for c_ in range(W.shape[1]):
            r = np.linalg.norm(Asys @ W[:, c_] - rhs[:, c_])
            t = solve_tol(Asys, W[:, c_], rhs[:, c_], extra)
            if not r <= t:
                viol("W-equation", "W does not solve the normal equations of the mean function with right-hand side Y_f",
                     {"column": c_, "residual": float(r), "bound": float(t)})
                break
    return out


def w_system(cfg, b, L):
    """defining equation of W: ('tri',) for L^T W = Y_f; ('sys', A, rhs, extra, amp) for A W = rhs, amp = provable bound on
    |k_*^T A^-1 v| / |v|  (k_* a kernel column with prior variance kss; multiply by sqrt(kss))"""
    fam, j = cfg["fam"], cfg["jitter"]
    Yf = b["Yf"]
    if fam == "chol":
        return ("tri",)
    if fam == "full":
        if b["Lgiven"] is not None:
            A = L @ L.T
            extra = 2.0
        else:
            A = b["K_bb"] + stated_noise(cfg, b)
            extra = 1.0
        lam = np.linalg.eigvalsh(A)[0] - 8 * A.shape[0] * U * np.linalg.norm(A, 2)
        amp = 1.0 / np.sqrt(lam) if lam > 0 else np.inf
        return ("sys", A, Yf, extra, amp)
    Kuf = np.asarray(b["cov"](b["xu"], b["x"]), dtype=float)
    Ap = b["K_bb"] + j * np.eye(b["m"])
    A = Kuf @ Kuf.T + j * Ap
    kappa = np.sqrt((np.linalg.norm(b["K_bb"], 2) + j) / j)
    return ("sys", A, Kuf @ Yf, kappa, 1.0 / (j * np.sqrt(j)))


def refit_clause(ctx, cfg, b, out, counts):
    """shifting the values by column c of the input-covariance factor shifts the mean by column c of K_*b W"""
    fam, p, Xq = cfg["fam"], b["p"], b["Xq"]
    key = "C06|%s|%s|refit-propagation" % (CLASSES[(fam, cfg["flavour"])], cfg["noise"])
    W, B, L = out["W"], out["B"], out["L"]
    c_ = cfg["id"] % W.shape[1]
    b2 = build(cfg, with_uncertainty=False, shift=c_)
    p2 = b2["p"]
    f = (lambda pp: np.asarray(pp(Xq, logscale=True), dtype=float)) if cfg["flavour"] == "exp" else (lambda pp: np.asarray(pp(Xq), dtype=float))
    m1, m2 = col2(f(p)), col2(f(p2))
    w1, w2 = col2(np.asarray(p.weights, dtype=float)), col2(np.asarray(p2.weights, dtype=float))
    Ksb = out["Ksb"]
    kss = np.sqrt(np.maximum(out["kd"], 0.0))[:, None]
    wc = W[:, c_:c_ + 1]
    read = 8 * (Ksb.shape[1] + 2) * U * (np.abs(Ksb) @ (np.abs(w1) + np.abs(w2) + np.abs(wc))) + 16 * U * abs(b["mu"]) + 1e-300
    wsys = w_system(cfg, b, L)
    if wsys[0] == "tri":
        # |K_*b L^-T v| <= sqrt(k(x,x)) |v| whenever L L^T >= K_bb; v collects the backward errors of three triangular solves
        nb = L.shape[0]
        v = 8 * nb * U * np.linalg.norm(np.abs(L.T) @ (np.abs(w1) + np.abs(w2) + np.abs(wc)), axis=0) \
            + 4 * U * np.linalg.norm(np.abs(col2(b2["vals"])) + np.abs(col2(b["vals"])) + np.abs(b["Yf"][:, c_:c_ + 1]), axis=0)
        smin = np.linalg.eigvalsh(L @ L.T - b["K_bb"])[0]
        if smin < -8 * nb * U * np.linalg.norm(b["K_bb"], 2):
            return      # supplied factor not above K: the amplification bound does not apply
        tol = 2 * kss * v[None, :] + read
    else:
        _, A, rhsW, extra, amp = wsys
        if not np.isfinite(amp):
            return
        if fam == "full":
            r1, r2 = col2(b["vals"]) - b["mu"], col2(b2["vals"]) - b["mu"]
        else:
            Kuf = np.asarray(b["cov"](b["xu"], b["x"]), dtype=float)
            r1, r2 = Kuf @ (col2(b["vals"]) - b["mu"]), Kuf @ (col2(b2["vals"]) - b["mu"])
        rc = rhsW[:, c_:c_ + 1]
        tot = 0.0
        for w_, r_ in ((w1, r1), (w2, r2), (np.repeat(wc, w1.shape[1], axis=1), np.repeat(rc, w1.shape[1], axis=1))):
            tot = tot + np.linalg.norm(A @ w_ - r_, axis=0) + resid_eval_err(A, w_, r_)
        gap = np.linalg.norm(r2 - r1 - rc, axis=0)            # rounding of forming the shifted right-hand side
        tol = kss * amp * (tot + gap)[None, :] + read
    counts["refit"] += 1
    dev = np.abs((m2 - m1) - B[:, c_:c_ + 1])
    if not (dev <= tol).all():
        ctx.violation(key, "refitting with values shifted by a column of the input-covariance factor does not shift the mean by that column of K W",
                      replay_of(cfg, b, {"column": c_, "max_dev": float(dev.max()), "bound": float(np.max(tol)),
                                         "expected_shift": B[:, c_].tolist(), "observed_shift": (m2 - m1).tolist()}))


def guards_clause(ctx, cfg, counts):
    """predictors built without uncertainty refuse covariance / mean_covariance / uncertainty with ValueError"""
    b = build(cfg, with_uncertainty=False)
    p, Xq = b["p"], b["Xq"]
    for meth in ("covariance", "mean_covariance", "uncertainty"):
        for dg in (True, False):
            counts["guards"] += 1
            try:
                call(p, cfg, meth, Xq, dg)
            except ValueError:
                continue
            except Exception as e:
                ctx.violation("C06|%s|guard|%s" % (CLASSES[(cfg["fam"], cfg["flavour"])], meth),
                              "%s on a predictor built without uncertainty raised %s instead of ValueError" % (meth, type(e).__name__),
                              replay_of(cfg, b, {"with_uncertainty": False, "diag": dg}))
                return
            ctx.violation("C06|%s|guard|%s" % (CLASSES[(cfg["fam"], cfg["flavour"])], meth),
                          "%s on a predictor built without uncertainty returned a value" % meth,
                          replay_of(cfg, b, {"with_uncertainty": False, "diag": dg}))
            return


def nested_clause(ctx, rng, thorough, counts):
    """variance never increases when inducing points are added (same kernel, same jitter, y_is_mean=True)"""
    mc = real_module("mellon.conditional")
    for rep in range(3 if thorough else 1):
        for kname in KERNELS:
            for fam in ("chol", "dtc"):
                seed = rng.randrange(2 ** 31)
                r = np.random.default_rng(seed)
                d = int(r.choice([1, 2, 3, 5]))
                j = float(r.choice([1e-8, 1e-6, 1e-4, 1e-3]))
                ls = float(r.choice([0.3, 1.0, 3.0]))
                cov, kdesc = make_kernel(r, kname, ls, False)
                n = int(r.choice([10, 25, 40]))
                x = dataset(r, n, d, str(r.choice(["gauss", "clustered"])))
                sizes = sorted(set([2, max(3, n // 4), max(4, n // 2), n]))
                allu = np.vstack([x[: n // 2], dataset(r, n - n // 2, d, "gauss")])
                Xq = np.vstack([dataset(r, 5, d, "gauss") * 1.5, x[:2], allu[-1:]])
                prev = None
                for mm in sizes:
                    xu = allu[:mm]
                    if fam == "chol":
                        p = mc.LandmarksConditionalCholesky(xu, r.normal(size=mm), 0.0, cov, n, sigma=0.1, jitter=j, y_is_mean=True, with_uncertainty=True)
                    else:
                        p = mc.LandmarksConditional(x, xu, r.normal(size=n), 0.0, cov, jitter=j, y_cov_factor=0.1 * np.eye(n)[:, :3],
                                                    y_is_mean=True, with_uncertainty=True)
                    L = np.asarray(p.L, dtype=float)
                    Kbq = np.asarray(cov(xu, Xq), dtype=float)
                    Kss = np.asarray(cov(Xq, Xq), dtype=float)
                    Kuu = np.asarray(cov(xu, xu), dtype=float)
                    var = np.asarray(p.covariance(Xq, diag=True), dtype=float)
                    A, V, Dm = cov_terms(L, Kbq, Kss)
                    E = np.linalg.norm(L @ L.T - (Kuu + j * np.eye(mm))) + 2 * mm * U * np.trace(Kuu + j * np.eye(mm))
                    err = np.diag(Dm) + 2 * E * np.sum(V * V, axis=0)
                    if prev is not None:
                        pv, perr, pK, pKbq, pV = prev
                        # the smaller Gram matrix must be the leading block of the larger one (kernel batch independence), else
                        # the measured discrepancy enters the tolerance
                        mp = pK.shape[0]
                        disc = np.linalg.norm(Kuu[:mp, :mp] - pK) * np.sum(pV * pV, axis=0) + 2 * np.linalg.norm(Kbq[:mp] - pKbq, axis=0) * np.linalg.norm(pV, axis=0)
                        counts["nested"] += 1
                        tol = err + perr + 2 * disc
                        if not (var <= pv + tol).all():
                            a = int(np.argmax(var - pv - tol))
                            ctx.violation("C06|%s|nested-inducing-points" % ("LandmarksConditionalCholesky" if fam == "chol" else "LandmarksConditional"),
                                          "a predictive variance increased when inducing points were added",
                                          dict(kernel_desc=kdesc, jitter=j, landmarks_small=allu[:mp].tolist(), landmarks_large=xu.tolist(), x=x.tolist(),
                                               Xnew=Xq.tolist(), var_small=pv.tolist(), var_large=var.tolist(), row=a, bound=tol.tolist(), seed=seed))
                            break
                    prev = (var, err, Kuu, Kbq, V)


def factor_clause(ctx, cfg, b, counts):
    """compute_parameter_cov_factor(std, L) == L * std[None, :] exactly"""
    if b["Lfac"] is None:
        return
    counts["cov_factor"] += 1
    exp = b["Lfac"] * b["std"][None, :]
    if b["ycf"].shape != exp.shape or not np.array_equal(b["ycf"], exp):
        ctx.violation("C06|compute_parameter_cov_factor", "compute_parameter_cov_factor(std, L) is not L * std[None, :]",
                      dict(std=b["std"].tolist(), L=b["Lfac"].tolist(), observed=b["ycf"].tolist()))


# ------------------------------------------------------------------ Coq correspondence
def model_terms(cfg, b, out, meta):
    fam, j = cfg["fam"], cfg["jitter"]
    vals = col2(b["vals"])
    c = vals.shape[1]
    q = b["Xq"].shape[0]
    g = GEN[fam]
    kb = KB[fam]
    mb = out["L"].shape[0]
    k = out["W"].shape[1]
    terms = []
    name = INIT_NAME[(fam, cfg["noise"])]
    if name is not None:
        sig = b["sigma"] if b["ycf"] is None else 0.0
        args = dict(mu=b["mu"], jitter=j, sigma=sig, y=vals, K_x_x=b["K_bb"], K_xu_xu=b["K_bb"], pre_transformation=vals, n_obs=cfg["n"],
                    L=b["Lgiven"], y_cov_factor=b["ycf"])
        if fam == "dtc":
            args["K_xu_x"] = np.asarray(b["cov"](b["xu"], b["x"]), dtype=float)
        dims = dict(n=cfg["n"], m=b["m"], c=c, k=k)
        if fam == "full":
            dims["n"] = b["nb"]
        if b["Lgiven"] is None:     # with a supplied factor the generated attribute is the parameter itself (`:= L`)
            terms.append(matgen.coq_call(meta, name + "_L", dims, args))
        terms.append(matgen.coq_call(meta, name + "_W", dims, args))
    dq = dict(q=q, b=mb, k=k)
    a = {"Kdiag_Xnew": out["kd"], "K_Xnew_Xnew": out["Kss"], "K_%s_Xnew" % kb: out["Kbq"], "K_Xnew_%s" % kb: out["Ksb"], "L": out["L"], "W": out["W"]}
    for nm in ("covariance_dF", "covariance_dT", "mean_covariance_dF", "mean_covariance_dT"):
        terms.append(matgen.coq_call(meta, "%s_%s" % (g, nm), dq, a))
    if b["Lfac"] is not None:
        terms.append(matgen.coq_call(meta, "compute_parameter_cov_factor", dict(p=b["Lfac"].shape[1], n=b["Lfac"].shape[0]),
                                     dict(pre_transformation_std=b["std"], L=b["Lfac"])))
    return name, terms


def correspond(ctx, items, meta):
    from concurrent.futures import ThreadPoolExecutor
    jobs = []
    for it in items:
        name, terms = model_terms(it["cfg"], it["b"], it["out"], meta)
        jobs.append((it, name, terms))
    shards = [jobs[i::8] for i in range(8)]

    def one(kk):
        if not shards[kk]:
            return []
        body = [matgen.HEADER]
        for (it, name, terms) in shards[kk]:
            for t in terms:
                body.append("Eval vm_compute in %s." % t)
        txt = ctx.coq_eval("c06_%d" % kk, "\n".join(body), timeout=900)
        parts = [pp.split("\n     :")[0] for pp in re.split(r"\n\s*=\s", "\n" + txt)[1:]]
        pos, res = 0, []
        for (it, name, terms) in shards[kk]:
            mats = [matgen.parse_matrix(t) for t in parts[pos:pos + len(terms)]]
            pos += len(terms)
            res.append((it, name, mats))
        if pos != len(parts):
            raise Broken("correspondence", "c06_%d" % kk, "unexpected number of results")
        return res
    results = []
    try:
        with ThreadPoolExecutor(max_workers=8) as ex:
            for r in ex.map(one, range(8)):
                results += r
    except Broken as bk:
        ctx.broken.append(bk)
        return 0
    n_ok = 0
    for it, name, mats in results:
        cfg, b, out = it["cfg"], it["b"], it["out"]
        tag = "%s (%s/%s)" % (name or GEN[cfg["fam"]], cfg["noise"], cfg["kernel"])

        def bad(msg):
            ctx.broken.append(Broken("correspondence", tag, msg + ", configuration %r" % (cfg,)))
        pos = 0
        ok = True
        if name is not None:
            if b["Lgiven"] is None:
                L_m, W_m = mats[0], mats[1]
                pos = 2
            else:
                L_m, W_m = b["Lgiven"], mats[0]
                pos = 1
            L_i, W_i = out["L"], out["W"]
            if L_m.shape != L_i.shape or W_m.shape != W_i.shape or np.isnan(L_m).any() or np.isnan(W_m).any():
                bad("model L/W has shape %s / %s or NaN" % (L_m.shape, W_m.shape))
                continue
            nb = L_m.shape[0]
            if b["Lgiven"] is None:
                Ast = b["K_bb"] + stated_noise(cfg, b)
                if np.abs(np.triu(L_m, 1)).max(initial=0.0) != 0.0 or np.linalg.norm(L_m @ L_m.T - Ast) > 2 * (nb + 2) * nb * U * np.linalg.norm(Ast) + b["K_asym"]:
                    bad("model factor is not a Cholesky factor of K + stated noise (residual %.3g)" % np.linalg.norm(L_m @ L_m.T - Ast))
                    ok = False
            wsys = w_system(cfg, b, L_m)
            if wsys[0] == "tri":
                res = np.abs(L_m.T @ W_m - b["Yf"])
                if (res > 8 * nb * U * (np.abs(L_m.T) @ np.abs(W_m)) + 1e-300).any():
                    bad("model W violates L^T W = diag(sigma)")
                    ok = False
            else:
                _, Asys, rhs, extra, _amp = wsys
                for c_ in range(W_m.shape[1]):
                    if not np.linalg.norm(Asys @ W_m[:, c_] - rhs[:, c_]) <= solve_tol(Asys, W_m[:, c_], rhs[:, c_], extra):
                        bad("model W does not solve the stated equations (column %d)" % c_)
                        ok = False
                        break
        Cf_m, Cd_m, Mf_m, Md_m = mats[pos:pos + 4]
        pos += 4
        q = b["Xq"].shape[0]
        if Cf_m.shape != (q, q) or Cd_m.shape != (q, 1) or Mf_m.shape != (q, q) or Md_m.shape != (q, 1):
            bad("model covariance shapes %s %s %s %s" % (Cf_m.shape, Cd_m.shape, Mf_m.shape, Md_m.shape))
            continue
        Dm, DM = out["Dm"], out["DM"]
        for what, m_, i_, t_ in (("covariance diag=False", Cf_m, out["Cf"], 2 * Dm), ("covariance diag=True", Cd_m[:, 0], out["Cd"], 2 * np.diag(Dm)),
                                 ("mean_covariance diag=False", Mf_m, out["Mf"], 2 * DM), ("mean_covariance diag=True", Md_m[:, 0], out["Md"], 2 * np.diag(DM))):
            if not (np.abs(m_ - i_) <= t_).all():
                w_ = np.unravel_index(np.argmax(np.abs(m_ - i_) - t_), np.shape(t_))
                bad("model and implementation %s differ at %s: %.17g vs %.17g, bound %.3g" % (what, w_, m_[w_], i_[w_], t_[w_]))
                ok = False
        if b["Lfac"] is not None:
            F_m = mats[pos]
            if F_m.shape != b["ycf"].shape or not np.array_equal(F_m, b["ycf"]):
                bad("model compute_parameter_cov_factor differs from the implementation")
                ok = False
        n_ok += ok
    return n_ok


def run(ctx):
    import jax.numpy as jnp  # noqa: F401
    mc = real_module("mellon.conditional")
    quiet()
    rng = random.Random(ctx.seed)
    ctx.cov["trusted_base"] = TRUSTED_COMMON + [
        "jnp.linalg.cholesky contract (lower-triangular, positive diagonal, L L^T = A; else NaN) - validated by residual on every recorded call",
        "jax.scipy.linalg.solve_triangular = inverse of the stated triangle - validated by residual on every recorded call",
        "joint kernel Gram matrix of conditioning and query points symmetric positive semi-definite (hypothesis of the theorems; its measured "
        "defect enters the tolerance of the PSD clauses)",
        "PrimFloat list instance (lib/MxFloat.v) only executes the generated model; no theorem depends on it",
    ]
    ctx.assumptions += ["theorems are over exact real-closed-field arithmetic; binary64 rounding enters only through the derived comparison tolerances "
                        "(Higham 2002 Thm 8.5 / 10.3 / 10.4 backward-error bounds, see module docstring)",
                        "configurations that die with a shape TypeError on the current tree (C15 findings: inducing points + uncertainty without "
                        "y_cov_factor, per-cell sigma with inducing points) are excluded"]
    gen = meta = None
    try:
        gen, funcs, meta, _tr = matgen.translate_all(REPO)
        from translate import pyunc
        try:
            unc_text, unc_funcs = pyunc.emit(REPO)      # the uncertainty = covariance + mean_covariance wrappers
        except pyunc.Unsupported as u:
            raise matgen.Unsupported("uncertainty wrappers: %s" % u)
        gen = dict(gen)
        gen["gen/C06Unc.v"] = unc_text
        ctx.cov["translated_functions"] = funcs + unc_funcs
        ctx.build_props(gen, extra_targets=["lib/MxFloat.vo"])
    except matgen.Unsupported as u:
        ctx.broken.append(Broken("translation", "matrix subset", str(u)))
    except matgen.PathError as e:
        ctx.broken.append(Broken("translation", "static path raises", str(e)))
    except FileNotFoundError as e:
        ctx.broken.append(Broken("proof", "props/C06.v", "property file missing: %s" % e))

    cfgs = make_configs(rng, ctx.thorough)
    rec = SymRecorder([mc])
    counts = dict(kernel_diag=0, cov_sym_psd=0, cov_diag=0, var_bounds=0, var_conditioning=0, duplicates=0, mean_cov=0, sum=0,
                  W_equation=0, refit=0, guards=0, nested=0, cov_factor=0)
    items, dist = [], {}
    refused = 0
    with rec:
        for cfg in cfgs:
            cname = CLASSES[(cfg["fam"], cfg["flavour"])]
            try:
                b = build(cfg)
            except ValueError as e:
                if "positively definite" in str(e):
                    refused += 1
                    continue
                raise
            except (TypeError, AssertionError, IndexError, AttributeError) as e:
                ctx.violation("C06|%s|%s|%s" % (cname, cfg["noise"], type(e).__name__),
                              "constructing the predictor with uncertainty raised %s: %s" % (type(e).__name__, str(e)[:200]), dict(cfg))
                continue
            try:
                out = searcher(ctx, cfg, b, counts)
                if out is not None and "B" in out:
                    factor_clause(ctx, cfg, b, counts)
                    refit_clause(ctx, cfg, b, out, counts)
                    if cfg["id"] % 3 == 1:
                        guards_clause(ctx, cfg, counts)
            except (TypeError, AssertionError, IndexError, AttributeError, ValueError) as e:
                ctx.violation("C06|%s|%s|%s" % (cname, cfg["noise"], type(e).__name__),
                              "an uncertainty method raised %s: %s" % (type(e).__name__, str(e)[:200]), replay_of(cfg, b, {}))
                continue
            if out is not None and "DM" in out:
                items.append(dict(cfg=cfg, b=b, out=out))
            k2 = "%s/%s/%s" % (cfg["fam"], cfg["flavour"], cfg["noise"])
            dist[k2] = dist.get(k2, 0) + 1
        nested_clause(ctx, rng, ctx.thorough, counts)
    for f in rec.failures[:5]:
        ctx.broken.append(Broken("contract", f.split(":")[0], f))

    n_eval = 0
    import os
    skip = ("gate",) if os.environ.get("VERIF_FORCE_CORRESPONDENCE") else ("proof", "gate")   # development aid only
    if gen is not None and not any(bk.kind in skip for bk in ctx.broken):
        n_eval = correspond(ctx, items, meta)
        try:        # the generated model is shared (coq/gen): a concurrent run on another tree may have replaced it meanwhile
            with open(os.path.join(os.path.dirname(os.path.dirname(os.path.abspath(__file__))), "coq", "gen", "MatGen.v")) as fh:
                if fh.read() != gen["gen/MatGen.v"] and any(bk.kind == "correspondence" for bk in ctx.broken):
                    ctx.broken.append(Broken("harness", "concurrent-regeneration", "coq/gen/MatGen.v was rewritten by another run during the "
                                             "correspondence of this one (its results may stem from a different tree); rerun when no other check is running"))
        except OSError:
            pass
    ctx.cov["evaluations"] = n_eval
    ctx.cov["traces_validated_against_impl"] = n_eval
    ctx.cov["distinct_nontrivial"] = len(dist)
    ctx.cov["input_distribution"] = dist
    ctx.cov["searcher_checks"] = counts
    ctx.cov["contracts_validated"] = dict(rec.counts, cholesky_nan=rec.chol_nan)
    ctx.cov["refused_not_positive_definite"] = refused
    ctx.cov["max_relative_asymmetry_of_cholesky_inputs"] = rec.max_rel_asym
    ctx.cov["rule"] = ("%d seeded configurations: 3 formulations x 3 predictor flavours (all 9 classes, with_uncertainty=True) x 6 kernels "
                       "(+compositions), n<=60 (quick), d in {1,2,3,5,25}, 4 data shapes, ls over 2 decades, jitter 1e-8..1e-3, input-uncertainty "
                       "forms {none, scalar sigma (also below sqrt(jitter)), per-cell sigma, latent std vector through "
                       "compute_parameter_cov_factor (n x p, p<n and p>n), supplied factor L}, built directly and through compute_conditional "
                       "with pre_transformation_std; query set = 3 conditioning points + 2 far rows + 3 generic rows + 2 duplicated rows. "
                       "Each: symmetry, PSD, diag/full agreement, 0<=var<=k(x,x), var<=noise at conditioning points, mean_covariance = "
                       "(KW)(KW)^T sym PSD, W solves the normal equations of the mean with right-hand side Y_f, refit-shift corollary, "
                       "uncertainty = sum, ValueError guards; nested inducing sets (6 kernels x 2 families x 3-4 sizes); the generated "
                       "Gallina definitions (L, W, covariance, mean_covariance, cov factor) run with PrimFloat in Coq on the same matrices. "
                       "distinct_nontrivial = distinct (formulation, flavour, uncertainty form)." % len(cfgs))
    ctx.cov["samples"] = [dict(it["cfg"]) for it in items[:3]]
