"""C05 - kernels compute their documented closed forms and are valid covariances.

translate (translate/pyscalar.py: the six `k` bodies, util.distance, the Add/Mul/Pow node arithmetic,
select_active_dims / expand_to_inactive and compute_cov_func by exact AST pattern)
-> build props/C05.v (closed forms, distance entry, stationary range, symmetry, pointwise algebra,
   inactive dimensions, time product; all inputs, all tree depths)
-> run the implementation on generated point sets / hyper-parameters / expression trees
-> correspondence: every sampled float input is converted to an exact rational and the generated
   real-valued model is enclosed at that very point by Interval inside Coq:
       Rabs (model q1 .. qk - impl_value) <= tol        (closed by Qed)
   with tol DERIVED (harness/worldA.py: squared-distance cancellation (2d+8)u(|x|^2+|y|^2) through
   min(sqrt(delta), delta/dist), times the sup of |phi'| on the affected interval, + 64 ulp, propagated
   through sums/products/powers), never tuned
-> independent searcher: NumPy evaluation of the documented formulas on NumPy-indexed coordinates.

Hand-written part (said so on purpose): the recursion scheme of the deep embedding kexpr/keval
(coq/thm/AKExpr.v) is written by hand over the GENERATED node arithmetic; the translator only accepts
base_cov.py when Add/Mul/Pow.k have exactly the shape that scheme encodes, and the scheme is tied to
the implementation by the executable correspondence below (trees to depth 3, six active_dims forms).
Positive semi-definiteness of the stationary kernels is NOT proved (Bochner); it is tested numerically
as support only.
"""
import logging
import math
import random

import numpy as np

from harness import worldA as W
from translate import pyscalar
from vlib import core
from vlib.core import Broken, TRUSTED_COMMON, REPO

IMPORTS = "ALists AKernels AKExpr ACovFunc ACaseTac"


def build(ctx, pid_targets=("thm/ACaseTac.vo", "gen/ACovFunc.vo")):
    """translate + prove; returns True when the generated model is available for execution in Coq"""
    try:
        gen, funcs = pyscalar.translate_kernels(REPO)
    except pyscalar.Unsupported as u:
        ctx.broken.append(Broken("translation", "kernels", str(u)))
        return False
    ctx.cov["translated_functions"] = funcs
    ok = ctx.build_props(gen, extra_targets=list(pid_targets))
    if not ok:
        # a proof broke: the model itself may still compile, so that the correspondence can run
        with core.Lock():
            rc, out = core.coq_make(list(pid_targets))
        return rc == 0
    return True


def entry_picks(rng, n, m, k=3):
    """(i,j) entries sent to Coq: the coincident and near-coincident pairs and one random pair"""
    p = [(0, 1), (1 % n, 2), (rng.randrange(n), rng.randrange(m))]
    if k >= 3:
        return p
    return [p[2]] + ([rng.choice(p[:2])] if k == 2 else [])


def run(ctx):
    import jax.numpy as jnp
    import mellon
    import importlib
    mu = importlib.import_module("mellon.util")          # (the attribute mellon.util is the public facade _util)
    mp = importlib.import_module("mellon.parameters")
    mc = importlib.import_module("mellon.cov")
    mellon.logger.setLevel(logging.CRITICAL)
    rng = random.Random(ctx.seed * 7919 + 5)
    T = ctx.thorough
    ctx.cov["trusted_base"] = TRUSTED_COMMON + [
        "Coquelicot / Interval (reflexive, kernel-checked); the standard real-number axioms",
        "XLA element-wise sqrt/exp/pow/log within 64 ulp; IEEE-754 binary64 + - * / (derived error bounds in harness/worldA.py)",
        "the hand-written recursion scheme of coq/thm/AKExpr.v (pattern-checked by the translator, executed against the implementation here)",
    ]
    ctx.assumptions += [
        "positive semi-definiteness of Linear, ExpQuad and integer-alpha RatQuad Gram matrices is proved (C05_linear_gram_psd, C05_expquad_gram_psd, C05_ratquad_*); for Matern32/52, Exponential and RatQuad with non-integer alpha it is NOT proved (Bochner's theorem is not in the installed libraries): the smallest eigenvalue of sampled Gram matrices is tested as support only",
        "RatQuad docstring prints the exponent as -alpha*l; code and theorem use -alpha (observation, not a finding)",
        "vmap/expand_dims in Covariance.diag are library behaviour: diag is tied by correspondence only",
    ]
    import time
    t0 = time.time()
    model = build(ctx)
    phase = {"translate+prove": round(time.time() - t0, 1)}
    t0 = time.time()

    goals, meta = [], []          # Interval goals and what they are about
    evals = 0
    dist_ct = {}
    shapes_seen = set()
    worst = {"ratio": 0.0}

    def bump(k):
        dist_ct[k] = dist_ct.get(k, 0) + 1

    def compare(key, what, impl, v, tol, replay):
        """independent oracle: |impl - documented formula| <= derived bound (+ the oracle's own rounding)"""
        nonlocal evals
        evals += 1
        if not np.isfinite(tol):
            return
        slack = tol + 32 * W.U * abs(v)
        if not (abs(impl - v) <= slack):
            replay = dict(replay, expected=v, observed=float(impl), allowed_error=slack)
            ctx.violation(key, what, replay)
        elif slack > 0:
            worst["ratio"] = max(worst["ratio"], abs(impl - v) / slack)

    # ---------------------------------------------------------------- A. distance entries
    for width in [1, 2, 3, 5, 25] + ([8, 13] if T else []):
        for rep in range(2 if T else 1):
            X, Y = W.point_sets(rng, width)
            D = np.asarray(mu.distance(jnp.asarray(X), jnp.asarray(Y)))
            Dt = np.asarray(mu.distance(jnp.asarray(Y), jnp.asarray(X)))
            for i in range(X.shape[0]):
                for j in range(Y.shape[0]):
                    d, derr = W.dist_oracle(X[i], Y[j])
                    compare("C05|distance|width=%d" % width, "util.distance differs from sqrt(|x-y|^2+1e-12)", D[i, j], d, derr,
                            {"call": "mellon.util.distance(x[None], y[None])", "x": X[i].tolist(), "y": Y[j].tolist()})
                    compare("C05|distance-symmetry|width=%d" % width, "util.distance is not symmetric", Dt[j, i], d, derr,
                            {"call": "mellon.util.distance(y[None], x[None])", "x": X[i].tolist(), "y": Y[j].tolist()})
                    if not (D[i, j] >= 0):  # pragma: no cover
                        ctx.violation("C05|distance-negative", "negative or NaN distance", {"x": X[i].tolist(), "y": Y[j].tolist()})
                    if (T and width <= 5) or j in (1, 2) or (i, j) in ((0, 0), (2, 3), (1, 4), (0, 5)):
                        goals.append(("Rabs (dist_pts %s %s - %s) <= %s" % (W.Rlist(X[i]), W.Rlist(Y[j]), W.R(D[i, j]),
                                                                         W.Rup(derr + 4 * W.U * abs(D[i, j]))), "kcase"))
                        meta.append({"group": "distance", "width": width, "x": X[i].tolist(), "y": Y[j].tolist()})
                        bump("distance/width=%d" % width)

    # ---------------------------------------------------------------- B. profiles at the implementation's own distances
    for name in W.STATIONARY:
        for ls in [0.01, 0.1, 0.37, 1.0, 3.3, 10.0, 100.0][:: 1 if T else 1]:
            width = rng.choice([1, 2, 3])
            X, Y = W.point_sets(rng, width)
            # distances spanning the interesting range of r = dist/ls
            Y = X[0] + (Y - X[0]) * (ls / max(1e-3, np.abs(Y - X[0]).max())) * rng.choice([0.3, 1.0, 3.0, 10.0])
            Y[1] = X[0]
            alpha = float(np.float64(10.0 ** rng.uniform(-2, 2))) if name == "RatQuad" else None
            node = W.Node("base", W.make_ad("none", rng, width), name=name, ls=float(ls), alpha=alpha)
            cov = node.build()
            K = np.asarray(cov(jnp.asarray(X), jnp.asarray(Y)))
            D = np.asarray(mu.distance(jnp.asarray(X), jnp.asarray(Y)))
            for j in range(Y.shape[0] if T else 4):
                d = float(D[0, j])
                v = W.phi(name, ls, alpha, d)
                kappa = 64.0
                if name == "RatQuad":
                    kappa += 4 * alpha + 2 * abs(alpha * math.log1p(d * d / (2 * alpha * ls * ls)))
                tol = 8 * W.U * abs(d * W.dphi(name, ls, alpha, d)) + kappa * W.U * abs(v) + W.TINY
                compare("C05|profile|%s" % name, "%s value differs from its documented formula of the distance" % name,
                        K[0, j], v, tol, {"call": "mellon.cov.%s(ls=%r%s)(x[None], y[None])" % (name, ls, ", alpha=%r" % alpha if alpha else ""),
                                          "x": X[0].tolist(), "y": Y[j].tolist(), "distance_seen_by_kernel": d})
                args = (W.R(alpha) + " " if alpha is not None else "") + W.R(ls) + " " + W.R(d)
                goals.append(("Rabs (%s_k %s - %s) <= %s" % (name, args, W.R(K[0, j]), W.Rup(tol)), "kcase"))
                meta.append({"group": "profile", "kernel": name, "ls": ls, "alpha": alpha, "dist": d})
                bump("profile/%s" % name)

    # ---------------------------------------------------------------- C/D. expression trees on point sets
    trees = []
    for name in W.BASES:                      # C: every base kernel x every active_dims form
        for kind in W.AD_KINDS:
            for _ in range(2 if T else 1):
                width = rng.choice([1, 2, 3, 4, 6])
                trees.append(("base", W.random_base(rng, width, name=name, ad_kind=kind), width))
    for name in W.BASES:                      # 25 features
        trees.append(("base25", W.random_base(rng, 25, name=name), 25))
    for shape in W.depth2_shapes():           # D: depth 2 exhaustively x the six forms at the root
        for kind in W.AD_KINDS:
            width = rng.choice([2, 3, 4, 5])
            trees.append(("depth2", W.depth2_tree(rng, shape, width, kind), width))
    for _ in range(240 if T else 60):         # depth 3 sampled
        width = rng.choice([2, 3, 4, 6])
        trees.append(("depth3", W.random_tree(rng, 3, width), width))

    # Pow nodes of the psd closure (C05_keval_psd_elementary_pow / C05_pow_node_psd): (k1 * k2 + c) ** n with stationary leaves,
    # c >= 0 and a positive integer exponent; their Gram matrices go through the eigenvalue test below (support for the
    # stationary leaves whose own positive semi-definiteness is a hypothesis)
    stat = [b for b in W.BASES if b != "Linear"]
    for _ in range(12 if T else 6):
        width = rng.choice([2, 3, 5])
        l1 = W.random_base(rng, width, name=rng.choice(stat), ad_kind="none")
        l2 = W.random_base(rng, width, name=rng.choice(stat), ad_kind="none")
        inner = W.Node("addc", W.make_ad("none", rng, width), left=W.Node("mul", W.make_ad("none", rng, width), left=l1, right=l2),
                       c=float(rng.choice([0.0, 0.5, 2.0])))
        trees.append(("powpsd", W.Node("pow", W.make_ad("none", rng, width), left=inner, c=float(rng.choice([2, 3, 4]))), width))

    psd_checked = 0
    for group, node, width in trees:
        X, Y = W.point_sets(rng, width)
        try:
            cov = node.build()
            K = np.asarray(cov(jnp.asarray(X), jnp.asarray(Y)))
            Kt = np.asarray(cov(jnp.asarray(Y), jnp.asarray(X)))
            Kd = np.asarray(cov.diag(jnp.asarray(X)))
        except Exception as e:  # noqa
            ctx.violation("C05|exception|%s" % node.shape(), "kernel evaluation raised %s" % type(e).__name__,
                          {"kernel": node.describe(), "x": X.tolist(), "y": Y.tolist(), "error": repr(e)})
            continue
        if K.shape != (X.shape[0], Y.shape[0]) or Kd.shape != (X.shape[0],):
            ctx.violation("C05|shape|%s" % node.shape(), "wrong output shape", {"kernel": node.describe(), "shape": list(K.shape)})
            continue
        shapes_seen.add((node.shape(), node.ad.kind))
        bump("%s/%s" % (group, node.ad.kind))
        picks = entry_picks(rng, X.shape[0], Y.shape[0], 3 if (T or group.startswith("base")) else 2 if group == "depth3" else 1)
        if group == "depth2" and not T and rng.random() < 0.5:
            picks = [rng.choice([(0, 1), (1 % X.shape[0], 2)])]
        rp = {"kernel": node.describe()}
        for i in range(X.shape[0]):
            for j in range(Y.shape[0]):
                v, tol, _, _, ok = node.oracle(X[i], Y[j])
                if not ok or not np.isfinite(v):
                    continue
                r2 = dict(rp, call="cov(x[None], y[None])[0,0]", x=X[i].tolist(), y=Y[j].tolist())
                compare("C05|value|%s" % node.shape(), "kernel value differs from the documented formula", K[i, j], v, tol, r2)
                compare("C05|symmetry|%s" % node.shape(), "k(y,x) differs from k(x,y)", Kt[j, i], v, tol, dict(r2, call="cov(y[None], x[None])[0,0]"))
                # inactive dimensions: perturb every coordinate the root does not select
                if (i, j) == picks[-1]:
                    idx = set(node.ad.index(width))
                    if len(idx) < width:
                        x2, y2 = X[i].copy(), Y[j].copy()
                        for c in range(width):
                            if c not in idx:
                                x2[c] += 17.0
                                y2[c] -= 3.5
                        k1 = float(np.asarray(cov(jnp.asarray(X[i][None]), jnp.asarray(Y[j][None])))[0, 0])
                        k2 = float(np.asarray(cov(jnp.asarray(x2[None]), jnp.asarray(y2[None])))[0, 0])
                        if k2 != k1:
                            ctx.violation("C05|inactive-dim|%s" % node.shape(), "an inactive dimension influences the value",
                                          dict(r2, x_perturbed=x2.tolist(), y_perturbed=y2.tolist(), observed=k2, expected=k1))
                if model and (i, j) in picks and np.isfinite(K[i, j]):
                    goals.append(("Rabs (keval %s %s %s - %s) <= %s" % (node.coq(), W.Rlist(X[i]), W.Rlist(Y[j]), W.R(K[i, j]), W.Rup(tol)), "kcase"))
                    meta.append({"group": group, "kernel": node.describe(), "x": X[i].tolist(), "y": Y[j].tolist()})
            v, tol, _, _, ok = node.oracle(X[i], X[i])
            if ok and np.isfinite(v):
                compare("C05|diag|%s" % node.shape(), "diag(x)_i differs from k(x_i, x_i)", Kd[i], v, tol,
                        dict(rp, call="cov.diag(x[None])[0]", x=X[i].tolist(), y=X[i].tolist()))
                if node.op == "base" and node.name != "Linear":
                    if not (0 < Kd[i] <= 1 + 4 * W.U):
                        ctx.violation("C05|range|%s" % node.name, "stationary kernel value outside (0,1]", dict(rp, x=X[i].tolist(), observed=float(Kd[i])))
                if model and i == 0 and (T or group.startswith("base")):
                    goals.append(("Rabs (keval %s %s %s - %s) <= %s" % (node.coq(), W.Rlist(X[i]), W.Rlist(X[i]), W.R(Kd[i]), W.Rup(tol)), "kcase"))
                    meta.append({"group": "diag", "kernel": node.describe(), "x": X[i].tolist()})
        if node.op == "base" and node.name != "Linear":
            if not (np.all(K > 0 - 0) and np.all(K <= 1 + 4 * W.U)) and np.all(np.isfinite(K)):
                if np.any(K < 0) or np.any(K > 1 + 4 * W.U):
                    ctx.violation("C05|range|%s" % node.name, "stationary kernel value outside [0,1]", dict(rp, x=X.tolist(), y=Y.tolist()))
        # PSD (support only for the stationary kernels; part of the property statement, so a clear failure is reported)
        if group in ("base", "base25", "powpsd") or (group == "depth2" and node.op in ("add", "mul") and rng.random() < 0.2):
            P = np.vstack([X, Y])
            G = np.asarray(cov(jnp.asarray(P), jnp.asarray(P)))
            if np.all(np.isfinite(G)):
                tmax = max(node.oracle(P[a], P[b])[1] for a in range(len(P)) for b in range(len(P)))
                lam = np.linalg.eigvalsh((G + G.T) / 2)
                psd_checked += 1
                if lam[0] < -(len(P) * tmax + 64 * len(P) * W.U * max(abs(lam[-1]), 1.0)):
                    ctx.violation("C05|psd|%s" % node.shape(), "Gram matrix has a clearly negative eigenvalue",
                                  dict(rp, points=P.tolist(), smallest_eigenvalue=float(lam[0])))

    # ---------------------------------------------------------------- F. time-aware covariance
    for name in W.BASES:
        for rep_ in range(3):
            width = rng.choice([2, 3, 5])
            X, Y = W.point_sets(rng, width)
            ls, lt = float(np.float64(10.0 ** rng.uniform(-1, 1.5))), float(np.float64(10.0 ** rng.uniform(-1, 1.5)))
            if rep_ == 2:
                lt = ls          # equal state and time length scales (seeded change C05-1 merged the two kernels in that case)
            cls = getattr(mc, name)
            cov = mp.compute_cov_func(cls, ls, ls_time=lt)
            K = np.asarray(cov(jnp.asarray(X), jnp.asarray(Y)))
            st = W.Node("base", W.make_ad("none", rng, width - 1), name=name, ls=ls, alpha=1.0)
            tm = W.Node("base", W.make_ad("none", rng, 1), name=name, ls=lt, alpha=1.0)
            b = {"Matern32": "BMatern32", "Matern52": "BMatern52", "ExpQuad": "BExpQuad", "Exponential": "BExponential",
                 "Linear": "BLinear", "RatQuad": "(BRatQuad 1)"}[name]
            for (i, j) in entry_picks(rng, X.shape[0], Y.shape[0]):
                v1, t1, _, _, _ = st.oracle(X[i, :-1], Y[j, :-1])
                v2, t2, _, _, _ = tm.oracle(X[i, -1:], Y[j, -1:])
                v, tol = v1 * v2, abs(v1) * t2 + abs(v2) * t1 + t1 * t2 + W.U * abs(v1 * v2) + W.TINY   # the float product may underflow
                compare("C05|time-product|%s" % name, "time-aware covariance is not state kernel x time kernel", K[i, j], v, tol,
                        {"call": "compute_cov_func(%s, %r, ls_time=%r)(x[None], y[None])" % (name, ls, lt), "x": X[i].tolist(), "y": Y[j].tolist()})
                if model:
                    goals.append(("Rabs (keval (compute_cov_func (KBase %s) %s (Some %s)) %s %s - %s) <= %s"
                                  % (b, W.R(ls), W.R(lt), W.Rlist(X[i]), W.Rlist(Y[j]), W.R(K[i, j]), W.Rup(tol)), "kcase"))
                    meta.append({"group": "time-product", "kernel": name, "x": X[i].tolist(), "y": Y[j].tolist()})
                    bump("time-product/%s" % name)

    # ---------------------------------------------------------------- G. index semantics, exactly, widths 1..25
    idx_cases = []
    for width in range(1, 26):
        for kind in W.AD_KINDS[1:]:
            for _ in range(3 if T else 1):
                ad = W.make_ad(kind, rng, width)
                got = np.asarray(mu.select_active_dims(jnp.arange(width, dtype=float), ad.py)).astype(int).tolist()
                want = ad.index(width)
                if got != want:
                    ctx.violation("C05|select_active_dims|%s" % kind, "select_active_dims differs from NumPy indexing",
                                  {"active_dims": repr(ad), "width": width, "expected": want, "observed": got})
                idx_cases.append((ad, width, got))
                bump("index/%s" % kind)
    # histories: (a) a 0/1 index list and a boolean mask of the same length are different selections, whichever was used first;
    #            (b) kernel values on NumPy inputs refilled in place are those of the CURRENT rows
    for first, second in (([0, 1], [False, True]), ([False, True], [0, 1]), ([1, 0], [True, False]), ([True, False], [1, 0]),
                          ([1, 1, 0], [True, True, False]), ([0, 1], np.array([False, True])), (np.array([True, False]), [1, 0])):
        w_ = len(first)
        for adv in (first, second):
            got = np.asarray(mu.select_active_dims(jnp.arange(w_, dtype=float) + 10.0, adv)).tolist()
            want = (np.arange(w_, dtype=float) + 10.0)[..., np.asarray(adv)].tolist()
            bump("index/history")
            if got != want:
                ctx.violation("C05|select_active_dims|history", "select_active_dims differs from NumPy indexing after an equal-looking active_dims was used",
                              {"sequence": [repr(first), repr(second)], "active_dims": repr(adv), "expected": want, "observed": got})
        import mellon.cov as mcov_
        Xh = np.asarray([[rng.gauss(0, 1) for _ in range(w_)] for _ in range(3)])
        Yh = np.asarray([[rng.gauss(0, 1) for _ in range(w_)] for _ in range(4)])
        for adv in (first, second):
            kk = mcov_.Matern52(1.25, active_dims=adv)
            got = np.asarray(kk(jnp.asarray(Xh), jnp.asarray(Yh)))
            Xs, Ys = Xh[..., np.asarray(adv)], Yh[..., np.asarray(adv)]
            dd = np.sqrt(((Xs[:, None, :] - Ys[None, :, :]) ** 2).sum(-1) + 1e-12)
            q_ = np.sqrt(5.0) * dd / 1.25
            want = (1 + q_ + q_ * q_ / 3.0) * np.exp(-q_)
            bump("index/history-kernel")
            if not np.allclose(got, want, rtol=1e-9, atol=1e-12):
                ctx.violation("C05|active_dims|history", "kernel with active_dims evaluates on the wrong columns after an equal-looking active_dims was used",
                              {"sequence": [repr(first), repr(second)], "active_dims": repr(adv), "x": Xh.tolist(), "y": Yh.tolist(),
                               "max_difference": float(np.abs(got - want).max())})
    import mellon.cov as mcov_
    for kk in (mcov_.Matern52(0.9), mcov_.ExpQuad(1.4) + mcov_.Matern32(0.7), mcov_.RatQuad(2.0, 1.1, active_dims=[0, 2])):
        Xh = np.asarray([[rng.gauss(0, 1) for _ in range(3)] for _ in range(3)])
        Yh = np.asarray([[rng.gauss(0, 1) for _ in range(3)] for _ in range(4)])
        ybuf, xbuf = np.array(Yh, copy=True), np.array(Xh, copy=True)
        kk(xbuf, ybuf)
        kk.diag(xbuf)
        ybuf[...] = Yh[::-1] + 0.125
        xbuf[...] = Xh[::-1] - 0.25
        idxb = np.random.default_rng(ctx.seed + 5).integers(0, 3, size=5000)
        Kbig, Ksmall = np.asarray(kk(Xh[idxb], Yh)), np.asarray(kk(Xh, Yh))
        bump("many-rows")
        if Kbig.shape != (5000, 4) or not np.allclose(Kbig, Ksmall[idxb], rtol=1e-9, atol=1e-12):      # (another blocking of the squared-distance contractions: rounding only)
            ctx.violation("C05|many-rows", "among 5000 rows, a row of the Gram matrix differs from the same row in a small batch",
                          {"kernel": repr(kk), "x": Xh.tolist(), "y": Yh.tolist(), "rows": "x[default_rng(verif_seed + 5).integers(0, 3, 5000)]",
                           "max_difference": float(np.abs(Kbig - Ksmall[idxb]).max()) if Kbig.shape == (5000, 4) else "shape"})
        bump("history/buffer-reuse")
        if not (np.array_equal(np.asarray(kk(xbuf, ybuf)), np.asarray(kk(np.array(xbuf, copy=True), np.array(ybuf, copy=True))))
                and np.array_equal(np.asarray(kk.diag(xbuf)), np.asarray(kk.diag(np.array(xbuf, copy=True))))):
            ctx.violation("C05|history|buffer-reuse", "kernel values on NumPy inputs refilled in place differ from those on fresh copies of the same rows",
                          {"kernel": repr(kk), "sequence": "k(xbuf, ybuf); k.diag(xbuf); xbuf[...] = x2; ybuf[...] = y2; k(xbuf, ybuf), k.diag(xbuf) vs fresh copies",
                           "x_first": Xh.tolist(), "y_first": Yh.tolist()})
    # history (c): hyper-parameters of a kernel object reassigned after it was evaluated (tests and users do `cov.active_dims = ...`,
    #              `cov.ls = ...`): the next evaluation, also on inputs of the same shapes, uses the CURRENT values
    Xh = np.asarray([[rng.gauss(0, 1) for _ in range(3)] for _ in range(3)])
    Yh = np.asarray([[rng.gauss(0, 1) for _ in range(3)] for _ in range(4)])
    reassign = [("ls", lambda: mcov_.Matern52(0.9), lambda k_: setattr(k_, "ls", 2.3), lambda: mcov_.Matern52(2.3)),
                ("ls", lambda: mcov_.Exponential(0.9), lambda k_: setattr(k_, "ls", 0.4), lambda: mcov_.Exponential(0.4)),
                ("alpha", lambda: mcov_.RatQuad(1.0, 1.2), lambda k_: setattr(k_, "alpha", 3.0), lambda: mcov_.RatQuad(3.0, 1.2)),
                ("active_dims", lambda: mcov_.ExpQuad(1.1, active_dims=[0, 1]), lambda k_: setattr(k_, "active_dims", [1, 2]),
                 lambda: mcov_.ExpQuad(1.1, active_dims=[1, 2])),
                ("ls of the time factor of a product", lambda: mcov_.Matern52(1.0, active_dims=[0, 1]) * mcov_.Matern52(1.5, active_dims=-1),
                 lambda k_: setattr(k_.right, "ls", 0.5), lambda: mcov_.Matern52(1.0, active_dims=[0, 1]) * mcov_.Matern52(0.5, active_dims=-1)),
                ("ls", lambda: mcov_.Linear(0.9), lambda k_: setattr(k_, "ls", 2.3), lambda: mcov_.Linear(2.3))]
    for what_, mk_, change_, fresh_ in reassign:
        k_ = mk_()
        k_(jnp.asarray(Xh), jnp.asarray(Yh))
        k_.diag(jnp.asarray(Xh))
        change_(k_)
        got, want = np.asarray(k_(jnp.asarray(Xh), jnp.asarray(Yh))), np.asarray(fresh_()(jnp.asarray(Xh), jnp.asarray(Yh)))
        gotd, wantd = np.asarray(k_.diag(jnp.asarray(Xh))), np.asarray(fresh_().diag(jnp.asarray(Xh)))
        bump("history/reassign")
        if not (np.array_equal(got, want) and np.array_equal(gotd, wantd)):
            ctx.violation("C05|history|reassigned-%s" % what_.split()[0], "a kernel evaluated again after its %s was reassigned does not use the new value" % what_,
                          {"kernel_now": repr(k_), "changed": what_, "x": Xh.tolist(), "y": Yh.tolist(),
                           "sequence": "k(x, y); k.diag(x); <attribute reassigned>; k(x, y) and k.diag(x) vs a freshly constructed kernel with the new value",
                           "max_difference": float(np.abs(got - want).max())})
    n_idx_ok = 0
    if model and idx_cases:
        body = ["From Coq Require Import List ZArith Arith.\nFrom MellonV Require Import ALists.\nImport ListNotations.",
                "Definition same (a b : list nat) : bool := if list_eq_dec Nat.eq_dec a b then true else false.",
                "Definition cases_ : list (nat * bool) := ["]
        body.append(";\n".join("(%d%%nat, same (resolve_dims %s %d) [%s])" % (k, ad.coq, w, "; ".join("%d%%nat" % g for g in got))
                               for k, (ad, w, got) in enumerate(idx_cases)))
        body.append("].\nEval vm_compute in (map fst (filter (fun p => negb (snd p)) cases_)).")
        try:
            out = ctx.coq_eval("c05_index", "\n".join(body))
            import re
            m = re.search(r"=\s*(\[.*?\]|nil)\s*:\s*list nat", out, re.S)
            bad = [int(x) for x in re.findall(r"\d+", m.group(1))] if m else None
            if bad is None:
                ctx.broken.append(Broken("correspondence", "resolve_dims", "unparsable output " + out[-300:]))
            else:
                n_idx_ok = len(idx_cases) - len(bad)
                for k in bad[:5]:
                    ad, w, got = idx_cases[k]
                    ctx.broken.append(Broken("correspondence", "resolve_dims", "model disagrees with x[..., %r] at width %d (implementation %r)" % (ad, w, got)))
        except Broken as b:
            ctx.broken.append(b)

    # ---------------------------------------------------------------- 4. the generated model, inside Coq, at the same points
    proved = 0
    phase["implementation+oracle"] = round(time.time() - t0, 1)
    t0 = time.time()
    if model and goals:
        bad = W.run_goals(ctx, "c05", IMPORTS, goals, shard=30)
        proved = len(goals) - len(bad)
        for i, msg in list(bad.items())[:8]:
            ctx.broken.append(Broken("correspondence", meta[i].get("group", "?"), "%s: %r" % (msg, meta[i])))
    elif not model:
        ctx.cov["note"] = "generated model unavailable: no correspondence run"

    phase["coq-correspondence"] = round(time.time() - t0, 1)
    ctx.cov["phase_seconds"] = phase
    ctx.cov["evaluations"] = evals + proved + n_idx_ok
    ctx.cov["traces_validated_against_impl"] = proved + n_idx_ok
    ctx.cov["distinct_nontrivial"] = len(shapes_seen)
    ctx.cov["interval_goals"] = {"emitted": len(goals), "proved_and_closed_by_Qed": proved}
    ctx.cov["index_cases_exact"] = n_idx_ok
    ctx.cov["psd_gram_matrices_tested_support_only"] = psd_checked
    ctx.cov["largest_observed_error_over_allowed"] = round(worst["ratio"], 4)
    ctx.cov["rule"] = ("point sets (1..25 features, coordinates to 1e2, coincident / 1e-7 / 1e-10-relative near-coincident / collinear / offset-100 rows) x "
                       "ls, alpha log-uniform over 4 decades x the six active_dims forms x every depth-2 tree shape (5 operators x 6 (x 6) base kernels) with each "
                       "form at the root, depth-3 trees sampled; each implementation value is (i) compared with an independent NumPy evaluation of the documented "
                       "formula within the derived error bound and (ii) for selected entries enclosed by Interval inside Coq against the GENERATED model at the exact "
                       "rational inputs (Qed). distinct_nontrivial = distinct (tree shape, root active_dims form) evaluated without error.")
    ctx.cov["input_distribution"] = dist_ct
    ctx.cov["contracts_validated"] = {"numpy-indexing = resolve_dims (exact, widths 1..25)": n_idx_ok}
    ctx.cov["samples"] = [meta[i] for i in (0, len(meta) // 3, len(meta) // 2, len(meta) - 1)] if meta else []


def replay(ctx, rep):
    """re-run one recorded failing input against the implementation and the documented formula"""
    import importlib
    import jax.numpy as jnp
    mu = importlib.import_module("mellon.util")
    r = rep.get("replay", {})
    print("replay of", rep.get("key"), ":", rep.get("what"))
    if "x" in r and "y" in r and rep.get("key", "").startswith("C05|distance"):
        x, y = np.asarray(r["x"], float), np.asarray(r["y"], float)
        d, derr = W.dist_oracle(x, y)
        got = float(np.asarray(mu.distance(jnp.asarray(x[None]), jnp.asarray(y[None])))[0, 0])
        print("expected %r +- %r, observed %r" % (d, derr, got))
        return 0 if abs(got - d) <= derr + 32 * W.U * d else 1
    print("recorded: expected %r observed %r allowed_error %r; call %r" % (r.get("expected"), r.get("observed"), r.get("allowed_error"), r.get("call")))
    print("kernel:", r.get("kernel"), "x:", r.get("x"), "y:", r.get("y"))
    return 1
