"""C03 - the inference objective is the documented Bayesian model, with the documented defaults.

translate (translate/pyscalar.py: util.mle, inference._normal, _nearest_neighbors, _poisson entry-wise,
parameters.compute_ls / compute_mu tails; _multivariate, compute_loss_func, compute_dimensionality_transform,
compute_initial_value, compute_nn_distances, compute_distances, compute_d by exact AST pattern; gammaln ->
uninterpreted `lgam`)
-> build props/C03.v (prior = log N(0,I); likelihood term = log of the nearest-neighbour density
   rho d c_d r^(d-1) exp(-rho c_d r^d); loss is minus their sum; that density integrates to 1 over (0,oo)
   (is_RInt_gen); the closed-form MLE is the unique maximiser; the k-NN Poisson term, its maximum, and its
   k = 1 reduction; ls = e^3 geomean; mu = 1%-quantile(mle) - 10 with quantile bounds / shift; d; ridge target)
-> run the implementation on generated (r, d, z, L, mu) - r over 8 decades, d scalar and per-cell, k-NN - and
   on small estimators (prepare_inference: nn_distances, d, mu, ls, initial value, loss)
-> correspondence: Interval encloses the generated real-valued model at the exact rational inputs, with
   every `lgam a` replaced by a variable bounded by the hypothesis  G - e <= lgam a <= G + e  where G is the
   value gammaln returned at a (cross-checked against scipy, math.lgamma and the closed forms at integers
   and half-integers); tolerances derived (rounding of each arithmetic step, 64 ulp for log/exp)
-> independent searcher: NumPy/SciPy evaluation of the documented formulas, numerical quadrature of the
   implemented density, brute-force nearest neighbours (KD-tree and ball-tree regimes), normal equations
   of the ridge start.
Taken as given (assumption, listed in the evidence): the sampled gammaln values.
"""
import importlib
import logging
import math
import random
import re
import time

import numpy as np

from harness import worldA as W
from translate import pyscalar
from vlib import core
from vlib.core import Broken, TRUSTED_COMMON, REPO

IMPORTS = "ALists AListsFacts AInference AInferenceThm AInfCaseTac"
U = W.U
LNPI = math.log(math.pi)


def lgam_closed(a):
    """log Gamma at integers and half-integers from factorials and sqrt(pi) (independent of any gammaln)"""
    two = round(2 * a)
    if abs(2 * a - two) > 1e-12 or two <= 0 or two > 120:
        return None
    if two % 2 == 0:
        return math.log(math.factorial(two // 2 - 1))
    n = (two - 1) // 2            # Gamma(n + 1/2) = (2n)! sqrt(pi) / (4^n n!)
    return math.log(math.factorial(2 * n)) + 0.5 * LNPI - n * math.log(4.0) - math.log(math.factorial(n))


class Lgam:
    """records the arguments at which the model needs lgam and the enclosures used as hypotheses"""

    def __init__(self, ctx):
        import jax.numpy as jnp
        from jax.scipy.special import gammaln
        from scipy.special import gammaln as sp_gammaln
        self.g, self.sp, self.jnp, self.ctx = gammaln, sp_gammaln, jnp, ctx
        self.calls = 0

    def value(self, a):
        G = float(self.g(self.jnp.asarray(float(a))))
        ref = float(self.sp(float(a)))
        ml = math.lgamma(float(a))
        self.calls += 1
        tol = 64 * U * max(abs(ref), 1.0) + 64 * U * abs(a) * abs(math.log(max(a, 1e-300)))
        bad = abs(G - ref) > tol or abs(G - ml) > tol
        cf = lgam_closed(a)
        if cf is not None and abs(G - cf) > tol + 16 * U * (abs(cf) + a * max(1.0, math.log(a + 1))):
            bad = True
        if bad:
            self.ctx.broken.append(Broken("contract", "gammaln", "gammaln(%r) = %r, scipy %r, math.lgamma %r, closed form %r" % (a, G, ref, ml, cf)))
        return G, 8 * U * abs(G) + 1e-15

    def hyps(self, exprs):
        """exprs: list of (coq argument text, float argument) -> hypothesis text list and total enclosure width info"""
        out, seen = [], set()
        for txt, a in exprs:
            if txt in seen:
                continue
            seen.add(txt)
            G, e = self.value(a)
            out.append("%s <= lgam %s <= %s" % (W.R(G - e), txt, W.R(G + e)))
        return out


def build(ctx):
    try:
        gen, funcs = pyscalar.translate_inference(REPO)
    except pyscalar.Unsupported as u:
        ctx.broken.append(Broken("translation", "inference", str(u)))
        return False
    ctx.cov["translated_functions"] = funcs
    ok = ctx.build_props(gen, extra_targets=["thm/AInfCaseTac.vo"])
    if not ok:
        with core.Lock():
            rc, out = core.coq_make(["thm/AInfCaseTac.vo"])
        return rc == 0
    return True


# ------------------------------------------------------------------ documented formulas (NumPy / SciPy)
def doc_mle(r, d):
    from scipy.special import gammaln
    return gammaln(d / 2 + 1) - (d / 2) * LNPI - d * np.log(r)


def doc_log_density(r, d, f):
    """log p(r | rho = e^f, d),  p = rho d c_d r^(d-1) exp(-rho c_d r^d)"""
    from scipy.special import gammaln
    lc = (d / 2) * LNPI - gammaln(d / 2 + 1)
    return f + np.log(d) + lc + (d - 1) * np.log(r) - np.exp(f + lc + d * np.log(r))


def quantile_lin(v, q):
    s = np.sort(np.asarray(v, float))
    h = q * (len(s) - 1)
    lo = int(math.floor(h))
    hi = min(lo + 1, len(s) - 1)
    return s[lo] + (h - lo) * (s[hi] - s[lo])


def run(ctx):
    import jax.numpy as jnp
    import mellon
    mu_ = importlib.import_module("mellon.util")
    inf = importlib.import_module("mellon.inference")
    par = importlib.import_module("mellon.parameters")
    mellon.logger.setLevel(logging.CRITICAL)
    rng = random.Random(ctx.seed * 15485863 + 3)
    nrng = np.random.default_rng(ctx.seed + 1234)
    T = ctx.thorough
    ctx.cov["trusted_base"] = TRUSTED_COMMON + [
        "Coquelicot / Interval (reflexive, kernel-checked); the standard real-number axioms",
        "jax.scipy.special.gammaln values at the sampled arguments (cross-checked per call against scipy, math.lgamma and closed forms)",
        "XLA log/exp within 64 ulp; IEEE-754 binary64 arithmetic (derived error bounds in this file)",
        "library contracts validated on every run: KDTree/BallTree nearest neighbours = brute force, Ridge(fit_intercept=False) = normal equations, jnp.quantile = linear interpolation on sorted values, jnp.sort",
    ]
    ctx.assumptions += [
        "lgam is uninterpreted in Coq: each correspondence goal assumes G - e <= lgam a <= G + e with G the value gammaln returned at a",
        "normalisation of the k-NN Poisson model is proved for every neighbour count (C03_knn_poisson_density_normalised) under lgam(k+1) = ln k! at the integer count; the quadrature in log-volume coordinates remains as support",
        "'the starting point is the ridge-regression solution' is the Ridge contract (validated numerically) applied to the proved target mle - mu; uniqueness of the minimiser is world-B algebra, not proved here",
        "ls_factor is applied by the estimator (base_model._compute_ls), outside the translated functions: tied by the estimator-level comparison only",
    ]
    t0 = time.time()
    model = build(ctx)
    phase = {"translate+prove": round(time.time() - t0, 1)}
    t0 = time.time()
    LG = Lgam(ctx)
    goals, meta = [], []
    evals = 0
    dist_ct = {}
    worst = {"ratio": 0.0}

    def bump(k):
        dist_ct[k] = dist_ct.get(k, 0) + 1

    def compare(key, what, impl, v, tol, replay):
        nonlocal evals
        evals += 1
        slack = tol + 64 * U * abs(v)
        if not (abs(impl - v) <= slack):
            ctx.violation(key, what, dict(replay, expected=float(v), observed=float(impl), allowed_error=float(slack)))
        elif slack > 0 and abs(impl - v) / slack > worst["ratio"]:
            worst["ratio"], worst["key"] = abs(impl - v) / slack, key

    def goal(stmt_body, lg_args, tac, info):
        hy = LG.hyps(lg_args)
        stmt = "forall lgam : R -> R, " + "".join("%s -> " % h for h in hy) + stmt_body
        goals.append((stmt, "intros lgam %s; %s" % (" ".join("H%d" % i for i in range(len(hy))), tac)))
        meta.append(info)
        bump(info["group"])

    def dval():
        k = rng.random()
        if k < 0.5:
            return float(rng.choice([1, 2, 3, 5, 10, 20, 25, 50]))
        if k < 0.8:
            return float(rng.randrange(1, 60)) / 2
        return float(np.float64(rng.uniform(0.3, 30.0)))

    def rval():
        return float(np.float64(10.0 ** rng.uniform(-5, 3)))

    # per-term derived bounds -------------------------------------------------------------------
    def mle_tol(r, d, G, eG):
        return 8 * U * (abs(G) + abs(d / 2 * LNPI) + abs(d * math.log(r))) + 64 * U * abs(d) * 1.0 + eG

    def nn_term_tol(r, d, l, G, eG, l_err=0.0):
        lr = math.log(r)
        const_mag = abs(d * LNPI / 2) + abs(G)
        tolB = 8 * U * (abs(l) + abs(math.log(d)) + abs((d - 1) * lr) + const_mag) + 64 * U * (1 + abs(d - 1)) + eG + l_err
        arg = l + lr * d + d * LNPI / 2 - G
        tol_arg = 8 * U * (abs(l) + abs(d * lr) + const_mag) + 64 * U * abs(d) + eG + l_err
        A = math.exp(min(arg, 700.0))
        tolA = A * (math.expm1(min(tol_arg, 50.0)) + 64 * U)
        return tolB + tolA

    # ---------------------------------------------------------------- A. mle (r over 8 decades, scalar and per-cell d)
    for rep in range(120 if T else 60):
        n = rng.choice([1, 3, 6])
        r = np.array([rval() for _ in range(n)])
        percell = rng.random() < 0.4
        d = np.array([dval() for _ in range(n)]) if percell else dval()
        got = np.asarray(mu_.mle(jnp.asarray(r), jnp.asarray(d) if percell else d))
        dv = d if percell else np.full(n, d)
        ref = doc_mle(r, dv)
        for i in range(n):
            G, eG = LG.value(dv[i] / 2 + 1)
            tol = mle_tol(r[i], dv[i], G, eG)
            compare("C03|mle", "util.mle differs from lgamma(d/2+1) - (d/2) log(pi) - d log(r)", got[i], ref[i], tol,
                    {"call": "mellon.util.mle(r, d)", "r": float(r[i]), "d": float(dv[i])})
            if model and i == 0:
                goal("Rabs (mle lgam %s %s - %s) <= %s" % (W.R(r[i]), W.R(dv[i]), W.R(got[i]), W.Rup(tol)),
                     [("(%s / 2 + 1)" % W.R(dv[i]), dv[i] / 2 + 1)], "icase lgam",
                     {"group": "mle", "r": float(r[i]), "d": float(dv[i]), "per_cell_d": percell})

    # ---------------------------------------------------------------- B. prior
    for rep in range(12 if T else 6):
        k = rng.choice([1, 2, 5, 9])
        z = np.array([rng.gauss(0, 1) * rng.choice([0.1, 1.0, 10.0]) for _ in range(k)])
        got = float(inf._normal(k)(jnp.asarray(z)))
        ref = -0.5 * float(np.sum(z * z)) - (k / 2) * math.log(2 * math.pi)
        tol = (k + 6) * U * (0.5 * float(np.sum(z * z)) + (k / 2) * math.log(2 * math.pi)) + 1e-300
        compare("C03|prior", "_normal(k)(z) differs from log N(z; 0, I)", got, ref, tol, {"call": "mellon.inference._normal(k)(z)", "k": k, "z": z.tolist()})
        if model:
            goal("Rabs (normal_logpdf %d %s - %s) <= %s" % (k, W.Rlist(z), W.R(got), W.Rup(tol)), [], "icase lgam", {"group": "prior", "k": k})

    # ---------------------------------------------------------------- C. nearest-neighbour likelihood, loss
    for rep in range(80 if T else 40):
        n = rng.choice([1, 2, 4, 7])
        r = np.array([rval() for _ in range(n)])
        percell = rng.random() < 0.5
        d = np.array([dval() for _ in range(n)]) if percell else dval()
        dv = d if percell else np.full(n, d)
        # log-densities around the MLE (where the two parts of the term balance) and far from it
        l = doc_mle(r, dv) + np.array([rng.choice([0.0, rng.gauss(0, 1), rng.gauss(0, 3), -10.0]) for _ in range(n)])
        l = np.asarray(l, dtype=np.float64)
        got = float(inf._nearest_neighbors(jnp.asarray(r), jnp.asarray(d) if percell else d)(jnp.asarray(l)))
        terms = doc_log_density(r, dv, l)
        ref = float(np.sum(terms))
        tol = 0.0
        lg_args = []
        for i in range(n):
            G, eG = LG.value(dv[i] / 2 + 1)
            tol += nn_term_tol(r[i], dv[i], l[i], G, eG)
            lg_args.append(("(%s / 2 + 1)" % W.R(dv[i]), dv[i] / 2 + 1))
        tol += (n + 2) * U * float(np.sum(np.abs(terms)))
        compare("C03|nn-likelihood", "_nearest_neighbors(r, d)(f) differs from sum_i log p(r_i | exp f_i, d_i)", got, ref, tol,
                {"call": "mellon.inference._nearest_neighbors(r, d)(f)", "r": r.tolist(), "d": dv.tolist(), "f": l.tolist()})
        if model and np.isfinite(got):
            goal("Rabs (nn_loglik lgam %s %s %s - %s) <= %s" % (W.Rlist(r), W.Rlist(dv), W.Rlist(l), W.R(got), W.Rup(tol)),
                 lg_args, "icase lgam", {"group": "nn-likelihood", "n": n, "per_cell_d": percell})
        # the MLE maximises every term (numerically, on the implementation)
        one = lambda ll: float(inf._nearest_neighbors(jnp.asarray(r[:1]), float(dv[0]))(jnp.asarray(ll)))
        m0 = float(doc_mle(r[:1], dv[:1])[0])
        top = one(np.array([m0]))
        for dl in (-1.0, -1e-3, 1e-3, 1.0):
            if one(np.array([m0 + dl])) > top + 64 * U * (abs(top) + 1):
                ctx.violation("C03|mle-not-maximum", "the likelihood term is larger away from the closed-form MLE",
                              {"r": float(r[0]), "d": float(dv[0]), "mle": m0, "offset": dl})
            evals += 1

    for rep in range(32 if T else 16):
        n, k = rng.choice([(2, 1), (3, 2), (4, 3), (5, 2)])
        r = np.array([rval() for _ in range(n)])
        d = dval()
        mu0 = float(np.float64(rng.uniform(-20, 5)))
        L = np.array([[rng.gauss(0, 1) for _ in range(k)] for _ in range(n)])
        z = np.array([rng.gauss(0, 1) for _ in range(k)])
        tr = inf.compute_transform(mu0, jnp.asarray(L))
        got = float(inf.compute_loss_func(jnp.asarray(r), d, tr, k)(jnp.asarray(z)))
        f = L @ z + mu0
        # keep the densities in the range where exp does not overflow
        f = np.asarray(f)
        terms = doc_log_density(r, np.full(n, d), f)
        prior = -0.5 * float(np.sum(z * z)) - (k / 2) * math.log(2 * math.pi)
        ref = -(prior + float(np.sum(terms)))
        if not np.isfinite(ref) or not np.isfinite(got):
            continue
        G, eG = LG.value(d / 2 + 1)
        tol = (k + 6) * U * abs(prior)
        for i in range(n):
            f_err = (k + 3) * U * (float(np.sum(np.abs(L[i] * z))) + abs(mu0))
            tol += nn_term_tol(r[i], d, f[i], G, eG, l_err=f_err)
        tol += (n + 4) * U * (float(np.sum(np.abs(terms))) + abs(prior))
        compare("C03|loss", "loss(z) differs from -[log N(z;0,I) + sum_i log p(r_i | exp((Lz+mu)_i), d)]", got, ref, tol,
                {"call": "compute_loss_func(r, d, compute_transform(mu, L), k)(z)", "r": r.tolist(), "d": d, "mu": mu0, "L": L.tolist(), "z": z.tolist()})
        if model:
            Lc = "[" + "; ".join(W.Rlist(row) for row in L) + "]"
            goal("Rabs (loss lgam %d %s %s (transform %s %s) %s - %s) <= %s"
                 % (k, W.Rlist(r), W.Rlist(np.full(n, d)), W.R(mu0), Lc, W.Rlist(z), W.R(got), W.Rup(tol)),
                 [("(%s / 2 + 1)" % W.R(d), d / 2 + 1)], "icase lgam", {"group": "loss", "n": n, "k": k, "d": d})

    # normalisation of the IMPLEMENTED density by quadrature (independent support for the proved theorem)
    from scipy.integrate import quad
    for rep in range(10 if T else 5):
        d = rng.choice([1.0, 2.0, 3.0, 7.5, 10.0])
        lf = float(rng.uniform(-3, 3))
        pdf = lambda rr: math.exp(float(inf._nearest_neighbors(jnp.asarray([rr]), d)(jnp.asarray([lf]))))
        rstar = math.exp(-(lf + (d / 2) * LNPI - math.lgamma(d / 2 + 1)) / d)   # scale where rho V(r) = 1
        val = 0.0
        # beyond r with rho V(r) = 40 the remaining mass is exp(-40)
        for a, b in ((0.0, 0.5 * rstar), (0.5 * rstar, 2 * rstar), (2 * rstar, rstar * max(4.0, 40.0 ** (1.0 / d))), ):
            val += quad(pdf, a, b, limit=60, epsabs=1e-10, epsrel=1e-9)[0]
        evals += 1
        if abs(val - 1.0) > 1e-5:
            ctx.violation("C03|normalisation", "the implemented nearest-neighbour density does not integrate to 1 over r",
                          {"d": d, "log_density": lf, "integral": val, "call": "exp(_nearest_neighbors([r], d)([f])) integrated over r"})

    # ---------------------------------------------------------------- D. k-NN Poisson model
    for rep in range(24 if T else 12):
        n, k = rng.choice([(1, 1), (2, 2), (3, 3), (2, 4)])
        dist = np.sort(np.array([[rval() for _ in range(k)] for _ in range(n)]), axis=1)
        shuffled = np.array([nrng.permutation(row) for row in dist])
        dims = np.array([dval() for _ in range(n)])
        ld = np.array([float(rng.uniform(-8, 4)) for _ in range(n)])
        got = float(inf._poisson(jnp.asarray(shuffled))(jnp.asarray(dims), jnp.asarray(ld)))
        from scipy.special import gammaln as spg
        eta = ld[:, None] + dims[:, None] * (np.log(dist) + LNPI / 2) - spg(dims / 2 + 1)[:, None]
        jj = np.arange(1, k + 1)[None, :]
        terms = jj * eta - np.exp(eta) - spg(jj)
        ref = float(np.sum(terms))
        if not np.isfinite(ref) or not np.isfinite(got):
            continue
        tol = 0.0
        lg_args = []
        for i in range(n):
            G, eG = LG.value(dims[i] / 2 + 1)
            lg_args.append(("(%s / 2 + 1)" % W.R(dims[i]), dims[i] / 2 + 1))
            for j in range(k):
                mag = abs(ld[i]) + abs(dims[i] * (math.log(dist[i, j]) + LNPI / 2)) + abs(G)
                te = 8 * U * mag + 64 * U * abs(dims[i]) + eG
                Gj, eGj = LG.value(float(j + 1))
                tol += (j + 1) * te + math.exp(eta[i, j]) * (math.expm1(min(te, 50.0)) + 64 * U) + eGj + 4 * U * abs(terms[i, j])
        for j in range(k):
            lg_args.append((str(j + 1), float(j + 1)))
        tol += (n * k + 2) * U * float(np.sum(np.abs(terms)))
        compare("C03|poisson", "_poisson differs from sum_ij [ j eta_ij - exp(eta_ij) - lgamma(j) ]", got, ref, tol,
                {"call": "mellon.inference._poisson(distances)(dims, log_dens)", "distances": shuffled.tolist(), "dims": dims.tolist(), "log_dens": ld.tolist()})
        if model:
            Dc = "[" + "; ".join(W.Rlist(row) for row in dist) + "]"
            goal("Rabs (poisson_loglik lgam %s [%s] %s %s - %s) <= %s" % (Dc, "; ".join(str(j + 1) for j in range(k)), W.Rlist(dims), W.Rlist(ld), W.R(got), W.Rup(tol)),
                 lg_args, "icase lgam", {"group": "poisson", "n": n, "k": k})

    # ---------------------------------------------------------------- E. defaults: ls, mu (function level)
    for rep in range(16 if T else 8):
        n = rng.choice([1, 2, 5, 11, 30])
        r = np.array([rval() for _ in range(n)])
        got = float(par.compute_ls(jnp.asarray(r)))
        m = float(np.mean(np.log(r)))
        ref = math.exp(3.0) * math.exp(m)
        arg_err = (n + 6) * U * (float(np.mean(np.abs(np.log(r)))) + 3.0) + 64 * U * 1.0
        tol = ref * (math.expm1(arg_err) + 64 * U)
        compare("C03|ls-default", "compute_ls differs from e^3 x geometric mean of the distances", got, ref, tol,
                {"call": "mellon.parameters.compute_ls(r)", "r": r.tolist()})
        if model:
            goal("Rabs (compute_ls %s - %s) <= %s" % (W.Rlist(r), W.R(got), W.Rup(tol)), [], "ireduce; interval with (i_prec 80)", {"group": "ls-default", "n": n})
    n_quant = 0
    for rep in range(16 if T else 8):
        n = rng.choice([1, 2, 7, 40, 101, 150])
        r = np.array([rval() for _ in range(n)])
        d = dval()
        got = float(par.compute_mu(jnp.asarray(r), d))
        mvals = np.asarray(mu_.mle(jnp.asarray(r), d))
        G, eG = LG.value(d / 2 + 1)
        mtol = max(mle_tol(r[i], d, G, eG) for i in range(n))
        ref = quantile_lin(doc_mle(r, np.full(n, d)), 0.01) - 10
        tol = 2 * mtol + 8 * U * (float(np.max(np.abs(mvals))) + 10)
        compare("C03|mu-default", "compute_mu differs from the 1st percentile of the MLE log-densities minus 10", got, ref, tol,
                {"call": "mellon.parameters.compute_mu(r, d)", "r": r.tolist(), "d": d})
        # jnp.quantile contract: linear interpolation on the sorted values
        qref = quantile_lin(mvals, 0.01)
        qgot = float(jnp.quantile(jnp.asarray(mvals), 0.01))
        n_quant += 1
        if abs(qgot - qref) > 8 * U * (abs(qref) + float(np.max(np.abs(mvals)))):
            ctx.broken.append(Broken("contract", "jnp.quantile", "quantile(%r, 0.01) = %r, linear interpolation gives %r" % (mvals.tolist()[:5], qgot, qref)))
        if model and n <= 101:
            s = np.sort(mvals)
            lo = int(math.floor(0.01 * (n - 1)))
            tolq = 8 * U * (float(np.max(np.abs(mvals))) + 10)
            stmt = ("forall lgam r d, rsort (map2 (fun r0 d0 => mle lgam r0 d0) r d) = %s -> Rabs (compute_mu lgam r d - %s) <= %s" % (W.Rlist(s), W.R(got), W.Rup(tolq)))
            tac = ("intros lgam r d H; unfold compute_mu, quantile_list; rewrite H; rewrite (quantile_sorted_at _ _ %d) by (simpl; lra); "
                   "unfold interp_at; simpl; interval with (i_prec 80)" % lo)
            goals.append((stmt, tac))
            meta.append({"group": "mu-default", "n": n, "lo": lo})
            bump("mu-default")

    # ---------------------------------------------------------------- F. library contracts and estimator-level defaults
    nn_calls = 0
    datasets = []
    for (n, dcol) in ([(40, 2), (30, 5), (36, 22), (25, 1)] + ([(60, 3), (50, 30)] if T else [])):
        x = nrng.normal(size=(n, dcol)) * nrng.choice([0.1, 1.0, 10.0])
        datasets.append(x)
        nn = np.asarray(par.compute_nn_distances(x))
        D = np.sqrt(((x[:, None, :] - x[None, :, :]) ** 2).sum(-1))
        np.fill_diagonal(D, np.inf)
        brute = D.min(axis=1)
        nn_calls += 1
        if np.max(np.abs(nn - brute)) > 64 * U * (np.max(np.abs(x)) * math.sqrt(dcol) + np.max(brute)):
            i = int(np.argmax(np.abs(nn - brute)))
            ctx.violation("C03|nn-distances|%s" % ("ball-tree" if dcol >= 20 else "kd-tree"), "nearest-neighbour distance differs from brute force",
                          {"call": "mellon.parameters.compute_nn_distances(x)", "x": x.tolist(), "cell": i, "expected": float(brute[i]), "observed": float(nn[i])})
        kk = 3
        dk = np.asarray(par.compute_distances(x, kk))
        bk = np.sort(D, axis=1)[:, :kk]
        if dk.shape != bk.shape or np.max(np.abs(dk - bk)) > 64 * U * (np.max(np.abs(x)) * math.sqrt(dcol) + np.max(bk)):
            ctx.violation("C03|knn-distances", "k nearest-neighbour distances differ from brute force (k+1 / k-1 neighbours?)",
                          {"call": "mellon.parameters.compute_distances(x, 3)", "x": x.tolist()})
        got_d = par.compute_d(x)
        if got_d != dcol or par.compute_d(x[:, 0]) != 1:
            ctx.violation("C03|d-default", "compute_d is not the number of features", {"shape": list(x.shape), "observed": int(got_d)})
        evals += 3
    ridge_calls = 0
    for rep in range(4):
        n, k = rng.choice([(12, 4), (20, 20), (9, 3)])
        r = np.array([rval() for _ in range(n)])
        d = dval()
        mu0 = float(rng.uniform(-30, 0))
        L = nrng.normal(size=(n, k))
        z = np.asarray(par.compute_initial_value(jnp.asarray(r), d, mu0, L))
        target = doc_mle(r, np.full(n, d)) - mu0
        A = L.T @ L + np.eye(k)
        res = A @ z - L.T @ target
        ridge_calls += 1
        evals += 1
        scale = np.linalg.norm(A, 2) * np.linalg.norm(z) + np.linalg.norm(L.T @ target)
        if np.linalg.norm(res) > 1e-9 * scale:
            ctx.violation("C03|initial-value", "the starting point does not solve the ridge normal equations for L z ~ mle - mu",
                          {"call": "compute_initial_value(r, d, mu, L)", "r": r.tolist(), "d": d, "mu": mu0, "L": L.tolist(),
                           "residual_norm": float(np.linalg.norm(res)), "scale": float(scale)})
    n_est = 0
    for x, kw in zip(datasets[:3], [{}, {"ls_factor": 2.0}, {}]):
        try:
            est = mellon.DensityEstimator(**kw)
            loss_func, z0 = est.prepare_inference(x)
        except Exception as e:  # noqa
            ctx.violation("C03|prepare_inference|%s" % type(e).__name__, "prepare_inference raised", {"x_shape": list(x.shape), "error": repr(e)})
            continue
        n_est += 1
        n, dcol = x.shape
        D = np.sqrt(((x[:, None, :] - x[None, :, :]) ** 2).sum(-1))
        np.fill_diagonal(D, np.inf)
        nn = D.min(axis=1)
        rp = {"call": "DensityEstimator(%s).prepare_inference(x)" % ", ".join("%s=%r" % kv for kv in kw.items()), "x": x.tolist()}
        if np.max(np.abs(np.asarray(est.nn_distances) - nn)) > 1e-12 * (1 + np.max(nn)):
            ctx.violation("C03|est.nn_distances", "est.nn_distances are not the nearest-neighbour distances", rp)
        if est.d != dcol:
            ctx.violation("C03|est.d", "est.d is not the number of features", dict(rp, observed=est.d))
        m = doc_mle(nn, np.full(n, float(dcol)))
        compare("C03|est.mu", "est.mu is not the 1st percentile of the MLE minus 10", float(est.mu), quantile_lin(m, 0.01) - 10, 1e-10 * (1 + np.max(np.abs(m))), rp)
        ls_ref = math.exp(3.0) * math.exp(float(np.mean(np.log(nn)))) * kw.get("ls_factor", 1.0)
        compare("C03|est.ls", "est.ls is not e^3 x geometric mean of the nn distances x ls_factor", float(est.ls), ls_ref, 1e-12 * ls_ref, rp)
        Lm = np.asarray(est.L)
        zz = nrng.normal(size=Lm.shape[1])
        f = Lm @ zz + float(est.mu)
        ref = -((-0.5 * float(zz @ zz) - (Lm.shape[1] / 2) * math.log(2 * math.pi)) + float(np.sum(doc_log_density(nn, np.full(n, float(dcol)), f))))
        got = float(loss_func(jnp.asarray(zz)))
        if np.isfinite(ref):
            compare("C03|est.loss", "the loss returned by prepare_inference is not the documented objective", got, ref, 1e-9 * (1 + abs(ref)), dict(rp, z=zz.tolist()))
        A = Lm.T @ Lm + np.eye(Lm.shape[1])
        res = A @ np.asarray(z0) - Lm.T @ (m - float(est.mu))
        sc = np.linalg.norm(A, 2) * np.linalg.norm(np.asarray(z0)) + np.linalg.norm(Lm.T @ (m - float(est.mu)))
        evals += 1
        if np.linalg.norm(res) > 1e-8 * sc:
            ctx.violation("C03|est.initial_value", "the initial value is not the ridge solution of L z ~ mle - mu", dict(rp, residual=float(np.linalg.norm(res))))

    # compute_d: the model on the shapes seen
    if model:
        try:
            out = ctx.coq_eval("c03_d", "From MellonV Require Import AInference.\nEval vm_compute in (compute_d 2 7, compute_d 1 7, compute_d 3 22, compute_d 2 1).")
            if not re.search(r"\(7,\s*1,\s*22,\s*1\)", " ".join(out.split())):
                ctx.broken.append(Broken("correspondence", "compute_d", "model gives " + out[-200:]))
        except Broken as b:
            ctx.broken.append(b)

    phase["implementation+oracle"] = round(time.time() - t0, 1)
    t0 = time.time()
    proved = 0
    if model and goals:
        bad = W.run_goals(ctx, "c03", IMPORTS, goals, shard=8)
        proved = len(goals) - len(bad)
        for i, msg in list(bad.items())[:8]:
            ctx.broken.append(Broken("correspondence", meta[i].get("group", "?"), "%s: %r" % (msg, meta[i])))
    elif not model:
        ctx.cov["note"] = "generated model unavailable: no correspondence run"
    phase["coq-correspondence"] = round(time.time() - t0, 1)
    ctx.cov["phase_seconds"] = phase
    ctx.cov["evaluations"] = evals + proved
    ctx.cov["traces_validated_against_impl"] = proved
    ctx.cov["distinct_nontrivial"] = len({(m["group"], m.get("n"), m.get("k"), m.get("per_cell_d"), m.get("d")) for m in meta})
    ctx.cov["interval_goals"] = {"emitted": len(goals), "proved_and_closed_by_Qed": proved}
    ctx.cov["largest_observed_error_over_allowed"] = [round(worst["ratio"], 4), worst.get("key")]
    ctx.cov["rule"] = ("r log-uniform over 1e-5..1e3 (8 decades), d in {1..50, half-integers, non-integers}, scalar and per-cell, log-densities at and away from the "
                       "MLE, z ~ N(0,1), small L and mu for the loss, k-NN matrices with k <= 4 (rows shuffled to exercise the sort); every implementation value is compared "
                       "with SciPy/NumPy evaluation of the documented formula within a derived bound and enclosed by Interval inside Coq against the generated model with "
                       "lgam bounded by hypothesis; estimators are prepared on 3-5 datasets (2, 5, 22(+30) features: KD- and ball-tree regimes). "
                       "distinct_nontrivial = distinct (function, sizes, d form) among the Coq goals.")
    ctx.cov["input_distribution"] = dist_ct
    ctx.cov["contracts_validated"] = {"gammaln (calls cross-checked)": LG.calls, "nearest-neighbour trees vs brute force (datasets)": nn_calls,
                                      "Ridge normal equations": ridge_calls + n_est, "jnp.quantile linear interpolation": n_quant}
    ctx.cov["estimators_prepared"] = n_est
    ctx.cov["samples"] = [meta[i] for i in (0, len(meta) // 3, len(meta) // 2, len(meta) - 1)] if meta else []


def replay(ctx, rep):
    r = rep.get("replay", {})
    print("replay of", rep.get("key"), ":", rep.get("what"))
    print("recorded: expected %r observed %r allowed_error %r; call %r" % (r.get("expected"), r.get("observed"), r.get("allowed_error"), r.get("call")))
    return 1
