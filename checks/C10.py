"""C10 — requested rank / variance fraction is honoured by the rank reduction."""
import logging
import random
from fractions import Fraction

import numpy as np

from translate.pylogic import Translator, Unsupported
from vlib import enc
from vlib.core import Broken, TRUSTED_COMMON, REPO


def translate():
    tr = Translator(REPO)
    tr.translate("mellon.decomposition._eigendecomposition", "eigendecomposition",
                 oracles={"eigh": ["s", "v"]})
    return {"gen/EigCount.v": tr.emit(header_imports=("PyVal",))}, ["mellon.decomposition._eigendecomposition"]


# ---------------------------------------------------------------- spectra
def spectra(rng, thorough):
    out = []
    # the model is evaluated inside Coq on exact rationals: a 200 x 200 eigenvector literal costs a coqc process > 10 GB and
    # > 10 min (measured), so the thorough tier stops at 96 and spends its budget on more spectra per size instead
    sizes = [1, 2, 3, 4, 5, 7, 12, 20, 33] + ([48, 64, 96] if thorough else [48])
    for n in sizes:
        out.append(("slow-int", [float(i + 1) for i in range(n)]))
        out.append(("fast-dyadic", [2.0 ** (-(n - 1 - i)) for i in range(n)]))
        out.append(("ties", [float(1 + i // 3) for i in range(n)]))
        out.append(("clusters", [float((1 if i < n // 2 else 64) + (i % 2) * 0.25) for i in range(n)]))
        out.append(("tiny+zero+neg", ([-2.0 ** -30, 0.0] + [2.0 ** -40] * 2 + [float(i + 1) for i in range(n)])[:max(n, 1)]))
        out.append(("one-dominant", [2.0 ** -20] * (n - 1) + [1024.0]))
        for _ in range(3 if thorough else 1):
            out.append(("random-dyadic", [rng.randrange(1, 4096) / 64.0 for _ in range(n)]))
    out.append(("report", [1.0, 2.0, 3.0, 4.0]))
    out.append(("all-nonpositive", [-1.0, 0.0, 0.0]))
    return out


def ranks_for(rng, n, thorough):
    fr = [0.71, 0.7, 0.5, 0.99, 0.1, 1.0, 0.25, 0.75, 1 / 64, 63 / 64, 0.9999999, 1e-9]
    fr += [rng.randrange(1, 64) / 64.0 for _ in range(6 if thorough else 2)]
    ints = sorted(set([1, 2, max(1, n - 1), n, n + 5] + [rng.randrange(1, n + 2) for _ in range(3 if thorough else 1)]))
    return fr, ints


def exact_expected(s_sorted_asc, rank):
    """The property's statement, evaluated in exact rational arithmetic on the float inputs.
    returns (p, exact?) ; exact? False when float rounding could change the decision."""
    pos = [Fraction(x) for x in s_sorted_asc if x > 0]
    if not pos:
        return None, True
    desc = sorted(pos, reverse=True)
    if isinstance(rank, int):
        return min(rank, len(pos)), True
    total = sum(desc)
    target = total * Fraction(rank)
    acc = Fraction(0)
    p = None
    pref = []
    for i, x in enumerate(desc):
        acc += x
        pref.append(acc)
        if p is None and acc >= target:
            p = i + 1
    # float evaluation of the same quantities: is the decision robust to rounding?
    facc = 0.0
    fpref = []
    for x in sorted([float(x) for x in s_sorted_asc if x > 0], reverse=True):
        facc = facc + x
        fpref.append(facc)
    ftarget = fpref[-1] * rank
    robust = all((Fraction(a) >= Fraction(ftarget)) == (b >= target) for a, b in zip(fpref, pref))
    return p, robust


def run(ctx):
    import jax.numpy as jnp
    import mellon
    import mellon.decomposition as dec
    mellon.logger.setLevel(logging.CRITICAL)
    rng = random.Random(ctx.seed)
    ctx.cov["trusted_base"] = TRUSTED_COMMON + [
        "eigh contract (eigenvalues ascending) - validated on every recorded call of this run",
        "jnp.searchsorted(side=left) = number of entries below the target on ascending input (theorem C10_searchsorted_well_defined ties the model's prefix count to that)",
    ]
    ctx.assumptions += ["float arithmetic in cumsum/product is exact or decision-robust on the compared cases (others are skipped and counted)"]
    # 1. translate + 2. prove
    try:
        gen, funcs = translate()
        ctx.cov["translated_functions"] = funcs
        ctx.build_props(gen)
    except Unsupported as u:
        ctx.broken.append(Broken("translation", "mellon.decomposition._eigendecomposition", str(u)))
        gen = None

    # 3. run the implementation, recording the eigen-solver oracle
    rec = {}
    real_eigh = dec.eigh

    def eigh_rec(A):
        s, v = real_eigh(A)
        rec["s"], rec["v"] = np.asarray(s), np.asarray(v)
        return s, v
    dec.eigh = eigh_rec
    cases, meta = [], []
    dist = {}
    skipped = 0
    eigh_calls = 0
    try:
        for kind, spec in spectra(rng, ctx.thorough):
            n = len(spec)
            perm = list(spec)
            rng.shuffle(perm)
            A = jnp.diag(jnp.asarray(perm))
            fr, ints = ranks_for(rng, n, ctx.thorough)
            for rank in fr + ints:
                o = enc.outcome(lambda: dec._eigendecomposition(A, rank=rank))
                eigh_calls += 1
                s, v = rec["s"], rec["v"]
                if not np.all(np.diff(s) >= 0):
                    ctx.broken.append(Broken("contract", "eigh-ascending", repr(s)))
                    continue
                if o[0] == "ok":
                    s_, v_ = np.asarray(o[1][0]), np.asarray(o[1][1])
                # --- independent oracle: the property statement in exact arithmetic
                p_exp, robust = exact_expected(list(s), rank)
                if p_exp is not None and robust:
                    ok = o[0] == "ok" and s_.shape == (p_exp,) and v_.shape == (n, p_exp) \
                        and np.array_equal(s_, s[n - p_exp:]) and np.array_equal(v_, v[:, n - p_exp:])
                    if not ok:
                        ctx.violation("C10|%s|rank=%r" % (kind, rank),
                                      "rank request not honoured",
                                      {"call": "mellon.decomposition._eigendecomposition(diag(spectrum), rank)",
                                       "spectrum": perm, "rank": rank, "expected_kept": p_exp,
                                       "observed": o[1] if o[0] == "err" else {"kept": int(s_.shape[0]), "s_": s_.tolist()}})
                if not robust:
                    skipped += 1
                    continue
                # --- model case
                if gen is None:
                    continue
                if n <= 5:
                    vin = v
                    vexp = None if o[0] == "err" else v_
                else:
                    vin = np.arange(n * n).reshape(n, n)
                    vexp = None
                    if o[0] == "ok":
                        cols = []
                        for j in range(v_.shape[1]):
                            hit = [c for c in range(n) if np.array_equal(v[:, c], v_[:, j])]
                            cols.append(hit[0] if len(hit) == 1 else -1)
                        if -1 in cols:
                            ctx.violation("C10|%s|rank=%r|columns" % (kind, rank), "returned vectors are not columns of v",
                                          {"spectrum": perm, "rank": rank})
                            continue
                        vexp = vin[:, cols]
                model = "eigendecomposition VNone %s %s %s" % (enc.val(rank), enc.val(s), enc.val(vin))
                if o[0] == "ok":
                    expected = "(Ok (VTuple [%s; %s]))" % (enc.val(s_), enc.val(vexp))
                else:
                    expected = enc.res(o)
                cases.append((model, expected))
                meta.append({"kind": kind, "n": n, "rank": rank, "outcome": o[0] if o[0] == "err" else int(s_.shape[0])})
                key = "%s/%s" % (kind, "frac" if isinstance(rank, float) else "int")
                dist[key] = dist.get(key, 0) + 1
        # through compute_L: full_nystroem and sparse_nystroem factors, against an independent NumPy oracle:
        # the spectrum of K + max(sigma^2, jitter) I (full) / of K_xu (K_uu + .. I)^-1 K_ux (sparse)
        from mellon.parameters import compute_L
        from mellon.cov import Matern52, ExpQuad
        nfit = 0
        settings = [(ExpQuad, 3.0, 0.5), (Matern52, 1.0, 0.5), (Matern52, 0.3, 0), (ExpQuad, 1.0, 0)]
        if ctx.thorough:
            settings += [(k_, l_, s_) for k_ in (Matern52, ExpQuad) for l_ in (0.3, 1.0, 3.0) for s_ in (0, 0.1, 0.5)]
        for trial, (kern, ls_, sigma) in enumerate(settings):
            n = rng.choice([8, 15, 30])
            d = rng.choice([1, 2, 5])
            x = np.asarray([[rng.gauss(0, 1) for _ in range(d)] for _ in range(n)])
            cov = kern(ls_)
            jitter = 1e-6
            K = np.asarray(cov(x, x), dtype=float)
            lm_sparse = x[: max(4, n // 2)] + 0.01
            # history: the first two settings are run again on the SAME cells, inducing points, kernel and jitter with other noise
            # levels, back and forth - the factor must follow the noise level of the call at hand
            runs = [(g_, l_, sigma) for g_, l_ in (("full_nystroem", None), (None, None), ("sparse_nystroem", lm_sparse))]
            if trial < 2:
                runs += [("sparse_nystroem", lm_sparse, s_) for s_ in (0.3 if sigma == 0 else 0, sigma, 1.0)] + [("full_nystroem", None, 0.3 if sigma == 0 else 0)]
            for gp_type, lm, sigma in runs:
                s2 = max(sigma ** 2, jitter)
                if lm is None:
                    target_mat = K + s2 * np.eye(n)
                else:
                    C = np.asarray(cov(x, lm), dtype=float)
                    Wm = np.asarray(cov(lm, lm), dtype=float) + s2 * np.eye(lm.shape[0])
                    target_mat = C @ np.linalg.solve(Wm, C.T)
                ev, evec = np.linalg.eigh((target_mat + target_mat.T) / 2)
                # (a fraction may arrive as a NumPy float64 scalar, e.g. an element of np.linspace: it is a fraction all the same)
                for rank in [1, 2, 3, n - 1, 0.5, 0.9, 0.99, np.float64(0.9), np.float64(0.5)]:
                    if isinstance(rank, int) and lm is not None and rank >= lm.shape[0]:
                        continue
                    o = enc.outcome(lambda: compute_L(x, cov, gp_type=gp_type, landmarks=lm, rank=rank, sigma=sigma, jitter=jitter))
                    nfit += 1
                    desc = {"call": "mellon.parameters.compute_L(x, cov, gp_type, landmarks, rank, sigma, jitter)", "gp_type": gp_type,
                            "rank": rank, "sigma": sigma, "jitter": jitter, "x": x.tolist(), "landmarks": None if lm is None else lm.tolist(),
                            "cov": repr(cov)}
                    if o[0] != "ok":
                        ctx.violation("C10|compute_L|%s|rank=%r|%s" % (gp_type, rank, o[1]), "compute_L failed", desc)
                        continue
                    Lf = np.asarray(o[1], dtype=float)
                    pos = ev[ev > 1e-9 * ev[-1]]          # numerically positive part of the spectrum
                    desc_sorted = pos[::-1]
                    if isinstance(rank, int):
                        p_exp, robust = min(rank, len(pos)), True
                    else:
                        pref = np.cumsum(desc_sorted)
                        tgt = ev[ev > 0].sum() * rank
                        p_exp = int(np.searchsorted(pref, tgt) + 1)
                        robust = np.min(np.abs(pref - tgt)) > 1e-7 * pref[-1]
                    if robust and Lf.shape != (n, p_exp):
                        ctx.violation("C10|compute_L|%s|rank=%r|columns" % (gp_type, rank), "factor has the wrong number of columns",
                                      dict(desc, expected_cols=p_exp, observed_shape=list(Lf.shape), spectrum=ev.tolist()))
                        continue
                    if robust:
                        p = p_exp
                        top = (evec[:, -p:] * ev[-p:]) @ evec[:, -p:].T
                        err = np.abs(Lf @ Lf.T - top).max()
                        gap_ok = p == len(ev) or (ev[-p] - ev[-p - 1]) > 1e-6 * ev[-1]
                        if gap_ok and err > 1e-6 * max(1.0, ev[-1]):
                            ctx.violation("C10|compute_L|%s|rank=%r|eigenpairs" % (gp_type, rank),
                                          "L L^T is not the top-p eigen-truncation of the target matrix",
                                          dict(desc, max_abs_error=float(err), kept=p))
        ctx.cov["compute_L_fits"] = nfit
    finally:
        dec.eigh = real_eigh

    # 4. correspondence: the generated model on the same inputs, inside Coq
    if gen is not None and cases:
        try:
            bad = ctx.run_cases("c10", "PyVal EigCount", cases, shard=120 if ctx.thorough else 250)
        except Broken as b:
            ctx.broken.append(b)
            bad = {}
        for i, shown in bad.items():
            ctx.broken.append(Broken("correspondence", "eigendecomposition", "case %r: model gives %s" % (meta[i], shown)))
    ctx.cov["evaluations"] = len(cases)
    ctx.cov["traces_validated_against_impl"] = len(cases)
    ctx.cov["distinct_nontrivial"] = len({(m["kind"], m["n"], repr(m["rank"])) for m in meta if m["outcome"] != "err"})
    ctx.cov["rule"] = ("spectra (9 shapes x sizes, exactly representable values, shuffled on the diagonal) x fractional and integer "
                       "requests, run through mellon.decomposition._eigendecomposition with the eigen-solver recorded; each case is "
                       "evaluated by the generated Gallina model inside Coq (vm_compute) and compared exactly (kept eigenvalues and "
                       "columns). distinct_nontrivial = distinct (shape, size, request) with a non-error outcome. Cases where float "
                       "rounding could flip the searchsorted decision are skipped (%d)." % skipped)
    ctx.cov["skipped_float_boundary"] = skipped
    ctx.cov["input_distribution"] = dist
    ctx.cov["contracts_validated"] = {"eigh-ascending": eigh_calls}
    ctx.cov["samples"] = meta[:3] + meta[-2:]
