"""C15 — GP-type / rank / landmark options resolve consistently and fail cleanly."""
import ast
import itertools
import logging
import random

import numpy as np

from translate.pylogic import Translator, Unsupported, Module
from vlib import enc
from vlib.core import Broken, TRUSTED_COMMON, REPO

TARGETS = ["mellon.parameters.compute_rank", "mellon.parameters.compute_n_landmarks",
           "mellon.parameters.compute_gp_type", "mellon.parameter_validation.validate_params",
           "mellon.util.GaussianProcessType.from_string",
           "mellon.base_model.BaseEstimator._predictor_landmarks"]
ESTIMATORS = {"DensityEstimator": "mellon/density_estimator.py",
              "TimeSensitiveDensityEstimator": "mellon/time_sensitive_density_estimator.py",
              "DimensionalityEstimator": "mellon/dimensionality_estimator.py",
              "FunctionEstimator": "mellon/function_estimator.py"}


def prepare_order(relpath, cls):
    """the ordered list of steps in <cls>.prepare_inference: _prepare_attribute names and validate_parameter"""
    m = Module(REPO, relpath)
    c = m.classes[cls]
    out = []
    for node in c.body:
        if isinstance(node, ast.FunctionDef) and node.name == "prepare_inference":
            for st in ast.walk(node):
                if isinstance(st, ast.Call) and isinstance(st.func, ast.Attribute) \
                        and isinstance(st.func.value, ast.Name) and st.func.value.id == "self":
                    if st.func.attr == "_prepare_attribute" and isinstance(st.args[0], ast.Constant):
                        out.append((st.lineno, st.args[0].value))
                    elif st.func.attr == "validate_parameter":
                        out.append((st.lineno, "VALIDATE"))
                    elif st.func.attr == "set_x":
                        out.append((st.lineno, "SET_X"))
    return [n for _, n in sorted(out)]


def translate():
    tr = Translator(REPO)
    tr.constructors = {"FullConditional", "LandmarksConditional", "LandmarksConditionalCholesky"}
    tr.identity_calls = {"ensure_2d"}
    for q in TARGETS:
        tr.translate(q)
    tr.translate("mellon.inference.compute_conditional", oracles={"compute_parameter_cov_factor": ["ycf"]})
    tr.translate("mellon.parameters.compute_landmarks", oracles={"k_means": ["kmeans_result"]})
    tr.translate("mellon.parameters.compute_Lp", oracles={"_full_rank": ["full_rank_result"]})
    text = tr.emit(header_imports=("PyVal",))
    # structural table: the resolution order of every estimator
    from translate.pylogic import coq_string
    lines = []
    for cls, rel in ESTIMATORS.items():
        order = prepare_order(rel, cls)
        lines.append("Definition prepare_order_%s : list string := [%s]." % (cls, "; ".join(coq_string(s) for s in order)))
    text += "\n" + "\n".join(lines) + "\n"
    return {"gen/Resolve.v": text}, TARGETS + ["mellon.inference.compute_conditional", "mellon.parameters.compute_landmarks",
                                               "mellon.parameters.compute_Lp", "prepare_inference order tables (4 estimators)"]


class _Stop(Exception):
    pass


def impl_resolve(cls, X, cfg, upto=("n_landmarks", "rank", "gp_type")):
    """run the real constructor and the real prepare_inference up to and including validate_parameter"""
    est = cls(**cfg)
    orig = est._prepare_attribute

    def pa(attr):
        if attr in upto:
            return orig(attr)
        raise _Stop()
    est._prepare_attribute = pa
    try:
        if cls.__name__ == "FunctionEstimator":
            est.prepare_inference(X)
        else:
            est.prepare_inference(X)
    except _Stop:
        pass
    return (est.gp_type, est.n_landmarks, est.rank)


def shape_only(a):
    return "VNone" if a is None else "(VArr KF [%d; %d] [])" % a.shape


def grid(n):
    nls = [None, 0, 1, 2, n - 1, n, n + 1, 5000]
    lms = [None, 3, n, n + 2]
    ranks = [None, 0, 1, 2, n - 1, n, n + 5, 0.5, 0.99, 1.0, 2.0]
    gps = [None, "full", "full_nystroem", "sparse_cholesky", "sparse_nystroem", "fixed", "sparse", "nystroem", "bogus"]
    return itertools.product(nls, lms, ranks, gps)


NAMES = ["full", "full_nystroem", "sparse_cholesky", "sparse_nystroem", "fixed"]


def spec_resolve(n, nl, m, rank, gp, function_estimator=False):
    """The documented resolution rules (property text + docstrings), written independently of the code:
    returns 'ValueError' or (TYPE_NAME, n_landmarks, rank).  Mirrors theorem C15_resolve_closed_form."""
    if nl is not None and nl < 0:
        return "ValueError"
    g0 = None
    if gp is not None:
        norm = gp.lower().replace(" ", "_")
        g0 = next((v for v in NAMES if v == norm), None) or next((v for v in NAMES if norm in v), None)
        if g0 is None:
            return "ValueError"
    if function_estimator:
        if g0 in ("full_nystroem", "sparse_nystroem"):
            return "ValueError"
        rank = 1.0
    if nl is None:
        if m is not None:
            nl = m
        elif g0 in (None, "fixed"):
            nl = min(n, 5000)
        elif g0 in ("full", "full_nystroem"):
            nl = n
        else:
            nl = 5000
    if rank is None:
        rank = 0.99 if g0 in ("full_nystroem", "sparse_nystroem") else 1.0

    def full_indicated(bound):
        if isinstance(rank, int):
            return (bound is not None and rank >= bound) or rank == 0
        return rank >= 1.0 or rank == 0
    g = g0
    if g is None:
        if nl == 0 or nl >= n:
            g = "full" if full_indicated(n) else "full_nystroem"
        else:
            g = "sparse_cholesky" if full_indicated(nl) else "sparse_nystroem"
    if function_estimator:
        return (g.upper(), nl, rank)
    ok = True
    if m is not None and nl != m:
        ok = False
    if g in ("full", "full_nystroem") and nl != 0 and nl < n:
        ok = False
    if g in ("sparse_cholesky", "sparse_nystroem") and not (nl != 0 and nl < n):
        ok = False
    if g == "fixed" and nl == 0:
        ok = False
    bound = {"full": n, "full_nystroem": n, "sparse_cholesky": nl, "sparse_nystroem": nl, "fixed": None}[g]
    if full_indicated(bound) == (g in ("full_nystroem", "sparse_nystroem")):
        ok = False
    return (g.upper(), nl, rank) if ok else "ValueError"


KNOWN_KEYS = {
    "fe-landmarks-uncertainty": "C15|FunctionEstimator|landmarks|predictor_with_uncertainty|TypeError",
    "fe-landmarks-vector-sigma": "C15|FunctionEstimator|landmarks|vector-sigma|TypeError",
}


def run(ctx):
    import mellon
    mellon.logger.setLevel(logging.CRITICAL)
    logging.getLogger("mellon").setLevel(logging.CRITICAL)
    rng = random.Random(ctx.seed)
    nrng = np.random.default_rng(ctx.seed)
    ctx.cov["trusted_base"] = TRUSTED_COMMON + [
        "BaseEstimator._prepare_attribute modelled by hand as 'compute only when None' (prepare_attr); order of steps is a generated table checked by theorem C15_resolution_order",
        "k_means / _full_rank results are opaque oracle values in the logic model",
        "the constructor arguments passed to the predictor classes are not part of this model (C01/C02/C06 cover them)",
    ]
    gen = None
    try:
        gen, funcs = translate()
        ctx.cov["translated_functions"] = funcs
        ctx.build_props(gen)
    except Unsupported as u:
        ctx.broken.append(Broken("translation", "C15 targets", str(u)))

    # ---- A. the resolution pipeline, bounded-exhaustive grid of the property text, real estimator objects
    cases, meta = [], []
    dist = {}
    classes = [mellon.DensityEstimator, mellon.FunctionEstimator]
    if ctx.thorough:
        classes += [mellon.TimeSensitiveDensityEstimator, mellon.DimensionalityEstimator]
    all_classes = [mellon.DensityEstimator, mellon.FunctionEstimator, mellon.TimeSensitiveDensityEstimator, mellon.DimensionalityEstimator]
    for n in (6, 12):
        X = nrng.normal(size=(n, 2))
        lm_arrays = {None: None, 3: nrng.normal(size=(3, 2)), n: nrng.normal(size=(n, 2)), n + 2: nrng.normal(size=(n + 2, 2))}
        for cls in all_classes:
            Xc = X
            if cls.__name__ == "TimeSensitiveDensityEstimator":
                Xc = np.concatenate([X, np.repeat([0.0, 1.0], n // 2)[:, None]], axis=1)
            for nl, m, rank, gp in grid(n):
                lm = lm_arrays[m]
                if lm is not None and cls.__name__ == "TimeSensitiveDensityEstimator":
                    lm = np.concatenate([lm, np.zeros((lm.shape[0], 1))], axis=1)
                cfg = dict(n_landmarks=nl, landmarks=lm, gp_type=gp)
                if cls.__name__ != "FunctionEstimator":
                    cfg["rank"] = rank
                elif rank is not None:
                    continue
                o = enc.outcome(lambda: impl_resolve(cls, Xc, cfg))
                fn = "resolve_function_estimator" if cls.__name__ == "FunctionEstimator" else "resolve"
                model = "%s (VInt %d) %s %s %s %s" % (fn, n, enc.val(nl), shape_only(lm), enc.val(rank), enc.val(gp))
                if cls in classes:
                    cases.append((model, enc.res(o)))
                meta.append({"estimator": cls.__name__, "n": n, "n_landmarks": nl, "landmarks_m": m, "rank": rank,
                             "gp_type": gp, "impl": (o[1][0].name if o[0] == "ok" else o[1])})
                k = "%s/%s" % (cls.__name__, meta[-1]["impl"])
                dist[k] = dist.get(k, 0) + 1
                # independent oracle: the documented rules
                exp = spec_resolve(n, nl, m, rank, gp, cls.__name__ == "FunctionEstimator")
                got = (o[1][0].name, o[1][1], o[1][2]) if o[0] == "ok" else o[1]
                if exp != got:
                    ctx.violation("C15|rules|%s|%r->%r" % (cls.__name__, exp if isinstance(exp, str) else exp[0], got if isinstance(got, str) else got[0]),
                                  "option combination does not resolve by the documented rules",
                                  {"estimator": cls.__name__, "n": n, "n_landmarks": nl, "landmarks_m": m, "rank": rank, "gp_type": gp,
                                   "expected": exp, "observed": got})
                # independent reading of the property: only ValueError may refuse a combination
                if o[0] == "err" and o[1] != "ValueError":
                    ctx.violation("C15|resolve|%s|%s" % (cls.__name__, o[1]), "option combination fails with an internal error",
                                  {"estimator": cls.__name__, "config": {k2: (v if not hasattr(v, "shape") else "array%s" % (v.shape,)) for k2, v in cfg.items()},
                                   "n": n, "exception": o[1]})
    if gen is not None:
        try:
            bad = ctx.run_cases("c15_resolve", "PyVal Resolve ResolvePipeline", cases, shard=400)
        except Broken as b:
            ctx.broken.append(b)
            bad = {}
        cmeta = [m_ for m_ in meta if m_["estimator"] in [c.__name__ for c in classes]]
        for i, shown in list(bad.items())[:20]:
            ctx.broken.append(Broken("correspondence", "resolve", "case %r: model gives %s" % (cmeta[i], shown)))
    n_res = len(cases)

    # ---- B. real fits: the accepted combinations fit, promised factor shape, predictor class; refusals are ValueErrors
    fits = 0
    fit_cases, fit_meta = [], []
    all_cfgs = []
    for n in (6, 12):
        for nl, m, rank, gp in grid(n):
            all_cfgs.append((n, nl, m, rank, gp))
    rng.shuffle(all_cfgs)
    must = []
    for n in (6, 12):
        must += [(n, None, None, None, "fixed"), (n, 5000, None, None, "fixed"), (n, None, n, None, "fixed"), (n, None, n + 2, None, "fixed"),
                 (n, None, n, None, None), (n, None, n, None, "full"), (n, 3, None, 0.99, None), (n, 3, None, None, "sparse"),
                 (n, None, None, 0.5, None), (n, 1, None, None, None), (n, 0, None, None, "fixed"), (n, n + 1, None, None, None)]
    all_cfgs = must + all_cfgs
    # make sure each gp outcome class is represented: take a stratified sample
    budget = 170 if ctx.thorough else 44
    ests = [mellon.DensityEstimator, mellon.DimensionalityEstimator, mellon.TimeSensitiveDensityEstimator]
    seen_types = {}
    for (n, nl, m, rank, gp) in all_cfgs:
        if fits >= budget:
            break
        cls = ests[fits % 3] if ctx.thorough else ests[(fits // 4) % 3]
        X = nrng.normal(size=(n, 2))
        lm = None if m is None else nrng.normal(size=(m, 2))
        Xc = X
        if cls.__name__ == "TimeSensitiveDensityEstimator":
            Xc = np.concatenate([X, np.repeat([0.0, 1.0], n // 2)[:, None]], axis=1)
            if lm is not None:
                lm = np.concatenate([lm, nrng.integers(0, 2, size=(lm.shape[0], 1)).astype(float)], axis=1)
        cfg = dict(n_landmarks=nl, landmarks=lm, gp_type=gp, rank=rank)
        pre = enc.outcome(lambda: impl_resolve(cls, Xc, cfg))
        tkey = pre[1][0].name if pre[0] == "ok" else "refused"
        if (n, nl, m, rank, gp) not in must and seen_types.get(tkey, 0) >= budget // 5:
            continue
        seen_types[tkey] = seen_types.get(tkey, 0) + 1
        wu = rng.random() < 0.3
        opt = rng.choice(["L-BFGS-B", "advi"]) if wu else "L-BFGS-B"
        extra = dict(predictor_with_uncertainty=wu, optimizer=opt)
        if opt == "advi":
            extra["n_iter"] = 3
        if cls.__name__ == "DimensionalityEstimator":
            extra["k"] = 3

        def fit():
            est = cls(**cfg, **extra)
            est.fit(Xc)
            return est
        o = enc.outcome(fit)
        fits += 1
        desc = {"estimator": cls.__name__, "n": n, "n_landmarks": nl, "landmarks_m": m, "rank": rank, "gp_type": gp,
                "predictor_with_uncertainty": wu, "optimizer": opt}
        model = "resolve_with_family (VInt %d) %s %s %s %s" % (n, enc.val(nl), shape_only(lm), enc.val(rank), enc.val(gp))
        if o[0] == "err":
            if o[1] != "ValueError":
                ctx.violation("C15|fit|%s|%s|%s" % (cls.__name__, tkey, o[1]), "option combination dies with an internal error",
                              dict(desc, exception=o[1]))
                continue
            if wu and opt == "L-BFGS-B":
                continue      # documented refusal: uncertainty needs pre_transformation_std (advi)
            fit_cases.append((model, "(Err ValueError)"))
            fit_meta.append(dict(desc, impl="ValueError"))
            continue
        est = o[1]
        g = est.gp_type
        L = np.asarray(est.L)
        m_eff = n if est.landmarks is None else np.asarray(est.landmarks).shape[0]
        pname = type(est.predict).__name__.replace("Exp", "").replace("Time", "")
        cols_ok = {"FULL": L.shape[1] == n, "SPARSE_CHOLESKY": L.shape[1] == m_eff, "FIXED": L.shape[1] == m_eff,
                   "FULL_NYSTROEM": 1 <= L.shape[1] <= n, "SPARSE_NYSTROEM": 1 <= L.shape[1] <= m_eff}[g.name]
        fit_cases.append((model, "(Ok (VTuple [%s; %s; VStr %s]))" % (enc.val(g), enc.val(int(est.n_landmarks)), enc.coq_str(pname))))
        fit_meta.append(dict(desc, impl=g.name))
        pred = np.asarray(est.predict(Xc))
        fam = {"FULL": "FullConditional", "FULL_NYSTROEM": "FullConditional", "SPARSE_CHOLESKY": "LandmarksConditionalCholesky",
               "FIXED": "LandmarksConditionalCholesky", "SPARSE_NYSTROEM": "LandmarksConditional"}[g.name]
        if pname != fam:
            ctx.violation("C15|fit|%s|%s|predictor-class" % (cls.__name__, g.name), "predictor class does not match the resolved type",
                          dict(desc, resolved=g.name, predictor=type(est.predict).__name__, expected_family=fam))
        if L.shape[0] != n or not cols_ok or not np.all(np.isfinite(pred)):
            ctx.violation("C15|fit|%s|%s|shape" % (cls.__name__, g.name),
                          "accepted combination: factor shape does not match the resolved type or predictions are not finite",
                          dict(desc, resolved=g.name, L_shape=list(L.shape), predictor=type(est.predict).__name__))
    # FunctionEstimator: noise forms
    fe = 0
    for n in (6, 12):
        X = nrng.normal(size=(n, 2))
        y = nrng.normal(size=n)
        for nl in (0, 3):
            for sigma_kind in ("zero", "scalar", "vector"):
                for wu in (False, True):
                    sigma = {"zero": 0, "scalar": 0.1, "vector": np.full(n, 0.1)}[sigma_kind]
                    o = enc.outcome(lambda: mellon.FunctionEstimator(n_landmarks=nl, sigma=sigma, predictor_with_uncertainty=wu).fit(X, y).predict(X))
                    fe += 1
                    if o[0] == "err" and o[1] != "ValueError":
                        if nl > 0 and wu:
                            key = KNOWN_KEYS["fe-landmarks-uncertainty"]
                        elif nl > 0 and sigma_kind == "vector":
                            key = KNOWN_KEYS["fe-landmarks-vector-sigma"]
                        else:
                            key = "C15|FunctionEstimator|nl=%d|sigma=%s|unc=%s|%s" % (nl, sigma_kind, wu, o[1])
                        ctx.violation(key, "FunctionEstimator option combination dies with an internal error",
                                      {"n": n, "n_landmarks": nl, "sigma": sigma_kind, "predictor_with_uncertainty": wu, "exception": o[1]})
    if gen is not None and fit_cases:
        try:
            bad = ctx.run_cases("c15_fit", "PyVal Resolve ResolvePipeline", fit_cases)
        except Broken as b:
            ctx.broken.append(b)
            bad = {}
        for i, shown in list(bad.items())[:20]:
            ctx.broken.append(Broken("correspondence", "resolve_with_family", "fit %r: model gives %s" % (fit_meta[i], shown)))
    ctx.cov["evaluations"] = n_res + len(fit_cases)
    ctx.cov["traces_validated_against_impl"] = n_res + len(fit_cases)
    ctx.cov["distinct_nontrivial"] = len({(m_["estimator"], m_["n"], m_["n_landmarks"], m_["landmarks_m"], repr(m_["rank"]), m_["gp_type"])
                                          for m_ in meta if m_["impl"] in ("FULL", "FULL_NYSTROEM", "SPARSE_CHOLESKY", "SPARSE_NYSTROEM", "FIXED")})
    ctx.cov["exhaustive"] = True
    ctx.cov["rule"] = ("A: the bounded-exhaustive grid of the property text (n in {6,12} x 8 n_landmarks x 4 landmark forms x 11 ranks x 9 gp_type "
                       "spellings) through the REAL constructor + prepare_inference (stopped after validate_parameter) of each estimator class, "
                       "compared exactly (exception class | type, n_landmarks, rank) with the generated Gallina pipeline evaluated in Coq; "
                       "B: %d real fits (stratified over resolved types, uncertainty/optimizer flags) checking factor shape, predictor class, finite "
                       "predictions and that refusals are ValueErrors; %d FunctionEstimator noise-form fits. distinct_nontrivial = distinct accepted "
                       "grid points." % (fits, fe))
    ctx.cov["input_distribution"] = dist
    ctx.cov["real_fits"] = fits
    ctx.cov["samples"] = meta[:2] + meta[len(meta) // 2: len(meta) // 2 + 2] + fit_meta[:2]
