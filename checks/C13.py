"""C13 — time arguments of time-aware predictors mean what they say."""
import ast
import itertools
import logging
import random

import numpy as np

from translate.pylogic import Translator, Unsupported, Module, coq_string
from vlib import enc
from vlib.core import Broken, TRUSTED_COMMON, REPO

METHODS = ["mean", "covariance", "mean_covariance", "uncertainty", "time_derivative", "gradient", "hessian",
           "hessian_log_determinant"]


def method_table():
    m = Module(REPO, "mellon/base_predictor.py")
    cls = m.classes["PredictorTime"]
    rows = []
    for node in cls.body:
        if not isinstance(node, ast.FunctionDef) or node.name.startswith("_"):
            continue
        if node.name not in METHODS:
            continue
        deco = any(isinstance(d, ast.Name) and d.id == "make_multi_time_argument" for d in node.decorator_list)
        args = [a.arg for a in node.args.args]
        defaults = dict(zip(args[len(args) - len(node.args.defaults):], node.args.defaults))
        time_default_none = "time" in defaults and isinstance(defaults["time"], ast.Constant) and defaults["time"].value is None
        body = [s for s in node.body if not (isinstance(s, ast.Expr) and isinstance(s.value, ast.Constant))]
        first = body[0] if body else None
        merges = False
        if isinstance(first, ast.Assign) and isinstance(first.value, ast.Call) and isinstance(first.value.func, ast.Name) \
                and first.value.func.id == "validate_time_x" and len(first.value.args) == 2 \
                and isinstance(first.value.args[0], ast.Name) and first.value.args[0].id == args[1] \
                and isinstance(first.value.args[1], ast.Name) and first.value.args[1].id == "time":
            kw = {k.arg: k.value for k in first.value.keywords}
            merges = (set(kw) == {"n_features", "cast_scalar"}
                      and isinstance(kw["cast_scalar"], ast.Constant) and kw["cast_scalar"].value is True
                      and isinstance(kw["n_features"], ast.Attribute) and kw["n_features"].attr == "n_input_features"
                      and isinstance(kw["n_features"].value, ast.Name) and kw["n_features"].value.id == "self")
        # `time` (the parameter) is not read after the merge; it may be re-bound from the merged matrix
        reads_time = False
        rebound = False
        for st in body[1:]:
            for x in ast.walk(st):
                if isinstance(x, ast.Name) and x.id == "time":
                    if isinstance(x.ctx, ast.Store):
                        rebound = True
                    elif not rebound:
                        reads_time = True
            # the raw x parameter must not be used after the merge either
            for x in ast.walk(st):
                if isinstance(x, ast.Name) and x.id == args[1] and isinstance(x.ctx, ast.Load) \
                        and not (isinstance(first, ast.Assign) and isinstance(first.targets[0], ast.Name) and first.targets[0].id == args[1]):
                    reads_time = True
        rows.append((node.name, deco and time_default_none and merges and not reads_time,
                     dict(decorated=deco, time_default_none=time_default_none, merges_first=merges, reads_raw_after=reads_time)))
    return rows


def wrapper_facts():
    m = Module(REPO, "mellon/util.py")
    fn = m.funcs["make_multi_time_argument"]
    src = ast.unparse(fn)
    facts = {"in_axes": None, "out_axes": None, "exn": None, "guarded": False, "time_kw": False}
    for x in ast.walk(fn):
        if isinstance(x, ast.Call) and isinstance(x.func, ast.Name) and x.func.id == "vmap":
            kw = {k.arg: k.value for k in x.keywords}
            if isinstance(kw.get("in_axes"), ast.Constant):
                facts["in_axes"] = kw["in_axes"].value
            if isinstance(kw.get("out_axes"), ast.Constant):
                facts["out_axes"] = kw["out_axes"].value
        if isinstance(x, ast.If) and "multi_time is not None" in ast.unparse(x.test):
            for y in ast.walk(x):
                if isinstance(y, ast.If) and ast.unparse(y.test) == "kwargs.get('time', None) is not None":
                    if len(y.body) == 1 and isinstance(y.body[0], ast.Raise):
                        e = y.body[0].exc
                        facts["exn"] = e.func.id if isinstance(e, ast.Call) else None
                        facts["guarded"] = True
        if isinstance(x, ast.Return) and ast.unparse(x.value) == "func(self, *args, **kwargs, time=t)":
            facts["time_kw"] = True
    return facts


def translate():
    tr = Translator(REPO)
    tr.translate("mellon.validation.validate_time_x")
    gen = {"gen/TimeX.v": tr.emit(header_imports=("PyVal",))}
    rows = method_table()
    wf = wrapper_facts()
    if wf["exn"] not in ("ValueError", "TypeError", "AttributeError"):
        raise Unsupported("multi_time wrapper: conflict guard not recognised (%r)" % (wf,))
    t = ["(* GENERATED structural tables for C13 *)", "From Coq Require Import ZArith List String.",
         "From MellonV Require Import PyVal.", "Import ListNotations.", "Open Scope string_scope.",
         "Definition time_method_names : list string := [%s]." % "; ".join(coq_string(m) for m in METHODS),
         "Definition time_methods : list (string * bool) := [%s]." % "; ".join(
             "(%s, %s)" % (coq_string(n), "true" if ok else "false") for n, ok, _ in rows),
         "Definition wrapper_conflict_exn : exn := %s." % wf["exn"],
         "Definition wrapper_in_axes : Z := %d%%Z." % (wf["in_axes"] if wf["in_axes"] is not None else -99),
         "Definition wrapper_out_axes : Z := %d%%Z." % (wf["out_axes"] if wf["out_axes"] is not None else -99),
         "Definition wrapper_conflict_guarded : bool := %s." % ("true" if wf["guarded"] else "false"),
         "Definition wrapper_passes_time_keyword : bool := %s." % ("true" if wf["time_kw"] else "false"), ""]
    gen["gen/TimeTable.v"] = "\n".join(t)
    return gen, ["mellon.validation.validate_time_x", "mellon.validation.validate_array",
                 "PredictorTime method table (8 methods)", "make_multi_time_argument wrapper facts"], rows


def flat(u):
    parts = u if isinstance(u, tuple) else (u,)
    return np.concatenate([np.ravel(np.asarray(z, dtype=float)) for z in parts])


def run(ctx):
    import jax.numpy as jnp
    import mellon
    from mellon.validation import validate_time_x
    mellon.logger.setLevel(logging.CRITICAL)
    logging.getLogger("mellon.validation").setLevel(logging.CRITICAL)
    rng = random.Random(ctx.seed)
    nrng = np.random.default_rng(ctx.seed)
    enc.NP_DISTINCT = True
    ctx.cov["trusted_base"] = TRUSTED_COMMON + [
        "jnp.isscalar / asarray(dtype=float) / full / squeeze / reshape / concatenate given list semantics in coq/lib/PyVal.v and compared exactly with JAX on every case of this run",
        "make_multi_time_argument (closure over *args/**kwargs, vmap) is not translated: its structural facts (conflict guard, in_axes=0, out_axes=1, time passed by keyword) are a generated table; its behaviour is compared with per-time calls on real predictors",
    ]
    gen = None
    try:
        gen, funcs, rows = translate()
        ctx.cov["translated_functions"] = funcs
        ctx.cov["method_table"] = [dict(name=n, ok=ok, **d) for n, ok, d in rows]
        ctx.build_props(gen)
    except Unsupported as u:
        ctx.broken.append(Broken("translation", "C13 targets", str(u)))

    # ---- A. validate_time_x on every time form (+ malformed stream), exact comparison with the model
    cases, meta, dist = [], [], {}

    def dy(k):           # exactly representable values
        return [rng.randrange(-64, 64) / 8.0 for _ in range(k)]
    sizes = [(1, 1), (2, 1), (3, 2), (5, 2)] + ([(4, 3), (7, 1), (8, 4)] if ctx.thorough else [])
    for (n, d) in sizes:
        for rep in range(3 if ctx.thorough else 1):
            X = np.asarray(dy(n * d)).reshape(n, d)
            ts = dy(n)
            t0 = ts[0]
            Xt = np.concatenate([X, np.asarray(ts)[:, None]], axis=1)
            forms = {
                "column-in-x": (Xt, None), "vector(n,)": (X, np.asarray(ts)), "column(n,1)": (X, np.asarray(ts)[:, None]),
                "list": (X, list(ts)), "tuple": (X, tuple(ts)), "jax-vector": (X, jnp.asarray(ts)),
                "float": (X, t0), "int": (X, 3), "np.float64": (X, np.float64(t0)), "0-d": (X, np.asarray(t0)),
                "jax-0-d": (X, jnp.asarray(t0)), "(1,)": (X, np.asarray([t0])), "(1,1)": (X, np.asarray([[t0]])),
                "list-of-1": (X, [t0]),
                # malformed stream
                "wrong-length": (X, np.asarray(dy(n + 2))), "two-columns": (X, np.asarray(dy(2 * n)).reshape(n, 2)),
                "3-d": (X, np.asarray(dy(n)).reshape(n, 1, 1)), "missing-time": (X, None), "ragged": (X, [[1.0, 2.0], [3.0]]),
                "x-1d": (np.asarray(dy(n)), np.asarray(ts)), "x-list": (X.tolist(), list(ts)), "x-none": (None, ts),
                "extra-feature": (np.concatenate([X, X[:, :1]], axis=1), np.asarray(ts)),
                "row-vector(1,n)": (X, np.asarray(ts)[None, :]),
                "column-form-too-wide": (np.concatenate([Xt, X[:, :1]], axis=1), None),
                "column-form-too-narrow": (X[:, :max(d - 1, 0)], None),
            }
            for fname, (xv, tv) in forms.items():
                for cast in (True, False):
                    for nf in (d + 1, None):
                        o = enc.outcome(lambda: validate_time_x(xv, tv, n_features=nf, cast_scalar=cast))
                        model = "py_validation_validate_time_x %s %s %s %s" % (enc.val(xv), enc.val(tv), enc.val(nf), enc.val(cast))
                        cases.append((model, enc.res(o)))
                        meta.append({"form": fname, "n": n, "d": d, "cast_scalar": cast, "n_features": nf,
                                     "impl": "ok" if o[0] == "ok" else o[1]})
                        k = "%s/%s" % (fname, meta[-1]["impl"])
                        dist[k] = dist.get(k, 0) + 1
    if gen is not None:
        try:
            bad = ctx.run_cases("c13_vtx", "PyVal TimeX", cases, shard=300)
        except Broken as b:
            ctx.broken.append(b)
            bad = {}
        for i, shown in list(bad.items())[:20]:
            ctx.broken.append(Broken("correspondence", "validate_time_x", "case %r: model gives %s" % (meta[i], shown)))

    # ---- B. real time-aware predictors: all forms give the column-form result; multi_time stacks per-time results
    n = 24
    X = nrng.normal(size=(n, 2))
    t = np.repeat([0.0, 1.0, 2.0], n // 3)
    Xt = np.concatenate([X, t[:, None]], axis=1)
    configs = [("FullConditionalTime", dict(n_landmarks=0)),
               ("LandmarksConditionalCholeskyTime", dict(n_landmarks=8)),
               ("LandmarksConditionalTime", dict(n_landmarks=8, rank=0.8))]
    real_calls = 0
    q = 5
    Xq = nrng.normal(size=(q, 2))
    tq = np.asarray([0.0, 1.0, 0.5, 2.0, 1.0])
    Xqt = np.concatenate([Xq, tq[:, None]], axis=1)
    for cname, cfg in configs:
        est = mellon.TimeSensitiveDensityEstimator(ls_time=1.0, optimizer="advi", n_iter=3, predictor_with_uncertainty=True, **cfg)
        est.fit(Xt)
        p = est.predict
        if type(p).__name__ != cname:
            ctx.broken.append(Broken("harness", "predictor-class", "expected %s got %s" % (cname, type(p).__name__)))
            continue
        for meth in METHODS:
            f = getattr(p, meth)
            kws = [{}]
            if meth in ("covariance", "mean_covariance", "uncertainty"):
                kws = [{"diag": True}, {"diag": False}]
            if meth == "mean":
                kws = [{"normalize": False}, {"normalize": True}]
            for kw in kws:
                ref = enc.outcome(lambda: flat(f(Xqt, **kw)))
                real_calls += 1
                if ref[0] != "ok":
                    ctx.violation("C13|%s|%s|column-form|%s" % (cname, meth, ref[1]), "trailing-column form fails",
                                  {"class": cname, "method": meth, "kw": kw, "exception": ref[1]})
                    continue
                per_row = {"vector": tq, "column": tq[:, None], "list": list(tq), "jax": jnp.asarray(tq)}
                for fname, tv in per_row.items():
                    o = enc.outcome(lambda: flat(f(Xq, tv, **kw)))
                    real_calls += 1
                    if o[0] != "ok" or not np.array_equal(o[1], ref[1]):
                        ctx.violation("C13|%s|%s|%s" % (cname, meth, fname), "time form gives a different result than the trailing column",
                                      {"class": cname, "method": meth, "kw": kw, "form": fname, "x": Xq.tolist(), "time": list(tq),
                                       "observed": o[1] if o[0] == "err" else float(np.abs(o[1] - ref[1]).max())})
                # history: the same NumPy time vector refilled in place between two calls means the NEW times
                tbuf = np.array(tq, dtype=float, copy=True)
                enc.outcome(lambda: f(Xq, tbuf, **kw))
                tnew = np.asarray([2.0, 0.0, 1.0, 0.5, 0.0])
                tbuf[...] = tnew
                o1 = enc.outcome(lambda: flat(f(Xq, tbuf, **kw)))
                o2 = enc.outcome(lambda: flat(f(np.concatenate([Xq, tnew[:, None]], axis=1), **kw)))
                real_calls += 3
                if o1[0] != "ok" or o2[0] != "ok" or not np.array_equal(o1[1], o2[1]):
                    ctx.violation("C13|%s|%s|time-buffer-reuse" % (cname, meth), "a time vector refilled in place is not read again",
                                  {"class": cname, "method": meth, "kw": kw, "x": Xq.tolist(), "time_first": list(tq), "time_now": list(tnew),
                                   "sequence": "t = time.copy(); p.%s(x, t); t[...] = time_now; p.%s(x, t) vs the trailing-column form with time_now" % (meth, meth)})
                # scalar forms against an explicit constant column
                t0 = 1.0
                refs = enc.outcome(lambda: flat(f(np.concatenate([Xq, np.full((q, 1), t0)], axis=1), **kw)))
                scal = {"float": t0, "int": 1, "0-d": np.asarray(t0), "(1,)": np.asarray([t0]), "(1,1)": np.asarray([[t0]]),
                        "jax-0-d": jnp.asarray(t0), "np.float64": np.float64(t0)}
                for fname, tv in scal.items():
                    o = enc.outcome(lambda: flat(f(Xq, tv, **kw)))
                    real_calls += 1
                    if refs[0] != "ok" or o[0] != "ok" or not np.array_equal(o[1], refs[1]):
                        ctx.violation("C13|%s|%s|scalar-%s" % (cname, meth, fname), "scalar time form is not a broadcast to all rows",
                                      {"class": cname, "method": meth, "kw": kw, "form": fname, "x": Xq.tolist(), "time": t0,
                                       "observed": o[1] if o[0] == "err" else "differs"})
                # multi_time: column k equals the time=t_k result
                # (a list with repeats and a list without repeats that is not ascending: the order asked for is the order returned)
                # ... and a list longer than any plausible internal block of time points (40, with repeats, not ascending)
                for mt in ([0.0, 2.0, 0.0], [2.5, 0.5, 1.0], [float((7 * k_) % 5) / 2.0 for k_ in range(40)]):
                    o = enc.outcome(lambda: f(Xq, multi_time=mt, **kw))
                    real_calls += 1
                    if o[0] != "ok":
                        ctx.violation("C13|%s|%s|multi_time|%s" % (cname, meth, o[1]), "multi_time call fails",
                                      {"class": cname, "method": meth, "kw": kw, "multi_time": mt})
                    else:
                        outs = o[1] if isinstance(o[1], tuple) else (o[1],)
                        for k_ in (range(len(mt)) if len(mt) <= 3 else (0, 17, 31, 32, 33, 39)):
                            tk = mt[k_]
                            single = f(Xq, tk, **kw)
                            singles = single if isinstance(single, tuple) else (single,)
                            for a, b in zip(outs, singles):
                                a, b = np.asarray(a), np.asarray(b)
                                col = np.take(a, k_, axis=1)
                                if col.shape != b.shape or not np.allclose(col, b, rtol=1e-9, atol=1e-9):
                                    ctx.violation("C13|%s|%s|multi_time-stack" % (cname, meth),
                                                  "multi_time result is not the per-time results stacked along axis 1",
                                                  {"class": cname, "method": meth, "kw": kw, "multi_time": mt, "k": k_,
                                                   "shapes": [list(a.shape), list(b.shape)]})
                # refusals
                for what, call in (("both-time-and-multi_time", lambda: f(Xq, time=1.0, multi_time=[0.0, 1.0], **kw)),
                                   # a time that is "falsy" (0, 0.0, a one-element array holding 0) is still a time
                                   ("both-time-zero-and-multi_time", lambda: f(Xq, time=0, multi_time=[0.0, 1.0], **kw)),
                                   ("both-time-0.0-and-multi_time", lambda: f(Xq, time=0.0, multi_time=[0.0, 1.0], **kw)),
                                   ("both-time-array0-and-multi_time", lambda: f(Xq, time=np.asarray([0.0]), multi_time=[0.0, 1.0], **kw)),
                                   ("wrong-length", lambda: f(Xq, np.asarray([0.0, 1.0, 2.0]), **kw)),
                                   ("wrong-features", lambda: f(np.concatenate([Xq, Xq], axis=1), tq, **kw)),
                                   ("wrong-features-column-form", lambda: f(np.concatenate([Xqt, Xq], axis=1), **kw)),
                                   ("missing-time", lambda: f(Xq, **kw))):
                    o = enc.outcome(call)
                    real_calls += 1
                    if o != ("err", "ValueError"):
                        ctx.violation("C13|%s|%s|%s" % (cname, meth, what), "inconsistent time arguments are not refused with ValueError",
                                      {"class": cname, "method": meth, "kw": kw, "case": what, "observed": o[1] if o[0] == "err" else "accepted"})
    ctx.cov["evaluations"] = len(cases) + real_calls
    ctx.cov["traces_validated_against_impl"] = len(cases)
    ctx.cov["distinct_nontrivial"] = len({(m_["form"], m_["n"], m_["d"], m_["cast_scalar"], m_["n_features"]) for m_ in meta if m_["impl"] == "ok"})
    ctx.cov["rule"] = ("A: validate_time_x on 24 time/x forms (14 well-formed, 10 malformed) x sizes x cast_scalar x n_features with exactly "
                       "representable values, outcome (merged array bits | exception class) compared exactly with the generated Gallina model "
                       "evaluated in Coq; B: %d calls on 3 real time-aware predictor classes x 8 methods x diag/normalize: per-row and scalar forms "
                       "bit-identical to the trailing-column form, multi_time columns equal per-time calls, 4 refusal kinds are ValueErrors. "
                       "distinct_nontrivial = distinct accepted (form, n, d, flags)." % real_calls)
    ctx.cov["input_distribution"] = dist
    ctx.cov["real_predictor_calls"] = real_calls
    ctx.cov["samples"] = meta[:3] + meta[-2:]
