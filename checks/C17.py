"""C17 - optimisation never degrades the objective and is reproducible.

WHAT A THEOREM CAN CARRY HERE is the wiring of the optimisers into the estimator and the shape of the problem, NOT
SciPy's line search, Adam's arithmetic or XLA.  Proof side (Coq, props/C17.v over gen/C17Tables.v, regenerated from
the AST on every run by translate/c17_tables.py, fail closed): the dispatch of _run_inference (three names, anything
else ValueError), where every result field goes per optimiser (standard deviations from ADVI only), L-BFGS-B:
pre_transformation = params and reported loss = state.fun_val, hence - under the contract of the SciPy wrapper,
a Section hypothesis - loss(pre_transformation) = reported <= loss(initial_value); Adam / ADVI: trace length = n_iter
for every n_iter by induction over a hand-written loop model (lib/OptSem.v) whose skeleton (range, index handed to the
step, what is appended, where the parameters are read) is the generated table; ADVI uses PRNGKey(loop index) and
std = exp(log_std) > 0 of the same shape; every randomness site of mellon/*.py is seeded except k-means inside
compute_landmarks, which is off the path when landmarks are given.  Strict convexity of the objective is proved for
its scalar core only (`_partial`).

Run side - these clauses are TESTS (labelled `runtime_tests` in the evidence; level notes say partial):
real DensityEstimator fits, 3 optimisers x jit on/off x 3 gp_types x n_iter in a small grid including 1, explicit
landmarks.  L-BFGS-B: loss(pre_transformation) <= loss(initial_value), equals the reported loss and an independent
NumPy evaluation of the documented objective (tolerance: 64 (n + k) u x sum of the absolute terms); gradient norm at
the end / at the start <= 1e-2 (SciPy stops at projected gradient <= 1e-5 or relative decrease <= 2.2e-9; observed
ratios are ~1e-6; reported as support, not proof).  Adam / ADVI: trace length, finite parameters, std > 0 finite of
the right shape, and the loop identities  trace(n_iter + 1)[:n_iter] == trace(n_iter)  (bitwise) and, for Adam,
loss(pre_transformation(n_iter)) == trace(n_iter + 1)[n_iter]  (the returned parameters are those AFTER the last
step).  Reproducibility: every configuration is fitted twice in-process and once in each of two FRESH interpreters
(spawned /venv/bin/python, same environment): pre_transformation, losses, standard deviations, fitted log-density and
the predictor JSON minus its timestamp are compared by bytes.  jit on/off: L-BFGS-B results agree within
|grad(jit)| + |grad(no jit)| (the objective is 1-strongly convex: prior |z|^2/2 + convex likelihood part), Adam / ADVI
after ONE step within rounding; for 2..100 steps within the margin 1e-6 (1 + |z|) on parameters and trace (no derived
bound exists for Adam's normalised steps: the margin sits nine orders above the differences met on the unchanged tree
and far below the effect of a changed step schedule); for longer runs the difference is measured and reported only.
"""
import hashlib
import json
import logging
import os
import re
import subprocess
import sys
import time

import numpy as np

U = 2.0 ** -53
GP_TYPES = ["full", "sparse_cholesky", "sparse_nystroem"]


def make_data(seed, n, d, kind):
    rng = np.random.default_rng(seed)
    if kind == "clustered":
        cent = rng.normal(size=(3, d)) * 2
        x = cent[rng.integers(0, 3, size=n)] + 0.4 * rng.normal(size=(n, d))
    else:
        x = rng.normal(size=(n, d))
    return np.round(x * 256) / 256


def build(cfg):
    import mellon
    X = make_data(cfg["data_seed"], cfg["n"], cfg["d"], cfg["kind"])
    kw = dict(gp_type=cfg["gp"], optimizer=cfg["optimizer"], jit=cfg["jit"], n_iter=cfg["n_iter"])
    if cfg["gp"] != "full":
        kw["landmarks"] = X[: cfg["n_landmarks"]].copy()
    if cfg["gp"] == "sparse_nystroem":
        kw["rank"] = cfg["n_landmarks"] - 2
    return mellon.DensityEstimator(**kw), X


def digest(a):
    return hashlib.sha256(np.ascontiguousarray(np.asarray(a, dtype=np.float64)).tobytes()).hexdigest()


def _canon(o):
    """order-insensitive form of the serialised predictor: the state dictionary is written in the iteration order of the
    set `_state_variables`, i.e. in str-hash order, which differs between interpreters with different hash salts; the
    PREDICTOR (what the property speaks about) is the same object - keys are sorted and serialised sets are sorted"""
    if isinstance(o, dict):
        if o.get("type") == "set" and isinstance(o.get("data"), list):
            return {"type": "set", "data": sorted((_canon(x) for x in o["data"]), key=lambda x: json.dumps(x, sort_keys=True))}
        return {k: ("" if k == "serialization_date" else _canon(v)) for k, v in sorted(o.items())}
    if isinstance(o, list):
        return [_canon(x) for x in o]
    return o


def predictor_json(est):
    d = json.loads(est.predict.to_json())       # time stamps (predictor and nested kernel metadata) are blanked by _canon
    return json.dumps(_canon(d), sort_keys=True)


def summary(est):
    out = {"pre": digest(est.pre_transformation), "losses": digest(est.losses), "n_losses": int(np.asarray(est.losses).shape[0]),
           "log_density_x": digest(est.log_density_x),
           "std": None if est.pre_transformation_std is None else digest(est.pre_transformation_std),
           "json": hashlib.sha256(predictor_json(est).encode()).hexdigest()}
    return out


def worker(cfg_path, out_path):
    import mellon
    mellon.logger.setLevel(logging.CRITICAL)
    with open(cfg_path) as f:
        cfgs = json.load(f)
    res = []
    for cfg in cfgs:
        try:
            est, X = build(cfg)
            est.fit(X)
            res.append(summary(est))
        except Exception as e:  # noqa
            res.append({"error": "%s: %s" % (type(e).__name__, str(e)[:200])})
    with open(out_path, "w") as f:
        json.dump(res, f)


def cfg_key(cfg):
    return "C17|%s|%s|jit=%s|n_iter=%s" % (cfg["optimizer"], cfg["gp"], cfg["jit"], cfg["n_iter"])


def numpy_loss(est, z):
    """the documented objective (C03) in NumPy: returns (value, sum of absolute terms)"""
    from scipy.special import gammaln
    z = np.asarray(z, dtype=float)
    L = np.asarray(est.L, dtype=float)
    r = np.asarray(est.nn_distances, dtype=float)
    d = float(est.d) if np.ndim(est.d) == 0 else np.asarray(est.d, dtype=float)
    l = L @ z + float(est.mu)
    k = z.shape[0]
    c = d * np.log(np.pi) / 2 - gammaln(d / 2 + 1)
    t1 = l + np.log(d) + (d - 1) * np.log(r) + c
    t2 = np.exp(l + d * np.log(r) + c)
    prior = -0.5 * np.sum(z * z) - k / 2 * np.log(2 * np.pi)
    val = -(prior + np.sum(t1 - t2))
    S = 0.5 * np.sum(z * z) + k / 2 * np.log(2 * np.pi) + np.sum(np.abs(l) + abs(np.log(d)) + np.abs((d - 1) * np.log(r)) + np.abs(c) + t2) \
        + np.sum(np.abs(L) @ np.abs(z))
    return float(val), float(S)


def plan(ctx):
    rng = np.random.default_rng(ctx.seed)
    base = dict(n=24, d=2, kind="gauss", data_seed=int(ctx.seed) * 100 + 1, n_landmarks=8)
    def off_ten(lo, hi):       # an iteration count beyond one block of ten that is not a multiple of ten (blocked loops drop remainders)
        v = int(rng.integers(lo, hi))
        return v + 1 if v % 10 == 0 else v
    grids = {"adam": [1, int(rng.integers(2, 6)), int(rng.integers(6, 13)), off_ten(13, 38)],
             "advi": [1, int(rng.integers(2, 5)), int(rng.integers(5, 9)), off_ten(11, 24)]}
    # one longer run per optimiser whose length is not a multiple of any usual block size (8, 10, 16, 25, 32, 50): loops that run
    # whole blocks in one compiled call and the remainder step by step must keep the step counter
    def off_blocks(lo, hi):
        while True:
            v = int(rng.integers(lo, hi))
            if all(v % b not in (0, 1) for b in (8, 10, 16, 25, 32, 50)):
                return v
    grids["adam"].append(off_blocks(52, 96))
    grids["advi"].append(off_blocks(27, 47))
    quick_grids = grids
    if ctx.thorough:
        grids = {"adam": [1, 2, 7, 40, 200], "advi": [1, 2, 5, 30, 60]}
    cfgs = []
    datasets = [base] + ([dict(n=30, d=3, kind="clustered", data_seed=int(ctx.seed) * 100 + 2, n_landmarks=9),
                          dict(n=36, d=1, kind="gauss", data_seed=int(ctx.seed) * 100 + 3, n_landmarks=7)] if ctx.thorough else [])
    for di, ds in enumerate(datasets):
        for gi, gp in enumerate(GP_TYPES):
            for jit in (True, False):
                cfgs.append(dict(ds, optimizer="L-BFGS-B", gp=gp, jit=jit, n_iter=100))
        for opt in ("adam", "advi"):
            g = (grids if di == 0 else quick_grids)[opt]
            perm = list(rng.permutation(len(GP_TYPES)))
            for i, n_iter in enumerate(g):
                gps = GP_TYPES if ctx.thorough and di == 0 and n_iter <= 7 else [GP_TYPES[perm[i % 3]]]
                for gp in gps:
                    for jit in (True, False):
                        cfgs.append(dict(ds, optimizer=opt, gp=gp, jit=jit, n_iter=int(n_iter)))
    return cfgs


def run(ctx):
    import jax
    import mellon
    from translate.pylogic import Unsupported
    from translate import c17_tables
    from vlib.core import Broken, TRUSTED_COMMON, REPO, VERIF
    mellon.logger.setLevel(logging.CRITICAL)
    ctx.cov["trusted_base"] = TRUSTED_COMMON + [
        "translate/c17_tables.py (AST pattern extraction of _run_inference, minimize_lbfgsb, the loop skeletons of minimize_adam / run_advi, randomness sites; every unrecognised shape is refused)",
        "lib/OptSem.v: hand-written loop / L-BFGS-B / dispatch models parameterised by the generated tables; tied to the implementation by the trace-length, prefix and extension identities and the wiring checks of this run",
        "contract of jaxopt.ScipyMinimize(method='L-BFGS-B').run: state.fun_val = f(params) <= f(x0) (Section hypothesis; validated on every L-BFGS-B fit of this run)",
        "jax.example_libraries.optimizers.adam, jax.random, XLA: not modelled; reproducibility and jit agreement are run-time tests",
    ]
    cfgs = plan(ctx)
    os.makedirs(ctx.dir, exist_ok=True)
    cfg_path = os.path.join(ctx.dir, "worker_cfgs.json")
    with open(cfg_path, "w") as f:
        json.dump(cfgs, f)
    # fresh interpreters, started first so that they run alongside the proof build and the in-process fits
    procs = []
    for w in range(2):
        outp = os.path.join(ctx.dir, "worker_%d.json" % w)
        if os.path.exists(outp):
            os.remove(outp)
        procs.append((outp, subprocess.Popen([sys.executable, "-m", "checks.C17", "--worker", cfg_path, outp], cwd=VERIF,
                                             # each fresh interpreter gets its own hash salt (the in-process fits run with
                                             # PYTHONHASHSEED=0): results must not depend on str/bytes hashing
                                             env=dict(os.environ, PYTHONHASHSEED=str(w + 1)), stdout=subprocess.DEVNULL, stderr=subprocess.PIPE)))

    meta = None
    try:
        text, meta = c17_tables.emit(REPO)
        ctx.cov["translated_functions"] = ["mellon.base_model.BaseEstimator._run_inference (dispatch + result wiring table)",
                                           "mellon.inference.minimize_lbfgsb (result expressions)", "mellon.inference.minimize_adam (loop skeleton)",
                                           "mellon.inference.run_advi (loop skeleton, PRNG key data flow, std expression)",
                                           "randomness sites of mellon/*.py; BaseEstimator._prepare_attribute guard; callers of compute_landmarks"]
        ctx.cov["tables"] = meta
        ctx.build_props({"gen/C17Tables.v": text})
    except Unsupported as u:
        ctx.broken.append(Broken("translation", "C17 tables", str(u)))

    evals = 0
    dist = {}
    worst = {}
    measured = {}
    nontrivial = set()
    results = {}
    seen_keys = set()

    def bad(cfg, sub, what, extra):
        key = "%s|%s" % (cfg_key(cfg), sub)
        if key in seen_keys:
            return
        seen_keys.add(key)
        ctx.violation(key, what, dict(config=cfg, **extra))

    def ratio(kind, r):
        worst[kind] = max(worst.get(kind, 0.0), float(r))

    t_fit = time.time()
    for ci, cfg in enumerate(cfgs):
        runs = []
        for rep in range(2):
            try:
                est, X = build(cfg)
                est.fit(X)
                runs.append(est)
            except Exception as e:  # noqa
                bad(cfg, "exception|%s" % type(e).__name__, "fit raises", {"exception": "%s: %s" % (type(e).__name__, str(e)[:300])})
                break
        if len(runs) != 2:
            continue
        est = runs[0]
        results[ci] = est
        dist["%s/%s/jit=%s" % (cfg["optimizer"], cfg["gp"], cfg["jit"])] = dist.get("%s/%s/jit=%s" % (cfg["optimizer"], cfg["gp"], cfg["jit"]), 0) + 1
        s0, s1 = summary(runs[0]), summary(runs[1])
        evals += 5
        for k in s0:
            if s0[k] != s1[k]:
                bad(cfg, "repeat-in-process|%s" % k, "two fits with identical inputs in one process differ (bytes)", {"field": k})
        est._c17_summary = s0
        z0 = np.asarray(est.initial_value, dtype=float)
        z = np.asarray(est.pre_transformation, dtype=float)
        losses = np.asarray(est.losses, dtype=float)
        k = z.shape[0]
        n = cfg["n"]
        evals += 1
        if not np.isfinite(z).all() or z.shape != z0.shape:
            bad(cfg, "finite-parameters", "non-finite or mis-shaped parameters", {"shape": list(z.shape)})
            continue
        v_np, S = numpy_loss(est, z)
        v0_np, S0 = numpy_loss(est, z0)
        tol = 64 * (n + k) * U * max(S, S0)
        lf = est.loss_func
        v_impl, v0_impl = float(lf(est.pre_transformation)), float(lf(est.initial_value))
        evals += 2
        ratio("objective-vs-numpy", max(abs(v_impl - v_np), abs(v0_impl - v0_np)) / tol)
        if abs(v_impl - v_np) > tol or abs(v0_impl - v0_np) > tol:
            bad(cfg, "objective-vs-numpy", "loss_func differs from the documented objective evaluated in NumPy",
                {"loss_func": [v0_impl, v_impl], "numpy": [v0_np, v_np], "allowed_error": tol})
        if cfg["optimizer"] == "L-BFGS-B":
            evals += 4
            if losses.shape != (1,):
                bad(cfg, "losses-shape", "L-BFGS-B: losses is not a one-element list", {"shape": list(losses.shape)})
                continue
            rep_loss = float(losses[0])
            ratio("reported-loss", max(abs(v_impl - rep_loss), abs(v_np - rep_loss)) / tol)
            if abs(v_impl - rep_loss) > tol or abs(v_np - rep_loss) > tol:
                bad(cfg, "reported-loss", "reported final loss is not the objective at pre_transformation",
                    {"reported": rep_loss, "loss_func(pre_transformation)": v_impl, "numpy_objective(pre_transformation)": v_np,
                     "loss_func(initial_value)": v0_impl, "allowed_error": tol})
            if not v_np <= v0_np + 2 * tol:
                bad(cfg, "descent", "objective at pre_transformation is larger than at initial_value",
                    {"loss(initial_value)": v0_np, "loss(pre_transformation)": v_np, "allowed_error": 2 * tol})
            if est.pre_transformation_std is not None:
                bad(cfg, "std-wiring", "L-BFGS-B fit carries standard deviations", {})
            # a second inference on the same estimator with ANOTHER objective (the documented loss_func argument of
            # run_inference): what is minimised, and what is reported, is the objective now stored - with jit on or off
            try:
                import jax.numpy as jnp
                e2 = runs[1]
                lf0 = e2.loss_func

                def lf2(zz, lf0=lf0):
                    return lf0(zz) + 0.5 * jnp.sum((zz - 0.5) ** 2)
                e2.run_inference(loss_func=lf2)
                z2 = np.asarray(e2.pre_transformation, dtype=float)
                rep2 = float(np.asarray(e2.losses, dtype=float)[0])
                q2 = 0.5 * float(((z2 - 0.5) ** 2).sum())
                v2 = float(lf2(e2.pre_transformation))
                v2_start = float(lf2(e2.initial_value))
                tol2 = tol + 64 * (k + 2) * U * (abs(q2) + abs(v2) + 1.0)
                evals += 3
                if abs(v2 - rep2) > tol2 or not v2 <= v2_start + 2 * tol2:
                    bad(cfg, "second-objective", "after run_inference(loss_func=other) the reported loss / the returned parameters do not belong to the new objective",
                        {"reported": rep2, "new_objective(pre_transformation)": v2, "new_objective(initial_value)": v2_start,
                         "old_objective(pre_transformation)": float(lf0(e2.pre_transformation)), "allowed_error": tol2,
                         "sequence": "est.fit(X); est.run_inference(loss_func=lambda z: old(z) + 0.5*sum((z-0.5)**2))"})
            except Exception as e:  # noqa
                bad(cfg, "second-objective|%s" % type(e).__name__, "run_inference(loss_func=other) raises", {"exception": "%s: %s" % (type(e).__name__, str(e)[:200])})
            g0 = np.asarray(jax.grad(lf)(est.initial_value), dtype=float)
            g1 = np.asarray(jax.grad(lf)(est.pre_transformation), dtype=float)
            est._c17_gnorm = float(np.linalg.norm(g1))
            r = float(np.abs(g1).max() / max(np.abs(g0).max(), 1e-300))
            measured.setdefault("gradient_ratio_end_over_start", []).append(r)
            if not r <= 1e-2:
                bad(cfg, "gradient-norm", "gradient norm at the end is not far below that at the start (support clause)",
                    {"max|grad| start": float(np.abs(g0).max()), "max|grad| end": float(np.abs(g1).max()), "ratio": r, "threshold": 1e-2})
            if v_np < v0_np - 1e3 * tol:
                nontrivial.add(cfg_key(cfg))
        else:
            evals += 3
            if losses.shape != (cfg["n_iter"],):
                bad(cfg, "trace-length", "trace does not have n_iter entries", {"n_iter": cfg["n_iter"], "observed": list(losses.shape)})
            if not np.isfinite(losses).all():
                bad(cfg, "trace-finite", "non-finite trace entries", {})
            std = est.pre_transformation_std
            if cfg["optimizer"] == "adam":
                if std is not None:
                    bad(cfg, "std-wiring", "Adam fit carries standard deviations", {})
                # first trace entry is the objective at the starting point
                if losses.shape[0] >= 1:
                    ratio("adam-first-trace-entry", abs(losses[0] - v0_np) / tol)
                    if abs(losses[0] - v0_np) > tol:
                        bad(cfg, "first-trace-entry", "first trace entry is not the objective at initial_value",
                            {"losses[0]": float(losses[0]), "loss(initial_value)": v0_np, "allowed_error": tol})
            else:
                std_a = None if std is None else np.asarray(std, dtype=float)
                if std_a is None or std_a.shape != z.shape or not np.isfinite(std_a).all() or not (std_a > 0).all():
                    bad(cfg, "advi-std", "ADVI standard deviations are not strictly positive, finite and of the parameters' shape",
                        {"shape": None if std_a is None else list(std_a.shape), "min": None if std_a is None else float(np.min(std_a))})
            nontrivial.add(cfg_key(cfg))
            # loop identities against a fit with one more iteration (same inputs)
            if not cfg["jit"]:
                cfg2 = dict(cfg, n_iter=cfg["n_iter"] + 1)
                est2, X2 = build(cfg2)
                est2.fit(X2)
                l2 = np.asarray(est2.losses, dtype=float)
                evals += 2
                if l2.shape != (cfg["n_iter"] + 1,) or not np.array_equal(l2[: cfg["n_iter"]], losses):
                    bad(cfg, "trace-prefix", "trace(n_iter + 1)[:n_iter] differs from trace(n_iter)",
                        {"trace(n_iter)": losses.tolist(), "trace(n_iter+1)": l2.tolist()})
                elif cfg["optimizer"] == "adam":
                    ratio("adam-params-after-last-step", abs(l2[-1] - v_np) / tol)
                    if abs(l2[-1] - v_np) > tol:
                        bad(cfg, "params-after-last-step", "objective at pre_transformation(n_iter) is not trace(n_iter + 1)[n_iter]: "
                            "the returned parameters are not those after the last step",
                            {"loss(pre_transformation)": v_np, "trace(n_iter+1)[n_iter]": float(l2[-1]),
                             "trace(n_iter)[-1]": float(losses[-1]) if losses.size else None, "allowed_error": tol})
    t_fit = time.time() - t_fit

    # ---- jit on / off
    by = {}
    for ci, cfg in enumerate(cfgs):
        if ci in results:
            by.setdefault(json.dumps({k: v for k, v in cfg.items() if k != "jit"}, sort_keys=True), {})[cfg["jit"]] = (cfg, results[ci])
    for pair in by.values():
        if True not in pair or False not in pair:
            continue
        (cfg, a), (_, b) = pair[True], pair[False]
        za, zb = np.asarray(a.pre_transformation, dtype=float), np.asarray(b.pre_transformation, dtype=float)
        diff = float(np.linalg.norm(za - zb))
        evals += 1
        if cfg["optimizer"] == "L-BFGS-B":
            bound = a._c17_gnorm + b._c17_gnorm + 64 * U * (1 + float(np.linalg.norm(za)))
            ratio("jit-agreement-lbfgsb", diff / bound)
            measured.setdefault("jit_diff_lbfgsb", []).append(diff)
            if not diff <= bound:
                bad(cfg, "jit-agreement", "jit on/off L-BFGS-B results differ by more than the strong-convexity bound |grad_a| + |grad_b|",
                    {"difference": diff, "allowed_error": bound})
            la, lb = np.asarray(a.log_density_x, dtype=float), np.asarray(b.log_density_x, dtype=float)
            Ln = float(np.linalg.norm(np.asarray(a.L, dtype=float), 2))
            if not np.linalg.norm(la - lb) <= Ln * bound + 64 * U * (1 + np.linalg.norm(la)):
                bad(cfg, "jit-agreement|log_density_x", "fitted values differ by more than |L| x the parameter bound",
                    {"difference": float(np.linalg.norm(la - lb)), "allowed_error": Ln * bound})
        elif cfg["n_iter"] == 1:
            g0 = np.abs(np.asarray(jax.grad(a.loss_func)(a.initial_value), dtype=float))
            lr = float(a.init_learn_rate)
            tol1 = 64 * U * (np.abs(np.asarray(a.initial_value, dtype=float)) + lr + 1)
            ok = (np.abs(za - zb) <= tol1) | (g0 < 1e-6)
            ratio("jit-agreement-one-step", float((np.abs(za - zb) / tol1)[g0 >= 1e-6].max(initial=0.0)))
            if not ok.all():
                bad(cfg, "jit-agreement", "jit on/off results differ after one step by more than rounding",
                    {"difference": float(np.abs(za - zb).max()), "allowed_error": float(tol1.max())})
        else:
            measured.setdefault("jit_diff_%s_n_iter>1" % cfg["optimizer"], []).append(diff)
            # more than one step: rounding differences between the compiled and the op-by-op gradient (<= a few ulp per entry) pass through
            # n_iter updates of a 1-strongly convex problem; on the unchanged tree the two runs differ by 0 (Adam) to 3e-15 (ADVI).
            # A margin of 1e-6 (1 + |z|) - nine orders of magnitude above that, five below the effect of any change of the step
            # schedule (a restarted step counter moves z by > 1e-2) - is asserted for runs of at most 100 steps; longer runs are
            # reported only.
            if cfg["n_iter"] <= 100:
                allowed = 1e-6 * (1 + float(np.linalg.norm(za)))
                ratio("jit-agreement-many-steps", diff / allowed)
                la, lb = np.asarray(a.losses, dtype=float), np.asarray(b.losses, dtype=float)
                ldiff = float(np.abs(la - lb).max()) if la.shape == lb.shape and la.size else float("inf")
                lallowed = 1e-6 * (1 + float(np.abs(lb).max(initial=0.0)))
                if not diff <= allowed or not ldiff <= lallowed:
                    bad(cfg, "jit-agreement", "jit on/off results differ after %d steps by far more than rounding" % cfg["n_iter"],
                        {"difference": diff, "allowed_error": allowed, "trace_difference": ldiff, "trace_allowed_error": lallowed,
                         "first_trace_index_differing": int(np.argmax(np.abs(la - lb) > lallowed)) if la.shape == lb.shape and la.size else None})

    # ---- documented options that draw a subsample of the cells: d_method="fractal" samples when there are more than 500 cells.
    #      Preparing the same problem several times in one process gives the same dimensionality, mean and starting point, bit for bit.
    try:
        import mellon as _m
        Xfr = np.random.default_rng(ctx.seed + 17).normal(size=(700, 3)) * np.array([1.0, 0.6, 0.3])
        seen_fr = []
        for rep in range(3):
            efr = _m.DensityEstimator(d_method="fractal", landmarks=Xfr[:15] + 0.01, optimizer="adam", n_iter=1, jit=False)
            efr.prepare_inference(Xfr)
            seen_fr.append((np.asarray(efr.d, dtype=float).tobytes(), np.asarray(efr.mu, dtype=float).tobytes(),
                            np.asarray(efr.initial_value, dtype=float).tobytes()))
            evals += 1
        if len(set(seen_fr)) != 1:
            ctx.violation("C17|repeat-in-process|d_method=fractal", "preparing the same problem with d_method='fractal' (700 cells) repeatedly in one process gives different d / mu / initial_value",
                          {"x": "default_rng(verif_seed + 17).normal(size=(700, 3)) * [1, 0.6, 0.3]", "verif_seed": ctx.seed,
                           "call": "DensityEstimator(d_method='fractal', landmarks=x[:15] + 0.01, optimizer='adam', n_iter=1, jit=False).prepare_inference(x), three times",
                           "d_values": [float(np.frombuffer(t_[0])[0]) for t_ in seen_fr], "mu_values": [float(np.frombuffer(t_[1])[0]) for t_ in seen_fr]})
        dist["fractal-repeat"] = 3
    except Exception as e:  # noqa
        ctx.violation("C17|repeat-in-process|d_method=fractal|%s" % type(e).__name__, "prepare_inference with d_method='fractal' raises",
                      {"exception": "%s: %s" % (type(e).__name__, str(e)[:200])})
    # ---- fresh interpreters
    fresh = []
    for outp, pr in procs:
        try:
            _, err = pr.communicate(timeout=900)
        except subprocess.TimeoutExpired:
            pr.kill()
            err = b"timeout"
        if pr.returncode != 0 or not os.path.exists(outp):
            ctx.broken.append(Broken("harness", "fresh-interpreter", "worker failed: %s" % (err or b"")[-600:].decode(errors="replace")))
            continue
        with open(outp) as f:
            fresh.append(json.load(f))
    n_cross = 0
    for ci, cfg in enumerate(cfgs):
        if ci not in results:
            continue
        s_in = results[ci]._c17_summary
        for wi, fr in enumerate(fresh):
            s = fr[ci]
            if "error" in s:
                bad(cfg, "fresh-interpreter|exception", "fit raises in a fresh interpreter", {"exception": s["error"]})
                continue
            n_cross += 1
            for k in s_in:
                if s_in[k] != s[k]:
                    bad(cfg, "fresh-interpreter|%s" % k, "a fit in a fresh interpreter differs (bytes) from the in-process fit with identical inputs",
                        {"field": k, "worker": wi})
        if len(fresh) == 2 and "error" not in fresh[0][ci] and "error" not in fresh[1][ci] and fresh[0][ci] != fresh[1][ci]:
            bad(cfg, "fresh-vs-fresh", "two fresh interpreters give different bytes", {})
    evals += 5 * n_cross

    # ---- wiring facts against the live estimator (ties the generated table to the objects)
    n_wire = 0
    if meta:
        for ci, cfg in enumerate(cfgs):
            if ci not in results or cfg["jit"]:
                continue
            est = results[ci]
            w = meta["run_inference"][cfg["optimizer"]]["wiring"]
            n_wire += 1
            has_std = est.pre_transformation_std is not None
            if (w.get("pre_transformation_std", ("SNone", None))[0] != "SNone") != has_std:
                ctx.broken.append(Broken("correspondence", "result-wiring", "%s: table says std %s, estimator has_std=%s" % (cfg_key(cfg), w.get("pre_transformation_std"), has_std)))
        o = None
        try:
            e, X = build(dict(cfgs[0], optimizer="bfgs"))
            e.fit(X)
            o = "accepted"
        except Exception as ex:  # noqa
            o = type(ex).__name__
        n_wire += 1
        if o != meta["unknown_optimizer"]:
            ctx.violation("C17|unknown-optimizer|%s" % o, "an unknown optimizer name is not refused with ValueError", {"optimizer": "bfgs", "observed": o})

    for k, v in list(measured.items()):
        measured[k] = {"max": float(np.max(v)), "min": float(np.min(v)), "count": len(v)}
    ctx.cov["evaluations"] = evals + n_wire
    ctx.cov["traces_validated_against_impl"] = n_wire + len(results)
    ctx.cov["distinct_nontrivial"] = len(nontrivial)
    ctx.cov["rule"] = ("%d configurations (optimizer x gp_type x jit x n_iter incl. 1; DensityEstimator with explicit landmarks), each fitted twice in-process and "
                       "once in each of 2 fresh interpreters; objective against a NumPy evaluation of the documented formula; descent / reported loss / gradient "
                       "ratio (L-BFGS-B); trace length, prefix and extension identities, std > 0 (Adam / ADVI); byte comparison of parameters, traces, fitted "
                       "values and predictor JSON minus timestamp; jit agreement with derived bounds. distinct_nontrivial = L-BFGS-B fits with a real decrease + "
                       "Adam/ADVI configurations." % len(cfgs))
    ctx.cov["input_distribution"] = dist
    ctx.cov["worst_error_over_tolerance"] = worst
    ctx.cov["measured"] = measured
    ctx.cov["samples"] = cfgs[:2] + cfgs[-1:]
    ctx.cov["contracts_validated"] = {"L-BFGS-B contract fun_val = f(params) <= f(x0)": sum(1 for c in cfgs if c["optimizer"] == "L-BFGS-B"),
                                      "fresh-interpreter comparisons": n_cross, "wiring rows against live estimators": n_wire}
    ctx.cov["runtime_tests"] = ["objective does not increase and equals the reported loss (L-BFGS-B) - test of SciPy's behaviour; the wiring is proved",
                                "gradient norm ratio <= 1e-2 - support only", "bit-identical repeats in-process and across fresh interpreters - test",
                                "jit on/off agreement - test (derived bounds for L-BFGS-B and for one Adam/ADVI step; more steps measured only)"]
    ctx.cov["fit_seconds"] = round(t_fit, 1)
    ctx.assumptions += [
        "L-BFGS-B contract (fun_val = f(params) <= f(x0)) - Section hypothesis, validated on every L-BFGS-B fit of the run",
        "strict and 1-strong convexity of the generated objective are theorems (C17_loss_strictly_convex, C17_loss_strongly_convex, thm/AConvexThm.v); the jit-agreement bound |z_a - z_b| <= |grad_a| + |grad_b| is their gradient form (monotone gradient), which is not restated in Coq",
        "optimiser quality, cross-process bit-reproducibility and jit agreement are run-time tests, not theorems",
    ]


def replay(ctx, rep):
    import mellon
    mellon.logger.setLevel(logging.CRITICAL)
    cfg = rep.get("replay", {}).get("config")
    if not cfg:
        print("replay file has no configuration")
        return 2
    a, X = build(cfg)
    a.fit(X)
    b, _ = build(cfg)
    b.fit(X)
    lf = a.loss_func
    print("config", cfg)
    print("loss(initial_value) =", float(lf(a.initial_value)), " loss(pre_transformation) =", float(lf(a.pre_transformation)),
          " reported =", np.asarray(a.losses).tolist()[-3:], " len(losses) =", len(np.asarray(a.losses)))
    print("repeat identical:", summary(a) == summary(b))
    return 0


if __name__ == "__main__":
    if len(sys.argv) == 4 and sys.argv[1] == "--worker":
        worker(sys.argv[2], sys.argv[3])
