"""C11 - analytic kernel gradients equal the true derivatives for every expression.

translate (translate/pyscalar.py: the six `k_grad` bodies -> scalar coefficient times the distance
gradient, util.distance_grad entry-wise, Add/Mul/Pow gradient arithmetic; the slicing / scatter
structure by exact AST pattern)
-> build props/C11.v (is_derive of every radial profile = generated coefficient; the distance partial
   derivative with the explicit dist/(dist+eps) factor; kgrad_correct by structural induction over
   kexpr for every tree / active_dims form / scalar operand / power of a positive base; exact zeros
   outside the resolved dimensions; denominators >= 1e-6)
-> run cov.k_grad(x)(y) on generated trees and point sets (coincident, near-coincident, collinear,
   large offsets; ls, alpha, powers over decades; six active_dims forms; depth 2 exhaustively, depth 3
   sampled)
-> correspondence: Rabs (kgrad E x y c - impl) <= tol by Interval at the exact rational inputs (Qed),
   tol derived in harness/worldA.py (distance cancellation through h(d) = phi'(d)/(d+eps), propagated
   through the sum / product / power rules)
-> independent searcher: NumPy gradient from the documented derivative formulas, the autodiff
   fallback Covariance.k_grad (jacfwd of k) and central differences of cov(x, y).

The recursion scheme of kgrad (coq/thm/AKExpr.v) is hand-written over the generated node arithmetic,
exactly as for C05 (see checks/C05.py); powers whose base is not positive are outside the Coq model
(Rpower) and are covered by the NumPy / autodiff searcher only.
"""
import importlib
import logging
import math
import random
import time

import numpy as np

from harness import worldA as W
from vlib.core import Broken, TRUSTED_COMMON
from checks.C05 import build, IMPORTS


def run(ctx):
    import jax.numpy as jnp
    import mellon
    mu = importlib.import_module("mellon.util")
    bc = importlib.import_module("mellon.base_cov")
    mellon.logger.setLevel(logging.CRITICAL)
    rng = random.Random(ctx.seed * 104729 + 11)
    T = ctx.thorough
    ctx.cov["trusted_base"] = TRUSTED_COMMON + [
        "Coquelicot / Interval (reflexive, kernel-checked); the standard real-number axioms",
        "XLA element-wise sqrt/exp/pow within 64 ulp; IEEE-754 binary64 + - * / (derived error bounds in harness/worldA.py)",
        "the hand-written recursion scheme of coq/thm/AKExpr.v (pattern-checked by the translator, executed against the implementation here)",
        "jax.jacfwd / vmap as the autodiff reference of the searcher (cross-checked by central differences)",
    ]
    ctx.assumptions += [
        "powers of a non-positive base (integer exponent on a Linear kernel) are outside the Coq model (Rpower needs a positive base): searcher only",
        "the code's leaf gradient is the true derivative times dist/(dist+1e-12) (proved, C11_leaf_factor); autodiff and finite differences are compared with the true derivative",
    ]
    t0 = time.time()
    model = build(ctx)
    phase = {"translate+prove": round(time.time() - t0, 1)}
    t0 = time.time()

    goals, meta = [], []
    evals = 0
    dist_ct = {}
    shapes_seen = set()
    worst = {"ratio": 0.0}
    n_autodiff = n_fd = skipped_nonpos = n_undocumented = 0

    def bump(k):
        dist_ct[k] = dist_ct.get(k, 0) + 1

    def compare(key, what, impl, v, tol, replay, extra=0.0):
        nonlocal evals
        evals += 1
        if not np.isfinite(tol):
            return True
        slack = tol + 32 * W.U * abs(v) + extra
        if not (abs(impl - v) <= slack):
            ctx.violation(key, what, dict(replay, expected=float(v), observed=float(impl), allowed_error=float(slack)))
            return False
        if slack > 0 and abs(impl - v) / slack > worst["ratio"]:
            worst["ratio"] = abs(impl - v) / slack
            worst["key"] = key
        return True

    # which base kernels / operators follow their documented VALUE formula at well-conditioned probe points?
    # (where they do not - property C05's business - the documented derivative is not the reference for C11)
    deviating = set()
    px, py = jnp.asarray([[0.0, 0.0]]), jnp.asarray([[0.6, 0.8], [0.3, 0.4], [1.2, 1.6], [0.0, 0.05]])
    for name in W.BASES:
        for ls0 in (0.5, 1.0, 2.0):
            nd = W.Node("base", W.make_ad("none", rng, 2), name=name, ls=ls0, alpha=1.5)
            Kp = np.asarray(nd.build()(px, py))[0]
            for j in range(4):
                vv = nd.oracle(np.zeros(2), np.asarray(py[j]))[0]
                if not abs(Kp[j] - vv) <= 1e-12 * (1 + abs(vv)):
                    deviating.add(name)
    for op in W.OPS:
        l0 = W.Node("base", W.make_ad("none", rng, 2), name="ExpQuad", ls=1.0)
        r0 = W.Node("base", W.make_ad("none", rng, 2), name="Matern32", ls=2.0)
        nd = W.Node(op, W.make_ad("none", rng, 2), left=l0, right=r0 if op in ("add", "mul") else None, c=1.5)
        Kp = np.asarray(nd.build()(px, py))[0]
        for j in range(4):
            vv = nd.oracle(np.zeros(2), np.asarray(py[j]))[0]
            if not abs(Kp[j] - vv) <= 1e-12 * (1 + abs(vv)):
                deviating.add(op)

    def parts(nd):
        if nd.op == "base":
            return {nd.name}
        out = {nd.op} | parts(nd.left)
        return out | (parts(nd.right) if nd.right is not None else set())

    # ---------------------------------------------------------------- A. distance_grad entries
    for width in [1, 2, 3, 5] + ([8, 25] if T else [12]):
        X, Y = W.point_sets(rng, width)
        D, G = mu.distance_grad(jnp.asarray(X))(jnp.asarray(Y))
        D, G = np.asarray(D), np.asarray(G)
        if G.shape != (X.shape[0], Y.shape[0], width):
            ctx.violation("C11|distance_grad|shape", "wrong shape", {"shape": list(G.shape)})
            continue
        for i in range(X.shape[0]):
            for j in range(Y.shape[0]):
                d, derr = W.dist_oracle(X[i], Y[j])
                lo = max(d - derr, 0.0) + 1e-12
                for c in range(width):
                    delta = Y[j, c] - X[i, c]
                    v = delta / (d + 1e-12)
                    tol = abs(delta) * derr / (lo * lo) + 4 * W.U * abs(v) + W.TINY
                    compare("C11|distance_grad|width=%d" % width, "distance_grad entry differs from (y-x)/(dist+eps)", G[i, j, c], v, tol,
                            {"call": "mellon.util.distance_grad(x[None])(y[None])[1][0,0,%d]" % c, "x": X[i].tolist(), "y": Y[j].tolist()})
                    if not np.isfinite(G[i, j, c]):
                        ctx.violation("C11|distance_grad|finite", "non-finite gradient entry", {"x": X[i].tolist(), "y": Y[j].tolist()})
                    if model and c == (i + j) % width and (j in (1, 2) or (i + j) % 3 == 0):
                        goals.append(("Rabs (dgrad_code %s %s %d - %s) <= %s" % (W.Rlist(X[i]), W.Rlist(Y[j]), c, W.R(G[i, j, c]), W.Rup(tol)), "kcase"))
                        meta.append({"group": "distance_grad", "width": width, "x": X[i].tolist(), "y": Y[j].tolist(), "c": c})
                        bump("distance_grad/width=%d" % width)

    # ---------------------------------------------------------------- B. k_grad bodies at the implementation's own (dist, grad)
    for name in W.STATIONARY:
        for ls in [0.01, 0.1, 0.37, 1.0, 3.3, 10.0, 100.0]:
            width = rng.choice([1, 2, 3])
            X, Y = W.point_sets(rng, width)
            Y = X[0] + (Y - X[0]) * (ls / max(1e-3, np.abs(Y - X[0]).max())) * rng.choice([0.3, 1.0, 3.0, 10.0])
            Y[1] = X[0]
            alpha = float(np.float64(10.0 ** rng.uniform(-2, 2))) if name == "RatQuad" else None
            node = W.Node("base", W.make_ad("none", rng, width), name=name, ls=float(ls), alpha=alpha)
            cov = node.build()
            KG = np.asarray(cov.k_grad(jnp.asarray(X))(jnp.asarray(Y)))
            K0 = np.asarray(cov(jnp.asarray(X), jnp.asarray(Y)))
            D, G = mu.distance_grad(jnp.asarray(X))(jnp.asarray(Y))
            D, G = np.asarray(D), np.asarray(G)
            # the documented derivative is the reference only where the value follows the documented formula (else: C05)
            documented = name not in deviating and all(abs(K0[0, j] - W.phi(name, ls, alpha, float(D[0, j]))) <= 1e-9 for j in range(Y.shape[0]))
            for j in range(Y.shape[0] if T else 4):
                c = rng.randrange(width)
                d, g = float(D[0, j]), float(G[0, j, c])
                co = W.dphi(name, ls, alpha, d)
                v = co * g
                kappa = 72.0
                if name == "RatQuad":
                    kappa += 4 * alpha + 2 * abs((alpha + 1) * math.log1p(d * d / (2 * alpha * ls * ls)))
                mag = max(1.0, abs(KG[0, j, c]) / abs(v)) if v != 0 and np.isfinite(KG[0, j, c]) else 1.0
                tol = (8 * W.U * abs(d * W.d2phi(name, ls, alpha, d) * g) + kappa * W.U * abs(v)) * mag + W.TINY
                if documented:
                    compare("C11|coefficient|%s" % name, "%s.k_grad is not phi'(dist) times the distance gradient" % name, KG[0, j, c], v, tol,
                        {"call": "mellon.cov.%s(ls=%r%s).k_grad(x[None])(y[None])[0,0,%d]" % (name, ls, ", alpha=%r" % alpha if alpha else "", c),
                         "x": X[0].tolist(), "y": Y[j].tolist(), "distance_seen": d, "distance_gradient_seen": g})
                if model:
                    args = (W.R(alpha) + " " if alpha is not None else "") + W.R(ls) + " " + W.R(d) + " " + W.R(g)
                    goals.append(("Rabs (%s_kgrad %s - %s) <= %s" % (name, args, W.R(KG[0, j, c]), W.Rup(tol)), "kcase"))
                    meta.append({"group": "coefficient", "kernel": name, "ls": ls, "alpha": alpha, "dist": d, "g": g})
                    bump("coefficient/%s" % name)

    # ---------------------------------------------------------------- C. expression trees
    trees = []
    for name in W.BASES:
        for kind in W.AD_KINDS:
            for _ in range(2 if T else 1):
                width = rng.choice([1, 2, 3, 4, 6])
                trees.append(("base", W.random_base(rng, width, name=name, ad_kind=kind), width))
    for name in W.BASES:
        trees.append(("base25", W.random_base(rng, 25, name=name), 25))
    for shape in W.depth2_shapes():
        for kind in W.AD_KINDS:
            width = rng.choice([2, 3, 4, 5])
            trees.append(("depth2", W.depth2_tree(rng, shape, width, kind), width))
    for _ in range(240 if T else 60):
        width = rng.choice([2, 3, 4, 6])
        trees.append(("depth3", W.random_tree(rng, 3, width), width))

    for tn, (group, node, width) in enumerate(trees):
        X, Y = W.point_sets(rng, width)
        jX, jY = jnp.asarray(X), jnp.asarray(Y)
        try:
            cov = node.build()
            KG = np.asarray(cov.k_grad(jX)(jY))
        except Exception as e:  # noqa
            ctx.violation("C11|exception|%s" % node.shape(), "k_grad raised %s" % type(e).__name__,
                          {"kernel": node.describe(), "x": X.tolist(), "y": Y.tolist(), "error": repr(e)})
            continue
        rp = {"kernel": node.describe()}
        if KG.shape != (X.shape[0], Y.shape[0], width):
            ctx.violation("C11|shape|%s" % node.shape(), "gradient is not shaped (n_x, n_y, n_features)", dict(rp, shape=list(KG.shape)))
            continue
        shapes_seen.add((node.shape(), node.ad.kind))
        bump("%s/%s" % (group, node.ad.kind))
        active = set(node.ad.index(width))
        # does the kernel VALUE agree with its documented formula here?  If it does not (that is property C05's
        # business), the gradient of the documented formula is not the reference for C11: the reference is then the
        # derivative of what the implementation computes (autodiff of k, finite differences of k).
        documented = not (parts(node) & deviating)
        orc = {(i, j): node.oracle(X[i], Y[j], grad=True) for i in range(X.shape[0]) for j in range(Y.shape[0])}
        try:
            K = np.asarray(cov(jX, jY))
            for (i, j), (v, t, _, _, ok) in orc.items():
                if ok and np.isfinite(v) and np.isfinite(t) and not (abs(K[i, j] - v) <= t + 32 * W.U * abs(v)):
                    documented = False
        except Exception:  # noqa
            documented = False
        if not documented:
            n_undocumented += 1
        # autodiff fallback of the base class (jacfwd of k), on a share of the trees in the quick tier
        AD = None
        if T or group != "depth2" or tn % 4 == 0 or not documented:
            try:
                AD = np.asarray(bc.Covariance.k_grad(cov, jX)(jY))
                n_autodiff += 1
            except Exception:  # noqa
                AD = None
        picks = [(0, 1), (1 % X.shape[0], 2), (rng.randrange(X.shape[0]), rng.randrange(Y.shape[0]))]
        npick = 3 if (T or group.startswith("base")) else 2 if group == "depth3" else 1
        picks = picks[3 - npick:] if npick > 1 else [picks[tn % 3]]
        for i in range(X.shape[0]):
            for j in range(Y.shape[0]):
                v, t, g, gt, ok = orc[(i, j)]
                r2 = dict(rp, x=X[i].tolist(), y=Y[j].tolist())
                for c in range(width):
                    if c not in active and KG[i, j, c] != 0.0:
                        ctx.violation("C11|inactive-nonzero|%s" % node.shape(), "non-zero gradient in an inactive dimension",
                                      dict(r2, call="cov.k_grad(x[None])(y[None])[0,0,%d]" % c, observed=float(KG[i, j, c])))
                if not ok:
                    skipped_nonpos += 1
                    # the searcher still compares with autodiff where both are finite
                    if AD is not None and np.all(np.isfinite(AD[i, j])) and np.all(np.isfinite(KG[i, j])):
                        sc = float(np.max(np.abs(AD[i, j]))) + 1e-300
                        if np.max(np.abs(AD[i, j] - KG[i, j])) > 1e-5 * sc + 1e-9:
                            ctx.violation("C11|autodiff-nonpositive-base|%s" % node.shape(), "analytic gradient differs from jacfwd of k",
                                          dict(r2, observed=KG[i, j].tolist(), expected=AD[i, j].tolist()))
                    continue
                if not np.all(np.isfinite(KG[i, j])):
                    if np.all(np.isfinite(g)) and np.all(np.isfinite(gt)):
                        ctx.violation("C11|finite|%s" % node.shape(), "non-finite gradient", dict(r2, observed=KG[i, j].tolist()))
                    continue
                for c in range(width):
                    if not np.isfinite(g[c]) or not documented:
                        continue
                    compare("C11|gradient|%s" % node.shape(), "k_grad entry differs from the derivative of the kernel's (documented) formula",
                            KG[i, j, c], g[c], gt[c], dict(r2, call="cov.k_grad(x[None])(y[None])[0,0,%d]" % c))
                if AD is not None and np.all(np.isfinite(AD[i, j])):
                    _, _, g0, gt0, _ = node.oracle(X[i], Y[j], grad=True, code_eps=False)
                    for c in range(width):
                        if np.isfinite(g0[c]) and np.isfinite(gt0[c]) and np.isfinite(g[c]) and np.isfinite(gt[c]):
                            # analytic gradient against autodiff of the implementation's own k.  Error budget: the analytic
                            # code's bound, the same cancellation bound for the differentiated float program (x4 for its own
                            # rounding), and the proved dist/(dist+eps) factor (|g - g0|, from the oracle); 1e-7 relative floor because
                            # the bound for the autodiff program is an estimate (support test), not a derivation.
                            compare("C11|autodiff|%s" % node.shape(), "k_grad differs from jacfwd of the kernel value",
                                    KG[i, j, c], AD[i, j, c], gt[c] + 16 * gt0[c] + abs(g[c] - g0[c]) + 1e-7 * float(np.max(np.abs(AD[i, j]))),
                                    dict(r2, call="cov.k_grad(x[None])(y[None])[0,0,%d] vs Covariance.k_grad(cov, x[None])(y[None])[0,0,%d]" % (c, c)))
                if model and (i, j) in picks:
                    cs = [c for c in range(width) if np.isfinite(g[c]) and np.isfinite(gt[c])]
                    if cs:
                        c = rng.choice([c for c in cs if c in active] or cs)
                        goals.append(("Rabs (kgrad %s %s %s %d - %s) <= %s" % (node.coq(), W.Rlist(X[i]), W.Rlist(Y[j]), c, W.R(KG[i, j, c]), W.Rup(gt[c])), "kcase"))
                        meta.append({"group": group, "kernel": node.describe(), "x": X[i].tolist(), "y": Y[j].tolist(), "c": c})
        # central differences of cov(x, y) on well-separated pairs (support): Richardson-calibrated tolerance
        if T or tn % 4 == 0:
            i, j = 0, 0
            _, _, g0, gt0, ok = node.oracle(X[i], Y[j], grad=True, code_eps=False)
            d0 = float(np.sqrt(np.sum((X[i] - Y[j]) ** 2)))
            if ok and d0 > 1e-2 and np.all(np.isfinite(g0)):
                def kval(yy):
                    return float(np.asarray(cov(jnp.asarray(X[i][None]), jnp.asarray(yy[None])))[0, 0])
                for c in sorted(active)[:2]:
                    h = 1e-4 * max(d0, 1e-3)
                    e = np.zeros(width)
                    e[c] = 1.0
                    k1p, k1m, k2p, k2m = kval(Y[j] + h * e), kval(Y[j] - h * e), kval(Y[j] + 2 * h * e), kval(Y[j] - 2 * h * e)
                    fd1, fd2 = (k1p - k1m) / (2 * h), (k2p - k2m) / (4 * h)
                    if not np.isfinite(fd1 + fd2):
                        continue
                    tol = 2 * abs(fd1 - fd2) + 64 * W.U * max(abs(k1p), abs(k1m), abs(k2p), abs(k2m)) / h + gt0[c]
                    n_fd += 1
                    compare("C11|finite-difference|%s" % node.shape(), "k_grad differs from central differences of the kernel value",
                            KG[i, j, c], fd1, tol, dict(rp, x=X[i].tolist(), y=Y[j].tolist(), c=c, h=h), extra=1e-6 * abs(fd1))

    # ---------------------------------------------------------------- D. histories
    # (a) active_dims given as a 0/1 index list and as a boolean mask of the same length denote different columns
    #     ([0, 1] = both, [False, True] = the second): one kernel's gradient must not depend on which other kernels'
    #     gradients were evaluated before in this process
    n_hist = 0
    for first, second in (([0, 1], [False, True]), ([False, True], [0, 1]), ([1, 0], [True, False]), ([True, False], [1, 0])):
        for hname in ("Matern52", "ExpQuad"):
            def mk(adv, hname=hname):
                is_mask = isinstance(adv[0], bool)
                return W.Node("base", W.AD("mask" if is_mask else "list", list(adv), "-"), name=hname, ls=1.25)     # masks as plain lists here
            A_, B_ = mk(first), mk(second)
            Xh, Yh = W.point_sets(rng, 2)
            jXh, jYh = jnp.asarray(Xh), jnp.asarray(Yh)
            rp = {"kernel": B_.describe(), "evaluated_before_in_this_process": A_.describe(), "x_rows": Xh.tolist(), "y_rows": Yh.tolist()}
            try:
                np.asarray(A_.build().k_grad(jXh)(jYh))
                KGh = np.asarray(B_.build().k_grad(jXh)(jYh))
            except Exception as e:  # noqa
                ctx.violation("C11|history|active_dims-forms|exception", "k_grad raised %s after a kernel with an equal-looking active_dims was used" % type(e).__name__,
                              dict(rp, error=repr(e)[:200]))
                continue
            n_hist += 1
            act = set(B_.ad.index(2))
            for i in range(Xh.shape[0]):
                for j in range(Yh.shape[0]):
                    v, t, g, gt, ok = B_.oracle(Xh[i], Yh[j], grad=True)
                    for c in range(2):
                        if c not in act and KGh[i, j, c] != 0.0:
                            ctx.violation("C11|history|active_dims-forms|inactive-nonzero", "non-zero gradient in an inactive dimension after a kernel with an "
                                          "equal-looking active_dims was used", dict(rp, x=Xh[i].tolist(), y=Yh[j].tolist(), c=c, observed=float(KGh[i, j, c])))
                        elif ok and np.isfinite(g[c]) and np.isfinite(gt[c]) and np.isfinite(KGh[i, j, c]):
                            compare("C11|history|active_dims-forms|gradient", "k_grad entry differs from the derivative of the documented formula after a kernel "
                                    "with an equal-looking active_dims was used", KGh[i, j, c], g[c], gt[c], dict(rp, x=Xh[i].tolist(), y=Yh[j].tolist(), c=c))
    # (b) NumPy inputs refilled in place between two evaluations: the gradient is that at the buffer's CURRENT rows
    for hnode in (W.Node("base", W.make_ad("none", rng, 3), name="Matern52", ls=0.8),
                  W.Node("add", W.make_ad("none", rng, 3), left=W.Node("base", W.make_ad("none", rng, 3), name="ExpQuad", ls=1.5),
                         right=W.Node("base", W.make_ad("none", rng, 3), name="Matern32", ls=0.6)),
                  W.Node("base", W.make_ad("list", rng, 3), name="RatQuad", ls=1.1, alpha=2.0)):
        Xh, Yh = W.point_sets(rng, 3)
        covh = hnode.build()
        ybuf, xbuf = np.array(Yh, copy=True), np.array(Xh, copy=True)
        try:
            fgrad = covh.k_grad(xbuf)
            fgrad(ybuf)
            Y2 = np.array(Yh[::-1], copy=True) + 0.125
            ybuf[...] = Y2
            got_closure, got_new = np.asarray(fgrad(ybuf)), np.asarray(covh.k_grad(xbuf)(ybuf))
            want = np.asarray(covh.k_grad(np.array(Xh, copy=True))(np.array(Y2, copy=True)))
            X2 = np.array(Xh[::-1], copy=True) - 0.25
            xbuf[...] = X2
            got_x = np.asarray(covh.k_grad(xbuf)(ybuf))
            want_x = np.asarray(covh.k_grad(np.array(X2, copy=True))(np.array(Y2, copy=True)))
        except Exception as e:  # noqa
            ctx.violation("C11|history|buffer-reuse|exception", "k_grad raised %s on refilled NumPy buffers" % type(e).__name__,
                          {"kernel": hnode.describe(), "error": repr(e)[:200]})
            continue
        n_hist += 1
        for what, a_, b_ in (("y refilled, same closure", got_closure, want), ("y refilled, new closure", got_new, want), ("x refilled", got_x, want_x)):
            if not np.array_equal(a_, b_, equal_nan=True):
                ctx.violation("C11|history|buffer-reuse", "k_grad on a NumPy buffer refilled in place differs from k_grad on a fresh copy of the same rows",
                              {"kernel": hnode.describe(), "case": what, "x_first": Xh.tolist(), "y_first": Yh.tolist(),
                               "sequence": "f = cov.k_grad(xbuf); f(ybuf); ybuf[...] = y2; f(ybuf), cov.k_grad(xbuf)(ybuf) vs cov.k_grad(x.copy())(y2.copy()); then xbuf[...] = x2",
                               "max_difference": float(np.nanmax(np.abs(a_ - b_)))})
                break
    # (c) hyper-parameters reassigned after a first evaluation: the gradient is that of the kernel as it is NOW
    import mellon.cov as mcov_
    Xh, Yh = W.point_sets(rng, 3)
    jXh, jYh = jnp.asarray(Xh), jnp.asarray(Yh)
    for what_, mk_, change_, fresh_ in (
            ("ls", lambda: mcov_.Matern52(0.9), lambda k_: setattr(k_, "ls", 2.3), lambda: mcov_.Matern52(2.3)),
            ("alpha", lambda: mcov_.RatQuad(1.0, 1.2), lambda k_: setattr(k_, "alpha", 3.0), lambda: mcov_.RatQuad(3.0, 1.2)),
            ("active_dims", lambda: mcov_.ExpQuad(1.1, active_dims=[0, 1]), lambda k_: setattr(k_, "active_dims", [1, 2]), lambda: mcov_.ExpQuad(1.1, active_dims=[1, 2])),
            ("ls of a summand", lambda: mcov_.Matern32(1.0) + mcov_.ExpQuad(1.5), lambda k_: setattr(k_.right, "ls", 0.5), lambda: mcov_.Matern32(1.0) + mcov_.ExpQuad(0.5))):
        try:
            k_ = mk_()
            np.asarray(k_.k_grad(jXh)(jYh))
            change_(k_)
            got, want = np.asarray(k_.k_grad(jXh)(jYh)), np.asarray(fresh_().k_grad(jXh)(jYh))
        except Exception as e:  # noqa
            ctx.violation("C11|history|reassigned|exception", "k_grad raised %s after %s was reassigned" % (type(e).__name__, what_), {"error": repr(e)[:200]})
            continue
        n_hist += 1
        if not np.array_equal(got, want, equal_nan=True):
            ctx.violation("C11|history|reassigned-%s" % what_.split()[0], "k_grad evaluated again after %s was reassigned is not the gradient of the kernel as it is now" % what_,
                          {"kernel_now": repr(k_), "changed": what_, "x_rows": Xh.tolist(), "y_rows": Yh.tolist(),
                           "sequence": "k.k_grad(x)(y); <attribute reassigned>; k.k_grad(x)(y) vs the same call on a freshly constructed kernel",
                           "max_difference": float(np.nanmax(np.abs(got - want)))})
    bump("history/%d" % n_hist)

    phase["implementation+oracle"] = round(time.time() - t0, 1)
    t0 = time.time()
    proved = 0
    if model and goals:
        bad = W.run_goals(ctx, "c11", IMPORTS, goals, shard=25)
        proved = len(goals) - len(bad)
        for i, msg in list(bad.items())[:8]:
            ctx.broken.append(Broken("correspondence", meta[i].get("group", "?"), "%s: %r" % (msg, meta[i])))
    elif not model:
        ctx.cov["note"] = "generated model unavailable: no correspondence run"
    phase["coq-correspondence"] = round(time.time() - t0, 1)
    ctx.cov["phase_seconds"] = phase
    ctx.cov["evaluations"] = evals + proved
    ctx.cov["traces_validated_against_impl"] = proved
    ctx.cov["distinct_nontrivial"] = len(shapes_seen)
    ctx.cov["interval_goals"] = {"emitted": len(goals), "proved_and_closed_by_Qed": proved}
    ctx.cov["autodiff_trees"] = n_autodiff
    ctx.cov["finite_difference_entries"] = n_fd
    ctx.cov["pairs_outside_model_nonpositive_power_base"] = skipped_nonpos
    ctx.cov["trees_whose_value_deviates_from_documented_formula_autodiff_reference_only"] = n_undocumented
    ctx.cov["kernels_or_operators_whose_value_deviates_from_documented_formula"] = sorted(deviating)
    ctx.cov["largest_observed_error_over_allowed"] = [round(worst["ratio"], 4), worst.get("key")]
    ctx.cov["rule"] = ("every depth-2 tree shape (5 operators x 6 (x 6) base kernels) with each of the six active_dims forms at the root and random forms below, "
                       "every base kernel x every form, 25-feature kernels, sampled depth-3 trees; point sets with coincident, 1e-7 and 1e-10-relative near-coincident, "
                       "collinear and offset-100 rows; ls/alpha log-uniform over 4 decades, powers in {2,3,.5,1.5,-1,2.5}. All (i,j,c) entries of cov.k_grad(x)(y) are "
                       "compared with the NumPy derivative of the documented formula (derived bound), exact zeros are required outside the active dimensions, the "
                       "autodiff fallback and central differences are compared on a share of the trees, and selected entries are enclosed by Interval inside Coq "
                       "against the generated model (Qed). distinct_nontrivial = distinct (tree shape, root active_dims form).")
    ctx.cov["input_distribution"] = dist_ct
    ctx.cov["contracts_validated"] = {"jacfwd-vs-true-derivative (trees)": n_autodiff, "central-differences (entries)": n_fd}
    ctx.cov["samples"] = [meta[i] for i in (0, len(meta) // 3, len(meta) // 2, len(meta) - 1)] if meta else []


def replay(ctx, rep):
    r = rep.get("replay", {})
    print("replay of", rep.get("key"), ":", rep.get("what"))
    print("recorded: expected %r observed %r allowed_error %r; call %r" % (r.get("expected"), r.get("observed"), r.get("allowed_error"), r.get("call")))
    print("kernel:", r.get("kernel"), "x:", r.get("x"), "y:", r.get("y"))
    return 1
