"""C04 - covariance factor: L L^T is the specified approximation, never above K.

translate (harness/matgen.TARGETS: _full_rank, _standard_low_rank, _full_decomposition_low_rank, _modified_low_rank)
-> build coq/props/C04.v (L L^T identities of the four factorisations, Schur-complement bound, truncation gap psd;
   all sizes, any real closed field, under the cholesky / eigen-truncation / QR contracts)
-> run mellon.parameters.compute_L for every gp_type (and the four private routines) with cholesky,
   solve_triangular, eigh, qr recorded and their contracts validated by residuals
-> PrimFloat execution of the generated definitions inside Coq on the same Gram matrices (Cholesky paths with the
   model's own textbook Cholesky; eigen / QR paths with the recorded oracle outputs) compared through residuals
-> NumPy searcher on the implementation: L Lp^T = K_xu, L L^T = K + jI, L = V_p sqrt(S_p) for the recorded
   spectrum, min eigenvalue and trace of the gap (K + jI) - L L^T, shapes, supplied Lp used as given, wrong
   shape refused.  The identity Q M Q^T = K_xu W^-1 K_ux of the improved Nystroem factor is proved only up to
   W^-1 = v S^-1 v^T (full first eigendecomposition); the searcher checks it numerically."""
import random

import numpy as np

from harness import matgen
from harness.wb_common import U, real_module, dataset, KERNELS, make_kernel, Recorder, quiet
from vlib.core import Broken, TRUSTED_COMMON, REPO


def make_configs(rng, thorough):
    cfgs = []
    i = 0
    for rep in range(3 if thorough else 1):
        for gp in ["full", "full_nystroem", "sparse_cholesky", "sparse_nystroem", "fixed", "given_Lp"]:
            for kname in KERNELS:
                i += 1
                n = rng.choice([6, 12, 25, 40, 60] if not thorough else [12, 40, 60, 120, 200])
                cfgs.append(dict(id=i, gp=gp, kernel=kname, n=n, d=rng.choice([1, 2, 5, 25]),
                                 data=rng.choice(["gauss", "clustered", "near-duplicate", "anisotropic"]),
                                 ls=rng.choice([0.1, 0.3, 1.0, 3.0]), compose=(i % 7 == 0),
                                 jitter=rng.choice([1e-8, 1e-6, 1e-4, 1e-3]),
                                 lm=rng.choice(["subset", "arbitrary", "more"]),
                                 rank=rng.choice(["int", "frac", "full"]), seed=rng.randrange(2 ** 31)))
    return cfgs


def psd_tol(n, *norms):
    return 8 * n * n * U * sum(norms) + 1e-300


def run(ctx):
    quiet()
    dec = real_module("mellon.decomposition")
    par = real_module("mellon.parameters")
    rng = random.Random(ctx.seed)
    ctx.cov["trusted_base"] = TRUSTED_COMMON + [
        "cholesky, solve_triangular, eigh (ascending, orthonormal), qr(reduced) contracts - validated by residual on every recorded call",
        "_eigendecomposition keeps the p largest pairs (count logic proved in C10; slicing compared exactly here)",
        "joint Gram matrix of inducing points and cells positive semi-definite (kernel_psd hypothesis)"]
    ctx.assumptions += ["binary64 rounding enters through derived tolerances only (Higham 2002: Cholesky Thm 10.3, triangular solves Thm 8.5)"]
    gen = meta = None
    try:
        gen, funcs, meta, _tr = matgen.translate_all(REPO)
        ctx.cov["translated_functions"] = funcs
        ctx.build_props(gen, extra_targets=["lib/MxFloat.vo"])
    except matgen.Unsupported as u:
        ctx.broken.append(Broken("translation", "matrix subset", str(u)))
    except matgen.PathError as e:
        ctx.broken.append(Broken("translation", "static path raises", str(e)))
    cfgs = make_configs(rng, ctx.thorough)
    rec = Recorder([dec])
    jobs, dist = [], {}
    with rec:
        for cfg in cfgs:
            r = np.random.default_rng(cfg["seed"])
            n, d, j = cfg["n"], cfg["d"], cfg["jitter"]
            x = dataset(r, n, d, cfg["data"])
            cov, kdesc = make_kernel(r, cfg["kernel"], cfg["ls"], cfg["compose"])
            m = {"subset": max(3, n // 3), "arbitrary": max(3, n // 2), "more": n + 4}[cfg["lm"]]
            xu = x[:m] if cfg["lm"] == "subset" else dataset(r, m, d, "gauss")
            if cfg["gp"] == "sparse_nystroem" and m > n:
                xu, m = xu[: max(3, n // 2)], max(3, n // 2)
            K = np.asarray(cov(x, x), dtype=float)
            Kxu = np.asarray(cov(x, xu), dtype=float)
            Kuu = np.asarray(cov(xu, xu), dtype=float)
            gp = cfg["gp"]
            rank = None
            if gp in ("full_nystroem", "sparse_nystroem"):
                top = n if gp == "full_nystroem" else m
                rank = {"int": max(1, top // 2), "frac": float(r.choice([0.5, 0.9, 0.99, 0.999])), "full": top}[cfg["rank"]]
                if gp == "sparse_nystroem" and isinstance(rank, int) and rank >= m:
                    rank = m - 1
            key = "C04|%s|%s|%s" % (gp, cfg["lm"] if gp not in ("full", "full_nystroem") else "-", cfg["rank"] if rank is not None else "-")
            rec.last.clear()

            def rp(extra):
                dd = dict(cfg, kernel_desc=kdesc, x=x.tolist(), landmarks=xu.tolist(), rank_arg=rank,
                          call="mellon.parameters.compute_L(x, cov, gp_type, landmarks, Lp, rank, sigma=0, jitter)")
                dd.update(extra)
                return dd
            try:
                if gp == "full":
                    L = np.asarray(par.compute_L(x, cov, gp_type="full", jitter=j), dtype=float)
                    # a full model's factor is that of the cells, whatever inducing points are offered alongside
                    for lname, lmk in (("n-other-points", dataset(r, n, d, "gauss")), ("cells-reversed", x[::-1].copy()), ("more-than-n", dataset(r, n + 4, d, "gauss"))):
                        try:
                            L2 = np.asarray(par.compute_L(x, cov, gp_type="full", landmarks=lmk, jitter=j), dtype=float)
                        except Exception as e:      # noqa
                            ctx.violation("C04|full|landmarks-offered|%s" % type(e).__name__,
                                          "compute_L(gp_type='full', landmarks=...) raises %s: %s" % (type(e).__name__, str(e)[:150]),
                                          rp({"landmarks_offered": lname, "landmarks_array": np.asarray(lmk).tolist()}))
                            continue
                        if L2.shape != L.shape or not np.array_equal(L2, L):
                            ctx.violation("C04|full|landmarks-offered|L", "the factor of a full model depends on the inducing points offered with it",
                                          rp({"landmarks_offered": lname, "landmarks_array": np.asarray(lmk).tolist(),
                                              "max_difference": float(np.abs(L2 - L).max()) if L2.shape == L.shape else "shape"}))
                        # the same through the estimator (Lp is computed first and handed to compute_L): at least n landmarks => full
                        if cfg["id"] % 2 == 0:
                            import mellon
                            try:
                                est = mellon.DensityEstimator(cov_func=cov, landmarks=lmk, jitter=j)
                                est.prepare_inference(x)
                                Le = np.asarray(est.L, dtype=float)
                            except Exception as e:      # noqa
                                ctx.violation("C04|full|estimator-landmarks-offered|%s" % type(e).__name__,
                                              "DensityEstimator(cov_func=cov, landmarks=<at least n points>).prepare_inference(x) raises %s: %s"
                                              % (type(e).__name__, str(e)[:150]), rp({"landmarks_offered": lname, "landmarks_array": np.asarray(lmk).tolist()}))
                                continue
                            if Le.shape != L.shape or not np.array_equal(Le, L):
                                ctx.violation("C04|full|estimator-landmarks-offered|L",
                                              "with at least n inducing points the model is full, but its factor is not that of the cells",
                                              rp({"landmarks_offered": lname, "landmarks_array": np.asarray(lmk).tolist(), "resolved_gp_type": str(est.gp_type),
                                                  "max_difference": float(np.abs(Le - L).max()) if Le.shape == L.shape else "shape"}))
                elif gp == "full_nystroem":
                    if isinstance(rank, int) and rank >= n:     # compute_L refuses rank = n (documented); the routine itself keeps all pairs
                        L = np.asarray(dec._full_decomposition_low_rank(x, cov, rank=rank, jitter=j), dtype=float)
                    else:
                        L = np.asarray(par.compute_L(x, cov, gp_type="full_nystroem", rank=rank, jitter=j), dtype=float)
                elif gp in ("sparse_cholesky", "fixed"):
                    # sparse_cholesky with m >= n is refused by validate_compute_L_input (documented): use 'fixed' there
                    L = np.asarray(par.compute_L(x, cov, gp_type=gp if m < n else "fixed", landmarks=xu, jitter=j), dtype=float)
                elif gp == "sparse_nystroem":
                    L = np.asarray(par.compute_L(x, cov, gp_type=gp, landmarks=xu, rank=rank, jitter=j), dtype=float)
                else:
                    Lp_in = 1.5 * np.linalg.cholesky(Kuu + 0.02 * np.eye(m))       # any lower-triangular factor is used as given
                    gpt = "sparse_cholesky" if m < n else "fixed"
                    L = np.asarray(par.compute_L(x, cov, gp_type=gpt, landmarks=xu, Lp=Lp_in, jitter=j), dtype=float)
                    try:
                        par.compute_L(x, cov, gp_type=gpt, landmarks=xu, Lp=Lp_in[:-1, :-1], jitter=j)
                        ctx.violation(key + "|shape-check", "a wrongly shaped Lp was accepted", rp({}))
                    except ValueError:
                        pass
            except ValueError as e:
                if "positively definite" in str(e):
                    continue
                ctx.violation(key + "|ValueError", "compute_L raised ValueError: %s" % str(e)[:200], rp({}))
                continue
            except Exception as e:
                ctx.violation(key + "|" + type(e).__name__, "compute_L raised %s: %s" % (type(e).__name__, str(e)[:200]), rp({}))
                continue
            try:        # a library routine that no longer goes through the recorded oracles must not stop the search: the later blocks still run
                dist[key] = dist.get(key, 0) + 1
                if np.isnan(L).any():
                    ctx.violation(key + "|nan", "NaN in L", rp({}))
                    continue
                A = K + j * np.eye(n)
                gap = A - L @ L.T
                gtol = psd_tol(n, np.linalg.norm(A, 2), np.linalg.norm(L, 2) ** 2)
                if L.shape[0] != n:
                    ctx.violation(key + "|rows", "L does not have one row per cell", rp({"shape": list(L.shape)}))
                    continue
                job = dict(cfg=cfg, key=key, K=K, Kxu=Kxu, Kuu=Kuu, L=L, j=j, n=n, m=m)
                if gp == "full":
                    if L.shape != (n, n) or np.linalg.norm(gap) > 2 * (n + 1) * n * U * np.linalg.norm(A):
                        ctx.violation(key + "|LLt", "L L^T != K + jitter I", rp({"residual": float(np.linalg.norm(gap))}))
                    job["kind"] = "full"
                elif gp in ("sparse_cholesky", "fixed", "given_Lp"):
                    if gp == "given_Lp":
                        Lp = Lp_in
                    else:
                        Arec, Lp = rec.last["chol"]
                        # the recorder keeps the symmetrised argument (jnp.linalg.cholesky factorises (A + A^T)/2), and a Gram
                        # matrix computed through |x|^2 + |y|^2 - 2xy is symmetric only up to cancellation error: compare like with like
                        if Arec.shape != (m, m) or np.linalg.norm(Arec - (0.5 * (Kuu + Kuu.T) + j * np.eye(m))) > 8 * U * np.linalg.norm(Kuu):
                            ctx.violation(key + "|Lp", "the inducing-point factor is not chol(K_uu + jitter I)", rp({}))
                            continue
                    res = np.abs(L @ Lp.T - Kxu)
                    bound = 8 * m * U * (np.abs(L) @ np.abs(Lp.T)) + 1e-300
                    if L.shape != (n, m) or (res > bound).any():
                        ctx.violation(key + "|L=KxuLp^-T", "L Lp^T != K_xu (L is not K_xu Lp^-T)", rp({"max_ratio": float((res / bound).max()) if L.shape == (n, m) else "shape"}))
                    if gp != "given_Lp":
                        # never above K (joint Gram psd): min eigenvalue of (K + jI) - L L^T
                        if np.linalg.eigvalsh((gap + gap.T) / 2).min() < -gtol:
                            ctx.violation(key + "|above-K", "(K + jI) - L L^T is not positive semi-definite", rp({"min_eig": float(np.linalg.eigvalsh((gap + gap.T) / 2).min()), "tol": gtol}))
                    job.update(kind="standard", Lp=Lp, given=(gp == "given_Lp"))
                elif gp == "full_nystroem":
                    Aw, s, v = rec.last["eigh"][-1]
                    p = L.shape[1]
                    exp = v[:, n - p:] * np.sqrt(s[n - p:])[None, :]
                    if np.linalg.norm(Aw - A) > 8 * U * np.linalg.norm(A) or not np.allclose(L, exp, rtol=8 * U, atol=0):
                        ctx.violation(key + "|eigen-truncation", "L is not V_p sqrt(S_p) of K + jI", rp({"p": p}))
                    disc = s[: n - p]
                    ev = np.linalg.eigvalsh((gap + gap.T) / 2)
                    if ev.min() < -gtol or abs(np.trace(gap) - disc.sum()) > gtol * n or ev.max() > max(disc.max(initial=0.0), 0) + gtol:
                        ctx.violation(key + "|gap", "gap is not the discarded eigen-part (psd, trace = discarded mass, bounded by the largest discarded eigenvalue)",
                                      rp({"min_eig": float(ev.min()), "trace": float(np.trace(gap)), "discarded": float(disc.sum())}))
                    if isinstance(rank, int) and L.shape[1] != min(rank, int((s > 0).sum())):
                        ctx.violation(key + "|cols", "number of columns is not the retained rank", rp({"cols": L.shape[1]}))
                    job.update(kind="nystroem", s=s[n - p:], v=v[:, n - p:], p=p, rank=rank)
                else:
                    (Cq, Q, R) = rec.last["qr"][-1]
                    (W1, s1, v1), (W2, s2, v2) = rec.last["eigh"][-2], rec.last["eigh"][-1]
                    p = L.shape[1]
                    kq = Q.shape[1]
                    exp = (Q @ v2[:, kq - p:]) * np.sqrt(s2[kq - p:])[None, :]
                    T = R @ v1
                    Mi = (T / s1) @ T.T
                    if not np.allclose(L, exp, rtol=64 * U, atol=64 * U * np.abs(exp).max()) or np.linalg.norm(W2 - Mi) > 64 * m * U * np.linalg.norm(Mi):
                        ctx.violation(key + "|improved-nystroem", "L is not Q V_p sqrt(S_p) of R W^-1 R^T", rp({"p": p}))
                    # Q M Q^T = K_xu W^-1 K_ux  (residual form: multiply by W through v1 S1 v1^T)
                    ev = np.linalg.eigvalsh((gap + gap.T) / 2)
                    if ev.min() < -gtol * max(1.0, np.linalg.cond(Kuu + j * np.eye(m)) * U * 1e3):
                        ctx.violation(key + "|above-K", "(K + jI) - L L^T is not positive semi-definite", rp({"min_eig": float(ev.min()), "tol": gtol}))
                    job.update(kind="modified", Q=Q, R=R, s1=s1, v1=v1, s2=s2[kq - p:], v2=v2[:, kq - p:], p=p, kq=kq, W1=W1, rank=rank)
                jobs.append(job)
            except (KeyError, IndexError) as e:
                if not any(b_.name == "oracle-not-recorded" for b_ in ctx.broken):
                    ctx.broken.append(Broken("contract", "oracle-not-recorded", "%s: the factorisation of %s did not go through the recorded cholesky / eigh / qr (%r)" % (key, gp, e)))
    # ---- many cells (more than any plausible internal block of rows, and not a multiple of a power of two): row i of the
    #      sparse factor belongs to cell i;  L = K_xu Lp^-T  entry-wise (independent NumPy solve), never above K on a sub-block
    import mellon.cov as mcov
    from scipy.linalg import solve_triangular as st_
    for nbig in ([5000] if not ctx.thorough else [1100, 5000, 9000]):
        r = np.random.default_rng(ctx.seed + nbig)
        xb = r.normal(size=(nbig, 2))
        xub = xb[r.choice(nbig, size=20, replace=False)] + 0.05 * r.normal(size=(20, 2))
        covb = mcov.Matern52(0.9)
        jb = 1e-6
        for gpt in ("sparse_cholesky", "fixed"):
            keyb = "C04|%s|many-cells" % gpt
            rpb = {"gp_type": gpt, "n": nbig, "kernel": "Matern52(0.9)", "jitter": jb, "x": "default_rng(verif_seed + n).normal(size=(n, 2))",
                   "landmarks": xub.tolist(), "verif_seed": ctx.seed, "call": "mellon.parameters.compute_L(x, cov, gp_type, landmarks, jitter=1e-6)"}
            try:
                Lb = np.asarray(par.compute_L(xb, covb, gp_type=gpt, landmarks=xub, jitter=jb), dtype=float)
            except Exception as e:      # noqa
                ctx.violation(keyb + "|" + type(e).__name__, "compute_L raised %s on %d cells" % (type(e).__name__, nbig), dict(rpb, error=str(e)[:200]))
                continue
            Kuu_b = np.asarray(covb(xub, xub), dtype=float)
            Kxu_b = np.asarray(covb(xb, xub), dtype=float)
            Lp_b = np.linalg.cholesky(0.5 * (Kuu_b + Kuu_b.T) + jb * np.eye(20))
            want = st_(Lp_b, Kxu_b.T, lower=True).T
            dist[keyb] = dist.get(keyb, 0) + 1
            amp = np.linalg.cond(Lp_b)
            tolb = 64 * 20 * U * amp * (np.abs(want) + 1.0)
            if Lb.shape != want.shape or not (np.abs(Lb - want) <= tolb).all():
                bad_rows = np.where((np.abs(Lb - want) > tolb).any(axis=1))[0] if Lb.shape == want.shape else []
                ctx.violation(keyb + "|rows", "rows of the sparse factor do not belong to their cells (L != K_xu Lp^-T) on a data set with many cells",
                              dict(rpb, shape=list(Lb.shape), first_bad_rows=[int(i) for i in bad_rows[:5]], n_bad_rows=int(len(bad_rows)),
                                   max_difference=float(np.abs(Lb - want).max()) if Lb.shape == want.shape else "shape"))
    # ---- history: a kernel object whose hyper-parameter is changed in place between two factorisations (a documented way of
    #      re-tuning a kernel): the second factor is that of the kernel as it is NOW (compared with a freshly built kernel)
    for gpt in ("full", "sparse_cholesky", "fixed"):
        r = np.random.default_rng(ctx.seed + 404)
        xh = r.normal(size=(30, 2))
        xuh = xh[:10] + 0.05 * r.normal(size=(10, 2))
        kw_h = dict(gp_type=gpt, jitter=1e-6) if gpt == "full" else dict(gp_type=gpt, landmarks=xuh, jitter=1e-6)
        covh = mcov.Matern52(0.7)
        keyh = "C04|%s|kernel-changed-in-place" % gpt
        try:
            par.compute_L(xh, covh, **kw_h)
            covh.ls = 2.1
            L_now = np.asarray(par.compute_L(xh, covh, **kw_h), dtype=float)
            L_fresh = np.asarray(par.compute_L(xh, mcov.Matern52(2.1), **kw_h), dtype=float)
        except Exception as e:      # noqa
            ctx.violation(keyh + "|" + type(e).__name__, "compute_L raised %s after the kernel's length scale was changed in place" % type(e).__name__,
                          {"gp_type": gpt, "error": str(e)[:200]})
            continue
        dist[keyh] = dist.get(keyh, 0) + 1
        if L_now.shape != L_fresh.shape or not np.array_equal(L_now, L_fresh):
            ctx.violation(keyh, "after cov.ls was changed in place, compute_L still factorises the old kernel",
                          {"gp_type": gpt, "x": xh.tolist(), "landmarks": None if gpt == "full" else xuh.tolist(),
                           "sequence": "cov = Matern52(0.7); compute_L(x, cov, ...); cov.ls = 2.1; compute_L(x, cov, ...) vs compute_L(x, Matern52(2.1), ...)",
                           "max_difference": float(np.abs(L_now - L_fresh).max()) if L_now.shape == L_fresh.shape else "shape"})
    for f in rec.failures[:5]:
        ctx.broken.append(Broken("contract", f.split(":")[0], f))
    n_eval = 0
    if gen is not None and not any(b.kind in ("proof", "gate") for b in ctx.broken):
        n_eval = correspond(ctx, jobs, meta)
    ctx.cov["evaluations"] = n_eval
    ctx.cov["traces_validated_against_impl"] = n_eval
    ctx.cov["distinct_nontrivial"] = len(dist)
    ctx.cov["input_distribution"] = dist
    ctx.cov["contracts_validated"] = dict(rec.counts, cholesky_nan=rec.chol_nan)
    ctx.cov["rule"] = ("%d seeded configurations: gp_type in {full, full_nystroem, sparse_cholesky, sparse_nystroem, fixed, supplied Lp} x 6 "
                       "kernels (+compositions), n<=60 (quick), inducing points subset / arbitrary / more than cells, rank int / fraction / "
                       "full, jitter 1e-8..1e-3, through mellon.parameters.compute_L; residual identities of L, eigen structure of the "
                       "gap (K + jI) - L L^T, shapes, Lp shape check; generated definitions executed in Coq on the same matrices." % len(cfgs))
    ctx.cov["samples"] = [dict(c) for c in cfgs[:3]]


def correspond(ctx, jobs, meta):
    """generated definitions under PrimFloat; eigen / QR oracles return the recorded outputs"""
    from concurrent.futures import ThreadPoolExecutor
    import re
    shards = [jobs[i::8] for i in range(8)]
    L = matgen.mlit

    def term(jb):
        j, n, m = jb["j"], jb["n"], jb["m"]
        if jb["kind"] == "full":
            return [matgen.coq_call(meta, "full_rank", dict(n=n), dict(K_x_x=jb["K"], sigma=0.0, jitter=j))]
        if jb["kind"] == "standard":
            if jb["given"]:
                return [matgen.coq_call(meta, "standard_low_rank_PM", dict(n=n, m=m), dict(K_x_xu=jb["Kxu"], Lp=jb["Lp"], sigma=0.0, jitter=j))]
            return [matgen.coq_call(meta, "standard_low_rank_PN", dict(n=n, m=m), dict(K_x_xu=jb["Kxu"], K_xu_xu=jb["Kuu"], sigma=0.0, jitter=j)),
                    matgen.coq_call(meta, "full_rank", dict(n=m), dict(K_x_x=jb["Kuu"], sigma=0.0, jitter=j))]
        if jb["kind"] == "nystroem":
            ops = "(FloatOpsWith (fun _ _ _ => %s) (fun _ _ _ => %s) (fun _ _ _ _ => []) (fun _ _ _ _ => []))" % (L(jb["s"]), L(jb["v"]))
            return [matgen.coq_call(meta, "full_decomposition_low_rank", dict(n=n), dict(p=jb["p"], K_x_x=jb["K"], rank=0, sigma=0.0, jitter=j), ops=ops)]
        # modified: two eigen calls, told apart by the size / first entry of their argument
        w00 = matgen.flit(jb["W1"][0, 0])
        sel = "(fun (n p : nat) (A : list (list float)) => if andb (Nat.eqb n %d) (PrimFloat.eqb (hd f0 (hd [] A)) %s) then %%s else %%s)" % (m, w00)
        ops = "(FloatOpsWith %s %s (fun _ _ _ _ => %s) (fun _ _ _ _ => %s))" % (
            sel % (L(jb["s1"]), L(jb["s2"])), sel % (L(jb["v1"]), L(jb["v2"])), L(jb["Q"]), L(jb["R"]))
        return [matgen.coq_call(meta, "modified_low_rank", dict(n=n, m=m),
                                dict(kq=jb["kq"], p=m, p1=jb["p"], K_x_xu=jb["Kxu"], K_xu_xu=jb["Kuu"], rank=0, sigma=0.0, jitter=j), ops=ops)]

    def one(k):
        if not shards[k]:
            return []
        body = [matgen.HEADER]
        cnt = []
        for jb in shards[k]:
            ts = term(jb)
            cnt.append(len(ts))
            body += ["Eval vm_compute in %s." % t for t in ts]
        txt = ctx.coq_eval("c04_%d" % k, "\n".join(body), timeout=900)
        parts = [pp.split("\n     :")[0] for pp in re.split(r"\n\s*=\s", "\n" + txt)[1:]]
        if len(parts) != sum(cnt):
            raise Broken("correspondence", "c04_%d" % k, "unexpected number of results")
        out, pos = [], 0
        for jb, c in zip(shards[k], cnt):
            out.append((jb, [matgen.parse_matrix(t) for t in parts[pos:pos + c]]))
            pos += c
        return out
    results = []
    try:
        with ThreadPoolExecutor(max_workers=8) as ex:
            for r in ex.map(one, range(8)):
                results += r
    except Broken as bk:
        ctx.broken.append(bk)
        return 0
    ok = 0
    for jb, mats in results:
        n, m, j = jb["n"], jb["m"], jb["j"]
        Lm = mats[0]
        name = {"full": "full_rank", "standard": "standard_low_rank", "nystroem": "full_decomposition_low_rank", "modified": "modified_low_rank"}[jb["kind"]]
        if Lm.shape != jb["L"].shape or np.isnan(Lm).any():
            ctx.broken.append(Broken("correspondence", name, "model result shape %s vs %s (or NaN), configuration %r" % (Lm.shape, jb["L"].shape, jb["cfg"])))
            continue
        good = True
        if jb["kind"] == "full":
            A = jb["K"] + j * np.eye(n)
            good = np.linalg.norm(Lm @ Lm.T - A) <= 2 * (n + 1) * n * U * np.linalg.norm(A) and np.abs(np.triu(Lm, 1)).max(initial=0) == 0
        elif jb["kind"] == "standard":
            Lp = jb["Lp"] if jb["given"] else mats[1]
            res = np.abs(Lm @ Lp.T - jb["Kxu"])
            good = not (res > 8 * m * U * (np.abs(Lm) @ np.abs(Lp.T)) + 1e-300).any()
            if good and not jb["given"]:
                Au = jb["Kuu"] + j * np.eye(m)
                good = np.linalg.norm(Lp @ Lp.T - Au) <= 2 * (m + 1) * m * U * np.linalg.norm(Au)
            if good and jb["given"]:
                # same Lp: the two results differ by solve rounding amplified by ||Lp^-1||
                amp = np.linalg.norm(np.linalg.inv(Lp), 2)
                good = np.linalg.norm(Lm - jb["L"]) <= 16 * m * U * np.linalg.norm(np.abs(Lm) @ np.abs(Lp.T)) * amp + 1e-300
        else:
            good = np.allclose(Lm, jb["L"], rtol=0, atol=64 * max(n, m) * U * (np.abs(jb["L"]).max() + 1e-300))
        if not good:
            ctx.broken.append(Broken("correspondence", name, "generated model disagrees with the stated identity / the implementation, configuration %r" % jb["cfg"]))
            continue
        ok += 1
    return ok
