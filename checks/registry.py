"""Per-property manifest data (bin/mkmanifest turns this into MANIFEST.json)."""
PROOF = "proof"
CHECKS = {
    "C10": dict(
        text=("Theorems (Coq, all spectra of every size, all fractions in (0,1], all integer ranks) about the Gallina model that is "
              "regenerated from mellon/decomposition.py:_eigendecomposition on every run: kept count = least c with leading sum >= f*total "
              "(and >= 1, <= #positive), = min(r,#positive) for integers, kept entries are the largest, monotone in the request; "
              "the model is additionally executed in Coq on >1000 recorded calls of the real routine and compared exactly."),
        note=("Trusted: Coq kernel; the Python-ast translator (validated by the executable correspondence); eigh returning ascending "
              "eigenvalues (checked on every recorded call); jnp.searchsorted = left binary search; float rounding in cumsum/product "
              "(boundary cases are skipped and counted). The world-B clause 'retained factor reproduces those eigenpairs' is proved in C04's files."),
        technique="Coq proof over translator-generated Gallina model + exact vm_compute correspondence",
        design="4/C10"),
}
NOT_YET = {}
