"""Per-property manifest data (bin/mkmanifest turns this into MANIFEST.json)."""
PROOF = "proof"
CHECKS = {
    "C10": dict(
        text=("Theorems (Coq, all spectra of every size, all fractions in (0,1], all integer ranks) about the Gallina model that is "
              "regenerated from mellon/decomposition.py:_eigendecomposition on every run: kept count = least c with leading sum >= f*total "
              "(and >= 1, <= #positive), = min(r,#positive) for integers, kept entries are the largest, monotone in the request; "
              "the model is additionally executed in Coq on >1000 recorded calls of the real routine and compared exactly."),
        note=("Trusted: Coq kernel; the Python-ast translator (validated by the executable correspondence); eigh returning ascending "
              "eigenvalues (checked on every recorded call); jnp.searchsorted = left binary search; float rounding in cumsum/product "
              "(boundary cases are skipped and counted). The world-B clause 'retained factor reproduces those eigenpairs' is proved in C04's files."),
        technique="Coq proof over translator-generated Gallina model + exact vm_compute correspondence",
        design="4/C10"),
}
CHECKS["C15"] = dict(
    text=("Theorems (Coq, all n, n_landmarks, landmark counts, ranks int/float/None, all 5 types and every name string) about the "
          "Gallina functions regenerated each run from compute_rank/compute_n_landmarks/compute_gp_type/validate_params(+3 helpers)/"
          "from_string/compute_landmarks/compute_Lp/compute_conditional/_predictor_landmarks: closed form of the whole resolution pipeline, "
          "refused-or-exactly-one-consistent-type, documented inference rules, name matching, predictor class = family of the type; "
          "the pipeline model is executed in Coq on the exhaustive 6336-point grid of the property text against the real estimator "
          "objects (exact comparison) and on real fits."),
    note=("Trusted: Coq kernel; translator; hand model of _prepare_attribute and of FunctionEstimator.__init__'s rank/nystroem rule (tied by the "
          "exhaustive correspondence); k_means/_full_rank opaque. The shape-and-kind model of the constructors planned in DESIGN.md was "
          "replaced by real fits (sampled, stratified): internal errors inside constructors are found by execution, not by theorem. "
          "Two FunctionEstimator findings are listed in known_findings.jsonl."),
    technique="Coq proof over translator-generated Gallina model + exhaustive exact vm_compute correspondence + real fits",
    design="4/C15")
CHECKS["C13"] = dict(
    text=("Theorems (Coq, all n, d, all values) about the Gallina validate_time_x/validate_array regenerated each run: every per-row form "
          "(vector, column vector, list) and the trailing-column form give the same merged matrix; every scalar form (float, int, 0-d, "
          "(1,), (1,1)) is the broadcast; wrong length / feature count / missing time are ValueErrors; generated tables prove all 8 "
          "time-aware methods are multi_time-wrapped, default time=None, start with the merge and never read the raw arguments again. "
          "The model is executed in Coq on ~1000 (form x size x flag) cases incl. a malformed stream and compared bit-exactly with the "
          "implementation; real predictors of the 3 time-aware classes are called with every form (bitwise equality) and multi_time."),
    note=("Trusted: Coq kernel; translator; list semantics of jnp.isscalar/asarray/full/squeeze/reshape/concatenate in PyVal.v (compared "
          "exactly on every run); the multi_time wrapper is tied by a generated fact table + execution, not translated. Three defects "
          "were fixed in /repo (list / (1,1) time forms; missing time=None defaults)."),
    technique="Coq proof over translator-generated Gallina model + exact vm_compute correspondence + structural tables",
    design="4/C13")
CHECKS["C20"] = dict(
    text=("Theorems (Coq) about the Gallina validators regenerated each run from mellon/validation.py: validate_nn_distances on a vector of "
          "ANY length with any pattern of NaN/+-inf/0/negative entries returns ValueError when no entry is valid and otherwise the same-length "
          "vector with valid entries untouched and all others replaced by the smallest valid entry; validate_bool/positive_int/positive_float/"
          "float_or_int/float characterised for EVERY value of the value universe (accepted values have the promised kind, NaN refused, every "
          "refusal is the documented exception class). The models are executed in Coq on the property's value grammar and on all dirty "
          "patterns up to length 3 and compared exactly; dirty-data fits check finiteness (support)."),
    note=("Trusted: Coq kernel; translator; CPython/JAX primitive semantics of PyVal.v (exact comparison each run). Float overflow on accepted "
          "inputs and the 'no NaN predictions' clause are runtime facts covered by the fits only (partial). domain_safe of DESIGN.md is part of C03."),
    technique="Coq proof over translator-generated Gallina model + exact vm_compute correspondence + dirty-data fits",
    design="4/C20")
CHECKS["C19"] = dict(
    text=("Theorems (Coq, structural/mutual induction, unbounded nesting depth) about a Gallina model of make_serializable / deserialize / "
          "json round trip / Covariance state capture and restore: every value of the property's grammar (scalars incl. NaN, +-inf, -0.0, numpy "
          "scalars, JAX and NumPy arrays of any rank, shape (also empty) and dtype float64/int64/bool, slices, sets, nested dicts) and every "
          "covariance expression (any depth, kernel or scalar right operand, any active_dims form on every node) is restored; non-kernel input "
          "is refused with ValueError. The model is hand-written; it is executed in Coq on ~470 grammar-generated values and kernel expressions "
          "and every intermediate (serialised form, JSON round trip, restored object) is compared exactly with the implementation, which is "
          "also checked against the property statement (bitwise value/shape/dtype; identical k and k_grad)."),
    note=("Trusted: Coq kernel; the hand-written model lib/Serial.v (tie = executable correspondence only, no translator: the functions are "
          "recursive and comprehension-based); CPython json behaviour as modelled by json_rt. 0-d integer JAX arrays and dict keys that are not "
          "str are covered by the correspondence run but excluded from the theorem's grammar. Two defects were fixed in /repo (NumPy arrays; "
          "dtype/shape of empty arrays)."),
    technique="Coq proof (mutual induction) over hand-written Gallina model + exact vm_compute correspondence",
    design="4/C19")
CHECKS["C05"] = dict(
    text=("Theorems (Coq Reals + Coquelicot, 38 obligations) about R-valued Gallina definitions regenerated each run by translate/pyscalar.py from "
          "the six kernels' k bodies, util.distance, the Add/Mul/Pow node arithmetic: each profile equals its documented closed form; the distance "
          "entry is sqrt(|x-y|^2+1e-12), symmetric, >= 1e-6; profile(0)=1, decreasing, values in (0,1]; keval symmetric, pointwise sum/product/"
          "power, inactive dimensions irrelevant, time covariance is the state x time product (structural induction over kexpr, any depth); PSD "
          "closure under sum/scaling/restriction AND entry-wise product (Schur product theorem, proved for MathComp matrices over any real "
          "closed field in lib/MxSchurProd.v via the Cholesky factor constructed in lib/MxChol.v, instantiated at Coq's R through "
          "lib/Rstruct.v and carried to the generated list presentation in thm/ASchurBridge.v). Each sampled input of the implementation is turned into exact rationals and the real-valued "
          "model is enclosed by the Interval tactic at that point (1000+ kernel-checked goals per run) within a derived tolerance."),
    note=("Trusted: Coq kernel + standard real-number axioms (classic, sig_forall_dec, sig_not_dec, functional_extensionality_dep) and, for the "
          "choice structure of R in lib/Rstruct.v, Epsilon.epsilon_statement (all declared by the standard library); pyscalar "
          "translator; the kexpr/keval recursion scheme is hand-written over generated node arithmetic (pattern-checked + correspondence). "
          "Gram matrices of the Linear and ExpQuad kernels are PROVED positive semi-definite (exponential series + Schur product; "
          "C05_expquad_gram_psd, C05_linear_gram_psd), so are those of RatQuad with alpha = 1 (its default) and with every positive integer alpha "
          "(C05_ratquad_default_gram_psd, C05_ratquad_integer_alpha_gram_psd: 1/u as a double limit of geometric sums of ExpQuad entries), and so is every "
          "expression tree over them (C05_keval_psd_gaussian_linear, C05_keval_psd_elementary), Pow nodes with a positive integer exponent over an entrywise "
          "positive operand included (C05_keval_psd_elementary_pow, C05_pow_node_psd, C05_kpos_entrywise_positive: Rpower lk (INR (S n)) = lk^(S n) is an iterated Schur product). "
          "PARTIAL: for Matern32, Matern52, Exponential and RatQuad with non-integer alpha positive semi-definiteness (Bochner / Schoenberg scale mixtures) remains the "
          "hypothesis of C05_keval_psd_bochner_only_partial, tested numerically as support only; Pow nodes with non-integer exponents or operands that can be non-positive (Linear leaves) are outside the closure; RatQuad "
          "docstring exponent typo noted."),
    technique="Coq real-analysis proof over translator-generated definitions + Interval-tactic enclosure at every sampled input",
    design="4/C05")
CHECKS["C11"] = dict(
    text=("Theorems (19 obligations): is_derive of each generated radial profile equals the generated k_grad coefficient; the distance-gradient "
          "entry equals the true partial derivative times dist/(dist+1e-12) with that factor in [1-1e-6,1); exact zeros at coincident points and "
          "in inactive dimensions; every denominator >= 1e-6; kgrad_correct by structural induction over kernel expressions of any depth with any "
          "active_dims form per node, scalar operands and powers of positive bases; the positivity premise of Pow operands is discharged for ALL "
          "points by a syntactic criterion (C11_kgrad_correct_all_points, C11_wfs_implies_wfk: wfs/kpos of thm/AKPos.v - stationary leaves, sums, "
          "products, + c >= 0, * c > 0, Pow). ~960 Interval goals per run enclose the model's gradient "
          "entries at the implementation's inputs; comparison with jax.jacfwd and finite differences as support."),
    note=("Trusted: as C05. Powers of a non-positive base use Rpower in the model and are covered by the searcher only. The autodiff "
          "comparison carries a 1e-7 relative floor that is an estimate, not derived (support only)."),
    technique="Coq real-analysis proof (Coquelicot is_derive, structural induction) over generated definitions + Interval enclosure",
    design="4/C11")
CHECKS["C03"] = dict(
    text=("Theorems (20 obligations) over generated _normal/_nearest_neighbors/_poisson/mle/compute_ls/compute_mu: the prior is the sum of log "
          "standard-normal pdfs; the NN term is ln(rho d c_d r^(d-1) exp(-rho c_d r^d)) and the loss is the documented negative log posterior; "
          "the NN-distance density integrates to 1 over (0,inf) (is_RInt_gen) for all rho,d>0; the MLE is the unique maximiser with the closed "
          "form; Poisson k-NN term documented, maximised at ln j, equals the NN model for k=1, and exp(term) d/r integrates to 1 over (0,inf) for EVERY neighbour count (C03_knn_poisson_density_normalised); ls = e^3 geomean, mu = q_0.01(mle)-10 with "
          "interpolating quantile (bounded, shift-equivariant), d default, ridge target. Interval goals enclose the model at sampled (r,d,z)."),
    note=("Trusted: as C05; gammaln is an uninterpreted function lgam whose sampled values are taken as given (cross-checked against scipy/"
          "math.lgamma). The ridge start value is the unique minimiser of the ridge objective (C03_ridge_unique_minimiser, MathComp, any real closed field). Strict convexity of the loss is C17_loss_strictly_convex (thm/AConvexThm.v). Tree "
          "nearest-neighbour search and Ridge are contracts validated per run."),
    technique="Coq real-analysis proof (Coquelicot RInt_gen, derivatives) over generated definitions + Interval enclosure",
    design="4/C03")
CHECKS["C01"] = dict(
    text=("Theorems (MathComp, all dimensions, any real closed field, 16 obligations) about MatOps-generic definitions regenerated each run by "
          "translate/pymatrix.py from conditional.py/util.py: add_variance diagonal floor; normal equations of the full, DTC and Cholesky-latent "
          "formulations for every noise path (y_is_mean, scalar, vector sigma, supplied factor) with uniqueness; the mean is an affine read-out "
          "and row-local (batch/permutation independence); nine-class table. The SAME generated definitions are executed under a PrimFloat "
          "instance inside Coq on the implementation's Gram matrices and compared through residuals with a derived tolerance; an independent "
          "NumPy dense solve of the stated normal equations produces replays."),
    note=("Trusted: Coq kernel; pymatrix translator; library contracts as Section hypotheses (cholesky on SPD input, solve_triangular = inverse "
          "of the triangle read) validated by residual on every recorded call; PSD of kernel Gram matrices is a hypothesis. The chol contract is "
          "satisfiable: lib/MxChol.v constructs the Cholesky factor of every spd matrix over any real closed field (C01_chol_contract_satisfiable). Dispatch theorem lives in C15/C02."),
    technique="Coq MathComp proof over translator-generated generic matrix definitions + PrimFloat execution of the same definitions",
    design="4/C01")
CHECKS["C16"] = dict(
    text=("Theorems (12 obligations): weights of the full and DTC families are linear in (y - mu), hence pred(a y + b, a mu + b) = a pred + b; "
          "column independence; interpolation identity pred(X) - y = -jitter * w for y_is_mean or sigma^2 <= jitter (full) and the DTC analogue; "
          "constant vector sigma = scalar sigma; requesting uncertainty never changes the weights; the in-sample deviation from the prior mean shrinks "
          "monotonically (squared norm) as |sigma| grows (thm/ShrinkThm.v); the Cholesky contract is satisfiable (lib/MxChol.v). Real FunctionEstimator fits over scalings a in +-[1e-3,1e3], 1-5 columns, with/without Xnew, "
          "multi_fit_predict, checked against the proved identities with derived tolerances."),
    note=("Trusted: as C01. Known C15 findings (landmarks + uncertainty / vector sigma) are excluded."),
    technique="Coq MathComp proof over translator-generated definitions + PrimFloat execution + real fits",
    design="4/C16")
CHECKS["C04"] = dict(
    text=("Theorems (13 obligations): full: L L^T = K + max(sigma^2,j) I; inducing points: L L^T = K_xu (K_uu + j I)^-1 K_ux (recomputed and "
          "supplied Lp); full Nystroem: gap = discarded eigen-part, PSD; improved Nystroem factor identity; (K + j I) - L L^T is PSD via the Schur "
          "complement under the joint-Gram PSD hypothesis. PrimFloat execution of the generated decomposition routines on recorded Gram matrices, "
          "eigh/qr outputs recorded and contract-checked; NumPy oracle for residuals and the minimum eigenvalue of the gap."),
    note=("Trusted: as C01 plus eigh/qr contracts (validated per call; the eigen contract is claimed only for p <= rank W and the QR contract for k = min(n, m)). "
          "The spectral theorem for symmetric matrices over a real closed field is proved (lib/MxSpectral.v, C04_spectral_theorem) and yields the "
          "eigen contract's decomposition for every p <= rank W by Householder deflation (C04_eig_contract_instances_exist), rank W = number of positive eigenvalues (C04_rank_is_positive_eigen_count); the reduced-QR contract is proved satisfiable (Householder QR, C04_qr_contract_satisfiable). "
          "W^-1 = v S^-1 v^T for the improved Nystroem inner matrix is not proved. "
          "Shapes of error branches are covered by C15."),
    technique="Coq MathComp proof (Schur complement) over translator-generated definitions + PrimFloat execution",
    design="4/C04")
CHECKS["C06"] = dict(
    text=("Theorems (13 obligations): posterior covariance symmetric PSD, diag path = diagonal of the full path, 0 <= var <= k(x,x), covariance at "
          "conditioning points N - N (K+N)^-1 N hence in [0, jitter], the three families share the covariance body, mean_covariance is the Gram "
          "matrix of K_su W, W is the linear propagator of the input covariance factor (incl. latent std form); adding inducing points never "
          "increases the covariance (Loewner order, hence no variance: variational bound for x^T A^-1 x, thm/MonoThm.v); the Cholesky contract is "
          "satisfiable (lib/MxChol.v constructs the factor of every spd matrix by recursion on the dimension). PrimFloat execution + NumPy "
          "oracle (symmetry, eigenvalues, diag agreement, bounds, propagation by refitting with shifted y)."),
    note=("Trusted: as C01 plus translate/pyunc.py (the three `uncertainty` wrappers of base_predictor.py, regenerated every run: "
          "uncertainty = covariance + mean_covariance, symmetric PSD, diag form = diagonal). The ValueError guards of the public wrappers are covered by execution only."),
    technique="Coq MathComp proof over translator-generated definitions + PrimFloat execution",
    design="4/C06")
CHECKS["C09"] = dict(
    text=("Theorems (7 obligations), landmarks = cells: L_s L_s^T = (K + j I) - 2 j I + j^2 A'^-1 with the Loewner sandwich; Cholesky-latent vs "
          "full prediction differ by j K_*x A'^-1 w; DTC vs full weights identity; the three covariance bodies coincide; truncation error = "
          "discarded eigen-part (PSD, trace = discarded mass); a full-rank request (all n pairs) gives L L^T = K + j I = the full model's. "
          "PrimFloat execution + real triples of formulations on identical data."),
    note=("Trusted: as C01/C04. The eigen contract is claimed only for p <= rank W (a psd matrix has exactly rank W positive eigenvalues; the C10 count rule "
          "keeps no more) - its satisfiability is the spectral theorem, which is not proved here. Spectral-norm statements are replaced by Loewner/trace forms."),
    technique="Coq MathComp proof over translator-generated definitions + PrimFloat execution",
    design="4/C09")
CHECKS["C07"] = dict(
    text=("Theorems (Coq): the whole predictor state (every state variable, n_obs, n_input_features, _state_variables, kernel expression) "
          "of each of the nine classes survives to_dict/to_json -> from_dict/from_json (built on C19's value and kernel round-trip theorems, "
          "unbounded nesting); re-serialising a restored value gives the content that was read; for every filename text, str or Path, and "
          "compress in {None,gzip,bz2} the file written by to_json is read back by from_json with the codec it was written with, by keyword "
          "and by extension alone (theorems over py_to_json/py_from_json regenerated from base_predictor.py every run). Execution: 11+ fitted "
          "predictors covering the 9 classes with uncertainty: serialised and restored state compared exactly with the model in Coq; ~300 "
          "round trips (dict, JSON string, copy, files x codecs x filename forms, pre-1.4.0 dictionaries, extreme/NaN state values) checked "
          "for bit-identical outputs of all evaluation and derivative methods, preserved metadata, equal re-serialisation, no aliasing."),
    note=("Trusted: Coq kernel; hand-written state model lib/Serial.v (tie = exact correspondence); pylogic_io translator for the codec logic "
          "(json/gzip/bz2/open opaque); packaging.version verdict is an oracle. The pre-1.4.0 upgrade is an executable model compared with the "
          "implementation, not a general theorem; copy() freshness and bit-identity of evaluation are runtime facts checked by execution "
          "(partial). Observation (excluded by hypothesis `contradictory`): a Path named *.gz written with compress='bz2' is read as gzip "
          "even when compress='bz2' is passed."),
    technique="Coq proof over hand-written state model + translator-generated codec functions + exact vm_compute correspondence + execution",
    design="4/C07")
CHECKS["C14"] = dict(
    text=("Theorems (19 obligations): the per-time-point loop (hand model whose statement skeleton is checked against the AST every run) puts at "
          "position i the group factor times the nearest-neighbour value of the cells sharing i's time stamp, in the original order, for any "
          "number of cells and time points (induction over the fold with a filled-positions invariant); singleton groups are refused; unique "
          "times ascending and covering; factor = powf(n_t/N_t) with exponent 1/d or 1/d_i; N_t = average (True), dict entry, j-th entry of "
          "the ascending unique times (list/array); missing keys / wrong lengths (list, JAX and NumPy arrays) refused; n_obs = average target "
          "count; the length-scale heuristic uses raw distances; explicit nn_distances untouched. Generated each run: _get_target_cell_count, "
          "validate_normalize_parameter, compute_average_cell_count, the routine's prologue, the estimator wiring, three structural tables. "
          "~1100 calls compared exactly (grouping, counts, order) or within a derived bound (factor) with the model and a brute-force oracle."),
    note=("Trusted: Coq kernel; pylogic(+c14) translator; the loop is hand-written (skeleton table + correspondence); powf and the KD/Ball-tree "
          "search are Section parameters (tree contract checked against brute force on every recorded call). The top-level composition is "
          "proved for the raw column form; the normalised case at loop level plus factor lemmas. Four defects fixed in /repo."),
    technique="Coq proof (fold invariant) over translator-generated Gallina + hand loop model + exact vm_compute correspondence",
    design="4/C14")
CHECKS["C18"] = dict(
    text=("Theorems (10 obligations) about a symbolic state machine of the staged API parametric in tables regenerated each run (prepare order, "
          "reads of every _compute_X following helpers, writes of each stage, process stages, lazy predictor properties, fit body, guards of "
          "set_x / prepare_inference / fit_predict over object identities): order_respects_deps (vm_compute over the three tables); the "
          "canonical-value invariant is preserved by every step and therefore holds after EVERY operation list (induction, no length bound); "
          "whatever is present after any staged sequence equals the one-shot value; fit(x) sets everything; any preset subset of "
          "intermediates keeps the invariant; all nine guards refuse a different object with ValueError. Execution: all call sequences up to "
          "length 3 (DensityEstimator; length 2 + samples for the others) and preset subsets on real estimators, compared exactly in Coq "
          "(outcome class, which attributes are set, bitwise equality with the one-shot fit)."),
    note=("Trusted: Coq kernel; translator/table extraction; the interpreter is hand-written once; cached values are symbolic (numerical content "
          "is covered by the bitwise comparison with the one-shot fit). Quick tier is exhaustive to length 3 only for DensityEstimator; the "
          "thorough tier uses state-signature pruning to length 5. Stricter-than-required refusal of the original NumPy array after binding is "
          "not a violation."),
    technique="Coq proof (invariant over all operation lists) over generated tables + hand interpreter + exact vm_compute correspondence",
    design="4/C18")
CHECKS["C02"] = dict(
    text=("Theorems (16 obligations): the generated tails of Predictor.mean / PredictorTime.mean give m - ln(n_obs) with normalize (ValueError "
          "exactly when n_obs is None or 0); ExpPredictor returns exp(m) > 0 and m for logscale; for each estimator's predictor setter, over the "
          "generated _compute_Lp/_compute_L/compute_L/_predictor_landmarks and the three dispatchers with recorded constructor arguments: full "
          "types get a full predictor on the cells, sparse_nystroem the DTC family for any latent size, sparse_cholesky/fixed the "
          "Cholesky-latent family with the SAME landmark factor that produced L (dispatch_matches_factor; false on the pinned tree, two fix "
          "commits); n_obs specs; order facts; plus the MathComp identities chol_insample_exact, full_insample_error = -j w, dtc_insample_error. "
          "~47 real fits over estimator x gp_type x landmark forms x rank forms check the identities with the PROVED bounds (never tuned)."),
    note=("Trusted: Coq kernel; pymean/pysym/pymatrix translators; factorisation routines and constructors are uninterpreted in the dispatch "
          "theorems (their algebra is C01/C04's); _prepare_attribute/process_inference enter as order tables."),
    technique="Coq proof over translator-generated Gallina (mean tails, dispatch with constructor arguments) + MathComp identities + exact vm_compute correspondence + real fits",
    design="4/C02")
CHECKS["C08"] = dict(
    text=("Theorems (27 obligations) over the generated world-A definitions and MathComp matrices: squared distances, distance entries, Gram "
          "matrices, nearest-neighbour distances, ls, mu, the factor, the loss at every z and the start target are EQUAL under isometries "
          "(orthogonal map + translation); under scaling by a>0: nn -> a nn, ls -> a ls, mle and mu shift by -d ln a, "
          "Gram_eps(aX; a ls) = Gram_{eps/a^2}(X; ls) (the 1e-12 regulariser is absolute - stated exactly), loss_aX(z) = loss_X(z) + n ln a, "
          "fitted values shift; affine time change with ls_time scaled leaves the time kernel unchanged and scales time derivatives by 1/a; "
          "Gram(PX) = P Gram(X) P^T and objective/loss permutation laws. ~50 pairs of real fits on transformed data check the inference "
          "problem tightly and the optimised values with a tolerance tied to the optimiser (support)."),
    note=("Trusted: as C05/C03/C01. Uniqueness of the minimiser is now a theorem (C08_objective_min_unique: K+jI spd and a midpoint-concave likelihood term give a strictly convex function-space objective; "
          "C08_fitted_follow_permutation: every minimiser of the reordered problem is the reordered minimiser; instantiated at Coq's R with the generated nn_term - "
          "C08_nn_fitted_follow_permutation, which adds Epsilon.epsilon_statement through lib/Rstruct.v); and existence too at R (C08_nn_fitted_values_well_defined: exactly one minimiser, g minimises the reordered problem iff g = P f; Cholesky factor + latent-coordinate existence of thm/AExistThm.v); the isometry/scaling laws over lists and the MathComp "
          "development are otherwise not formally connected; C08 has no Coq correspondence run of its own (the tie is that of C05 and C03). KNOWN "
          "FINDING: the DimensionalityEstimator is not scale-equivariant (poisson_term_scale shows why)."),
    technique="Coq proof (Reals/Coquelicot + MathComp) over generated world-A definitions + real-fit pairs",
    design="4/C08")
CHECKS["C12"] = dict(
    text=("Theorems (22 obligations) over a wiring table regenerated from base_predictor.py / derivatives.py / conditional.py every run: for "
          "each of the nine classes gradient is jacrev of exactly the function obtained by calling the predictor (state coordinates, time "
          "fixed), time_derivative is the last component of the full gradient on the merged row, hessian is jacfwd(jacrev) of the same "
          "function, the log-determinant is the slogdet of exactly the matrix hessian returns; method resolution and shape rules "
          "((n,d), (n,d,d), (n,); multi-column forms); under the autodiff contract the returned entries are the true first and second "
          "partial derivatives (Coquelicot is_derive); d mean/dx* = sum_j w_j dk/dx*(x*, b_j) for every kernel expression tree (composing "
          "C11's kgrad_correct), incl. the exp(mean) factor for positive-valued predictors; Schwarz symmetry under its premises. Execution: "
          "nine fitted classes x kernels x 1..6 features x jit on/off against central/second finite differences of the CALLED value with "
          "derived step and tolerance, Hessian symmetry, numpy slogdet, shapes compared exactly with the Coq shape model."),
    note=("Trusted: Coq kernel + real-number axioms; table extractor translate/c12_wiring.py; the autodiff contract (jacrev/jacfwd are Section "
          "hypotheses, validated on a closed-form function and by finite differences each run); slogdet uninterpreted (compared with NumPy). "
          "PARTIAL: Hessian symmetry / second-derivative values rest on the contract + numerical support. One defect fixed in /repo "
          "(ExpPredictor.gradient)."),
    technique="Coq proof over AST-generated wiring tables + autodiff contract + Coquelicot derivatives + finite-difference oracle",
    design="4/C12")
CHECKS["C17"] = dict(
    text=("What a theorem can carry is the wiring and the shape of the problem, not SciPy's line search. Theorems (16 obligations) over tables "
          "regenerated from inference.py / base_model.py: optimiser dispatch and ValueError for unknown names; which result field lands in "
          "which estimator attribute; L-BFGS-B: pre_transformation = params, losses = [fun_val], and with the L-BFGS-B contract "
          "loss(pre_transformation) = reported <= loss(initial); Adam/ADVI traces have exactly n_iter entries for every n_iter (induction over "
          "a loop model whose skeleton is the generated table), parameters are read after the last step, ADVI keys are the distinct loop "
          "indices, std = exp(log_std) > 0; no unseeded randomness on the inference path (table theorem). Execution (labelled as tests): "
          "3 optimisers x jit x gp types x n_iter grid: objective vs an independent NumPy formula, non-increase, reported loss, gradient-norm "
          "ratio, trace prefix property, bit-identical repeats in-process and in two fresh interpreters, jit on/off agreement."),
    note=("Trusted: Coq kernel; table extractor translate/c17_tables.py; SciPy L-BFGS-B contract. PARTIAL / RUNTIME: optimiser quality, "
          "cross-process bit-reproducibility and jit agreement are properties of SciPy/XLA executions - tested, not proved; the generated objective IS proved strictly and 1-strongly convex with at most one minimiser and quadratic growth "
          "around it (C17_loss_strictly_convex / _strongly_convex / _minimiser_unique / _quadratic_growth) and to HAVE exactly one minimiser (C17_loss_has_unique_minimiser: bounded below, minimising sequence Cauchy by strong convexity, completeness of R^k, continuity; uses Epsilon.epsilon_statement of the standard library for the choice of the sequence); jit difference after 2..100 Adam/ADVI steps is asserted against the margin 1e-6 (1 + |z|) (a labelled test margin, not a derived bound; 0 to 3e-15 on the unchanged tree), longer runs are measured only; one run length per optimiser is off every usual block size."),
    technique="Coq proof over AST-generated tables + loop-model induction + optimiser contract; runtime clauses by execution",
    design="4/C17")
NOT_YET = {}
