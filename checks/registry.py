"""Per-property manifest data (bin/mkmanifest turns this into MANIFEST.json)."""
PROOF = "proof"
CHECKS = {
    "C10": dict(
        text=("Theorems (Coq, all spectra of every size, all fractions in (0,1], all integer ranks) about the Gallina model that is "
              "regenerated from mellon/decomposition.py:_eigendecomposition on every run: kept count = least c with leading sum >= f*total "
              "(and >= 1, <= #positive), = min(r,#positive) for integers, kept entries are the largest, monotone in the request; "
              "the model is additionally executed in Coq on >1000 recorded calls of the real routine and compared exactly."),
        note=("Trusted: Coq kernel; the Python-ast translator (validated by the executable correspondence); eigh returning ascending "
              "eigenvalues (checked on every recorded call); jnp.searchsorted = left binary search; float rounding in cumsum/product "
              "(boundary cases are skipped and counted). The world-B clause 'retained factor reproduces those eigenpairs' is proved in C04's files."),
        technique="Coq proof over translator-generated Gallina model + exact vm_compute correspondence",
        design="4/C10"),
}
CHECKS["C15"] = dict(
    text=("Theorems (Coq, all n, n_landmarks, landmark counts, ranks int/float/None, all 5 types and every name string) about the "
          "Gallina functions regenerated each run from compute_rank/compute_n_landmarks/compute_gp_type/validate_params(+3 helpers)/"
          "from_string/compute_landmarks/compute_Lp/compute_conditional/_predictor_landmarks: closed form of the whole resolution pipeline, "
          "refused-or-exactly-one-consistent-type, documented inference rules, name matching, predictor class = family of the type; "
          "the pipeline model is executed in Coq on the exhaustive 6336-point grid of the property text against the real estimator "
          "objects (exact comparison) and on real fits."),
    note=("Trusted: Coq kernel; translator; hand model of _prepare_attribute and of FunctionEstimator.__init__'s rank/nystroem rule (tied by the "
          "exhaustive correspondence); k_means/_full_rank opaque. The shape-and-kind model of the constructors planned in DESIGN.md was "
          "replaced by real fits (sampled, stratified): internal errors inside constructors are found by execution, not by theorem. "
          "Two FunctionEstimator findings are listed in known_findings.jsonl."),
    technique="Coq proof over translator-generated Gallina model + exhaustive exact vm_compute correspondence + real fits",
    design="4/C15")
NOT_YET = {}
