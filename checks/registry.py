"""Per-property manifest data (bin/mkmanifest turns this into MANIFEST.json)."""
PROOF = "proof"
CHECKS = {
    "C10": dict(
        text=("Theorems (Coq, all spectra of every size, all fractions in (0,1], all integer ranks) about the Gallina model that is "
              "regenerated from mellon/decomposition.py:_eigendecomposition on every run: kept count = least c with leading sum >= f*total "
              "(and >= 1, <= #positive), = min(r,#positive) for integers, kept entries are the largest, monotone in the request; "
              "the model is additionally executed in Coq on >1000 recorded calls of the real routine and compared exactly."),
        note=("Trusted: Coq kernel; the Python-ast translator (validated by the executable correspondence); eigh returning ascending "
              "eigenvalues (checked on every recorded call); jnp.searchsorted = left binary search; float rounding in cumsum/product "
              "(boundary cases are skipped and counted). The world-B clause 'retained factor reproduces those eigenpairs' is proved in C04's files."),
        technique="Coq proof over translator-generated Gallina model + exact vm_compute correspondence",
        design="4/C10"),
}
CHECKS["C15"] = dict(
    text=("Theorems (Coq, all n, n_landmarks, landmark counts, ranks int/float/None, all 5 types and every name string) about the "
          "Gallina functions regenerated each run from compute_rank/compute_n_landmarks/compute_gp_type/validate_params(+3 helpers)/"
          "from_string/compute_landmarks/compute_Lp/compute_conditional/_predictor_landmarks: closed form of the whole resolution pipeline, "
          "refused-or-exactly-one-consistent-type, documented inference rules, name matching, predictor class = family of the type; "
          "the pipeline model is executed in Coq on the exhaustive 6336-point grid of the property text against the real estimator "
          "objects (exact comparison) and on real fits."),
    note=("Trusted: Coq kernel; translator; hand model of _prepare_attribute and of FunctionEstimator.__init__'s rank/nystroem rule (tied by the "
          "exhaustive correspondence); k_means/_full_rank opaque. The shape-and-kind model of the constructors planned in DESIGN.md was "
          "replaced by real fits (sampled, stratified): internal errors inside constructors are found by execution, not by theorem. "
          "Two FunctionEstimator findings are listed in known_findings.jsonl."),
    technique="Coq proof over translator-generated Gallina model + exhaustive exact vm_compute correspondence + real fits",
    design="4/C15")
CHECKS["C13"] = dict(
    text=("Theorems (Coq, all n, d, all values) about the Gallina validate_time_x/validate_array regenerated each run: every per-row form "
          "(vector, column vector, list) and the trailing-column form give the same merged matrix; every scalar form (float, int, 0-d, "
          "(1,), (1,1)) is the broadcast; wrong length / feature count / missing time are ValueErrors; generated tables prove all 8 "
          "time-aware methods are multi_time-wrapped, default time=None, start with the merge and never read the raw arguments again. "
          "The model is executed in Coq on ~1000 (form x size x flag) cases incl. a malformed stream and compared bit-exactly with the "
          "implementation; real predictors of the 3 time-aware classes are called with every form (bitwise equality) and multi_time."),
    note=("Trusted: Coq kernel; translator; list semantics of jnp.isscalar/asarray/full/squeeze/reshape/concatenate in PyVal.v (compared "
          "exactly on every run); the multi_time wrapper is tied by a generated fact table + execution, not translated. Three defects "
          "were fixed in /repo (list / (1,1) time forms; missing time=None defaults)."),
    technique="Coq proof over translator-generated Gallina model + exact vm_compute correspondence + structural tables",
    design="4/C13")
CHECKS["C20"] = dict(
    text=("Theorems (Coq) about the Gallina validators regenerated each run from mellon/validation.py: validate_nn_distances on a vector of "
          "ANY length with any pattern of NaN/+-inf/0/negative entries returns ValueError when no entry is valid and otherwise the same-length "
          "vector with valid entries untouched and all others replaced by the smallest valid entry; validate_bool/positive_int/positive_float/"
          "float_or_int/float characterised for EVERY value of the value universe (accepted values have the promised kind, NaN refused, every "
          "refusal is the documented exception class). The models are executed in Coq on the property's value grammar and on all dirty "
          "patterns up to length 3 and compared exactly; dirty-data fits check finiteness (support)."),
    note=("Trusted: Coq kernel; translator; CPython/JAX primitive semantics of PyVal.v (exact comparison each run). Float overflow on accepted "
          "inputs and the 'no NaN predictions' clause are runtime facts covered by the fits only (partial). domain_safe of DESIGN.md is part of C03."),
    technique="Coq proof over translator-generated Gallina model + exact vm_compute correspondence + dirty-data fits",
    design="4/C20")
CHECKS["C19"] = dict(
    text=("Theorems (Coq, structural/mutual induction, unbounded nesting depth) about a Gallina model of make_serializable / deserialize / "
          "json round trip / Covariance state capture and restore: every value of the property's grammar (scalars incl. NaN, +-inf, -0.0, numpy "
          "scalars, JAX and NumPy arrays of any rank, shape (also empty) and dtype float64/int64/bool, slices, sets, nested dicts) and every "
          "covariance expression (any depth, kernel or scalar right operand, any active_dims form on every node) is restored; non-kernel input "
          "is refused with ValueError. The model is hand-written; it is executed in Coq on ~470 grammar-generated values and kernel expressions "
          "and every intermediate (serialised form, JSON round trip, restored object) is compared exactly with the implementation, which is "
          "also checked against the property statement (bitwise value/shape/dtype; identical k and k_grad)."),
    note=("Trusted: Coq kernel; the hand-written model lib/Serial.v (tie = executable correspondence only, no translator: the functions are "
          "recursive and comprehension-based); CPython json behaviour as modelled by json_rt. 0-d integer JAX arrays and dict keys that are not "
          "str are covered by the correspondence run but excluded from the theorem's grammar. Two defects were fixed in /repo (NumPy arrays; "
          "dtype/shape of empty arrays)."),
    technique="Coq proof (mutual induction) over hand-written Gallina model + exact vm_compute correspondence",
    design="4/C19")
NOT_YET = {}
