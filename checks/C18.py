"""C18 — staged, cached and repeated use equals one-shot fitting.

Model.  GENERATED on every run from /repo: for each of the three inference estimators the ordered
prepare_inference list, for every _compute_X / stage the self.* state attributes it reads and writes,
the stages of process_inference (always / with build_predict), the lazy predictor properties, the body of
fit; and (translate/pylogic_c14.py) the guards of BaseEstimator.set_x, <Estimator>.prepare_inference and
<Estimator>.fit_predict as Gallina functions over object identities (validate_array / validate_time_x are
a function parameter: a float JAX array is returned unchanged, anything else becomes a new object).
HAND-WRITTEN once (coq/lib/C18Machine.v): the interpreter of the staged API over symbolic attribute values,
parametric in those tables and guards; it is tied to the code by the reflexive side condition
order_respects_deps (vm_compute over the generated tables), by the guard translations, and by the
executable correspondence below (every call sequence, exact comparison of outcomes and of which
attributes are set).  The optimiser, the kernels etc. are not modelled: a cached attribute is the symbolic
value "what its _compute_ method yields from canonical inputs".
"""
import ast
import json
import os
import copy
import itertools
import logging
import random
import re

import numpy as np

from translate.pylogic import Unsupported, Module, coq_string
from translate.pylogic_c14 import Translator14, skeleton
from vlib import enc
from vlib.core import Broken, TRUSTED_COMMON, REPO

ESTS = {
    "DensityEstimator": "mellon/density_estimator.py",
    "TimeSensitiveDensityEstimator": "mellon/time_sensitive_density_estimator.py",
    "DimensionalityEstimator": "mellon/dimensionality_estimator.py",
}
IGNORE = {"pre_transformation_std", "opt_state", "losses", "densities", "predictors", "numeric_stages"}
CACHEABLE = ["nn_distances", "d", "mu", "ls", "cov_func", "landmarks", "Lp", "L", "initial_value"]
IMPORTS = "PyVal C18Machine C18Gen"


# ---------------------------------------------------------------------------
# structural tables

def class_methods(relpath, cls):
    base = Module(REPO, "mellon/base_model.py").classes["BaseEstimator"]
    sub = Module(REPO, relpath).classes[cls]
    if [ast.unparse(b) for b in sub.bases] != ["BaseEstimator"]:
        raise Unsupported("%s: bases changed" % cls)
    ms = {}
    for c in (base, sub):
        for n in c.body:
            if isinstance(n, ast.FunctionDef):
                ms[n.name] = n
    return ms


def self_loads(fn, ms, depth=0):
    out = set()
    for n in ast.walk(fn):
        if isinstance(n, ast.Attribute) and isinstance(n.value, ast.Name) and n.value.id == "self" and isinstance(n.ctx, ast.Load):
            out.add(n.attr)
        if isinstance(n, ast.Call) and isinstance(n.func, ast.Name) and n.func.id == "getattr":
            raise Unsupported("%s: getattr" % fn.name)
    # helper methods called on self (e.g. _predictor_landmarks)
    for name in list(out):
        if name in ms and depth < 3 and not name.startswith("_compute_") and name != fn.name \
                and name not in ("_prepare_attribute", "set_x", "validate_parameter"):
            out |= self_loads(ms[name], ms, depth + 1)
    return out


def self_stores(fn):
    out = []
    for n in ast.walk(fn):
        if isinstance(n, ast.Attribute) and isinstance(n.value, ast.Name) and n.value.id == "self" and isinstance(n.ctx, ast.Store):
            if n.attr not in out:
                out.append(n.attr)
    return out


def self_calls(stmts):
    """names of `self.m()` expression statements, in order; anything else must be absent"""
    out = []
    for st in stmts:
        if isinstance(st, ast.Expr) and isinstance(st.value, ast.Constant):
            continue
        if isinstance(st, ast.Expr) and isinstance(st.value, ast.Call) and isinstance(st.value.func, ast.Attribute) \
                and isinstance(st.value.func.value, ast.Name) and st.value.func.value.id == "self" and not st.value.args \
                and not st.value.keywords:
            out.append(st.value.func.attr)
        else:
            raise Unsupported("unexpected statement %s" % ast.unparse(st)[:60])
    return out


def build_table(cls, relpath):
    from checks.C15 import prepare_order
    ms = class_methods(relpath, cls)
    order = prepare_order(relpath, cls)
    attrs = [a for a in order if a not in ("SET_X", "VALIDATE")]
    for a in attrs:
        if "_compute_" + a not in ms:
            raise Unsupported("%s: no _compute_%s" % (cls, a))
    # _prepare_attribute itself: compute only when None
    pa = skeleton(ms["_prepare_attribute"].body)
    if pa != ["if getattr(self, attribute) is not None:", "> return", "function_name = '_compute_' + attribute",
              "function = getattr(self, function_name)", "value = function()", "setattr(self, attribute, value)"]:
        raise Unsupported("_prepare_attribute changed: %r" % (pa,))
    # process_inference
    pi = [st for st in ms["process_inference"].body if not (isinstance(st, ast.Expr) and isinstance(st.value, ast.Constant))]
    always, build = [], []
    for st in pi:
        if isinstance(st, ast.If) and ast.unparse(st.test) == "pre_transformation is not None":
            continue
        if isinstance(st, ast.If) and ast.unparse(st.test) == "build_predict" and not st.orelse:
            build += self_calls(st.body)
        elif isinstance(st, ast.Return):
            continue
        else:
            always += self_calls([st])
    # run_inference must call _run_inference after the optional overrides
    ri = skeleton(ms["run_inference"].body)
    if "self._run_inference()" not in ri or any(s.startswith("self._") and s != "self._run_inference()" for s in ri):
        raise Unsupported("run_inference changed: %r" % (ri,))
    stages = ["_run_inference"] + always + build
    writes = {}
    for nm in stages:
        writes[nm] = [w for w in self_stores(ms[nm]) if w not in IGNORE]
    universe = list(attrs)
    for nm in stages:
        for w in writes[nm]:
            if w not in universe:
                universe.append(w)
    known = set(universe) | {"x"}
    reads = {}
    optional = {}
    vpos = order.index("VALIDATE") if "VALIDATE" in order else 0
    for a in attrs:
        r = (self_loads(ms["_compute_" + a], ms) & known) - {a}      # self.a is None whenever _compute_a runs
        if order.index(a) < vpos:
            # option resolution block (n_landmarks / rank / gp_type, consistency proved in C15): attributes that come later
            # are read as the user's optional constructor arguments (None = not given), not as prepared values
            later = {b for b in r if b != "x" and (b not in order or order.index(b) > order.index(a))}
            optional[a] = sorted(later)
            r -= later
        reads[a] = sorted(r)
    rv = self_loads(ms["validate_parameter"], ms) & known
    later = {b for b in rv if b != "x" and (b not in order or order.index(b) > vpos)}
    optional["VALIDATE"] = sorted(later)
    reads["VALIDATE"] = sorted(rv - later)
    for nm in stages:
        reads[nm] = sorted((self_loads(ms[nm], ms) & known) - set(writes[nm]))
    # lazy predictor properties
    predicts = []
    for name, fn in ms.items():
        if any(isinstance(d, ast.Name) and d.id == "property" for d in fn.decorator_list):
            sk = skeleton(fn.body)
            m = re.fullmatch(r"if self\.(\w+) is None:", sk[0]) if sk else None
            if m and len(sk) == 3 and sk[1] == "> self.%s()" % ("_set_" + m.group(1)) and sk[2] == "return self.%s" % m.group(1):
                predicts.append((name, m.group(1), "_set_" + m.group(1)))
            elif any("_set_" in s for s in sk):
                raise Unsupported("%s.%s: property shape %r" % (cls, name, sk))
    fit = [s.replace("(x, times)", "(x)") for s in skeleton(ms["fit"].body)]
    return dict(order=order, attrs=attrs, reads=reads, optional_reads=optional, writes=writes, always=always, build=build, predicts=predicts, fit=fit,
                universe=universe, stages=stages)


def coq_list(items):
    return "[%s]" % "; ".join(coq_string(s) for s in items)


def table_text(cls, t):
    rd = "; ".join("(%s, %s)" % (coq_string(k), coq_list(v)) for k, v in t["reads"].items())
    wr = "; ".join("(%s, %s)" % (coq_string(k), coq_list(v)) for k, v in t["writes"].items())
    pr = "; ".join("(%s, %s)" % (coq_string(a), coq_string(s)) for _, a, s in t["predicts"])
    return ("Definition table_%s : table := {|\n  t_order := %s;\n  t_reads := [%s];\n  t_writes := [%s];\n  t_process_always := %s;\n"
            "  t_process_build := %s;\n  t_predicts := [%s];\n  t_fit := %s |}.\nDefinition universe_%s : list string := %s.\n"
            % (cls, coq_list(t["order"]), rd, wr, coq_list(t["always"]), coq_list(t["build"]), pr, coq_list(t["fit"]), cls,
               coq_list(t["universe"])))


def has_self_call(st, name):
    for n in ast.walk(st):
        if isinstance(n, ast.Call) and isinstance(n.func, ast.Attribute) and isinstance(n.func.value, ast.Name) \
                and n.func.value.id == "self" and n.func.attr == name:
            return True
    return False


def wrapper(defname, text):
    """fun validate sx x => <defname> args..., by the parameter names of the generated definition"""
    m = re.search(r"Definition %s (.*?) : res val :=" % re.escape(defname), text)
    params = re.findall(r"\((\w+) : [^)]*\)", m.group(1))
    amap = {"validate": "v_", "validate_tx": "v_", "x": "x_", "self_x": "sx_", "times": "VNone", "build_predict": "(VBool false)"}
    args = []
    for p in params:
        if p not in amap:
            raise Unsupported("guard %s reads %s" % (defname, p))
        args.append(amap[p])
    return "(fun v_ sx_ x_ => %s %s)" % (defname, " ".join(args))


def translate():
    tr = Translator14(REPO)
    fo = {"validate_array": "validate", "validate_time_x": "validate_tx"}
    tr.translate("mellon.base_model.BaseEstimator.set_x", coq_name="c18_set_x", fun_oracles=fo)
    names = {}
    for cls, rel in ESTS.items():
        q = rel[:-3].replace("/", ".") + "." + cls
        names[cls] = ("c18_prepare_guard_" + cls, "c18_fit_predict_guard_" + cls)
        tr.translate_slice(q + ".prepare_inference", names[cls][0], None, ["x"], fun_oracles=fo,
                           stop_pred=lambda st: has_self_call(st, "set_x"))
        tr.translate_slice(q + ".fit_predict", names[cls][1], None, ["x"], fun_oracles=fo,
                           stop_pred=lambda st: has_self_call(st, "fit"))
    text = tr.emit(header_imports=("PyVal", "PyValExtC14", "C18Machine"))
    # the slices return 1-tuples: unwrap in the wrappers
    info = {}
    text += "\n(* structural tables *)\n"
    for cls, rel in ESTS.items():
        t = build_table(cls, rel)
        info[cls] = t
        text += table_text(cls, t)
        un = "(fun r_ => bind r_ (fun t_ => match t_ with VTuple [y_] => Ok y_ | _ => Err OtherError end))"
        text += ("Definition guards_%s : guards := {|\n  g_set_x := %s;\n  g_prepare := fun v_ sx_ x_ => %s (%s v_ sx_ x_);\n"
                 "  g_fit_predict := fun v_ sx_ x_ => %s (%s v_ sx_ x_) |}.\n\n"
                 % (cls, wrapper("c18_set_x", text), un, wrapper(names[cls][0], text), un, wrapper(names[cls][1], text)))
    funcs = ["mellon.base_model.BaseEstimator.set_x"] + [c + ".prepare_inference (guard)" for c in ESTS] + \
            [c + ".fit_predict (guard)" for c in ESTS] + ["tables: prepare order / reads / writes / process stages / lazy properties / fit body (3 estimators)",
                                                           "BaseEstimator._prepare_attribute (exact statement skeleton)"]
    return {"gen/C18Gen.v": text}, funcs, info


# ---------------------------------------------------------------------------
# running the real estimators

def ops_alphabet(t, thorough):
    xs = ["N", "X", "B", "F"] + (["J"] if thorough else [])
    ops = [("set_x", a) for a in (xs if thorough else ["X"])]
    ops += [("prepare", a) for a in (xs if thorough else ["N", "X"])]
    ops += [("run",), ("process", True), ("process", False)]
    ops += [("predict", i) for i in range(len(t["predicts"]))]
    ops += [("fit", a) for a in (xs if thorough else ["N", "X", "F"])]
    ops += [("fit_predict", a) for a in (xs if thorough else ["N", "X"])]
    return ops


def coq_op(o):
    arg = {"N": "ANone", "X": "(AOrig DX)", "F": "(AOrig DF)", "J": "(AJax DX)", "B": "ABound"}
    if o[0] == "set_x":
        return "OSetX %s" % arg[o[1]]
    if o[0] == "prepare":
        return "OPrepare %s" % arg[o[1]]
    if o[0] == "run":
        return "ORun"
    if o[0] == "process":
        return "OProcess %s" % ("true" if o[1] else "false")
    if o[0] == "predict":
        return "OPredict %d%%nat" % o[1]
    if o[0] == "fit":
        return "OFit %s" % arg[o[1]]
    return "OFitPredict %s" % arg[o[1]]


class World:
    def __init__(self, cls, kw, X, F, t):
        import jax.numpy as jnp
        self.cls, self.kw, self.t = cls, kw, t
        self.data = {"X": X, "F": F}
        self.J = jnp.asarray(X, dtype=float)
        self.Q = X[:5] + 0.125
        self.ref = {}
        self.memo = {}
        for k, D in self.data.items():
            e = cls(**kw)
            e.fit(D)
            self.ref[k] = e
        self.nullable = {a for a in t["universe"] if getattr(self.ref["X"], a, None) is None} | {a for a in t["universe"] if kw.get(a) is not None}

    def arg(self, est, a):
        return {"N": None, "X": self.data["X"], "F": self.data["F"], "J": self.J, "B": est.x}[a]

    def apply(self, est, o):
        if o[0] == "set_x":
            est.set_x(self.arg(est, o[1]))
        elif o[0] == "prepare":
            est.prepare_inference(self.arg(est, o[1]))
        elif o[0] == "run":
            est.run_inference()
        elif o[0] == "process":
            est.process_inference(build_predict=o[1])
        elif o[0] == "predict":
            getattr(est, self.t["predicts"][o[1]][0])
        elif o[0] == "fit":
            est.fit(self.arg(est, o[1]))
        else:
            est.fit_predict(self.arg(est, o[1]))

    def same(self, a, v, r):
        key = (a, id(v), id(r))
        hit = self.memo.get(key)
        if hit is not None and hit[0] is v:
            return hit[1]
        res = self.same_(a, v, r)
        self.memo[key] = (v, res)
        return res

    def same_(self, a, v, r):
        """bitwise equality of a cached attribute with the one-shot reference"""
        if a in ("transform", "loss_func"):
            return True                      # closures: compared through the values computed from them
        if a == "cov_func":
            return repr(v) == repr(r) and str(v) == str(r)
        if a.endswith("_func"):
            # "the same predictor": same class, same predictions, same normalisation count and feature count
            # (n_obs enters predict(.., normalize=True) and the serialised form)
            if not np.array_equal(np.asarray(v(self.Q)), np.asarray(r(self.Q))):
                return False
            if type(v) is not type(r):
                return False
            for meta in ("n_obs", "n_input_features"):
                mv, mr = getattr(v, meta, None), getattr(r, meta, None)
                if (mv is None) != (mr is None) or (mv is not None and float(mv) != float(mr)):
                    return False
            return True
        try:
            va, ra = np.asarray(v), np.asarray(r)
            if va.ndim == 0 and ra.ndim == 0:
                return bool(va == ra)        # a Python int handed back through the constructor becomes the equal float
            return va.shape == ra.shape and va.dtype == ra.dtype and np.array_equal(va, ra, equal_nan=True)
        except Exception:  # noqa
            return v == r

    def observe(self, est, bound):
        flags = [est.x is not None]
        equal = True
        diff = []
        for a in self.t["universe"]:
            v = getattr(est, a)
            flags.append(v is not None)
            if v is not None and bound is not None:
                if not self.same(a, v, getattr(self.ref[bound], a)):
                    equal = False
                    diff.append(a)
        return flags, equal, diff


def classify(exc):
    if exc is None:
        return "ok"
    return "ValueError" if type(exc).__name__ == "ValueError" else "NotReady"


def run(ctx):
    import mellon
    mellon.logger.setLevel(logging.CRITICAL)
    logging.getLogger("mellon").setLevel(logging.CRITICAL)
    nrng = np.random.default_rng(ctx.seed)
    rng = random.Random(ctx.seed)
    ctx.cov["trusted_base"] = TRUSTED_COMMON + [
        "the interpreter coq/lib/C18Machine.v is hand-written (tables and guards are generated); it is tied by order_respects_deps, by the guard translations and by the exhaustive executable correspondence",
        "a cached attribute is modelled as a symbolic value determined by the attributes its _compute_ method reads (generated reads table) and the constructor parameters; the numerical content (optimiser, kernels, factorisations) is NOT modelled here (C01-C17)",
        "object identity: validate_array / validate_time_x return a float JAX array unchanged and a new object otherwise (observed on every run through the rebinding outcomes)",
        "exceptions other than ValueError raised by not-yet-ready stages (TypeError / AttributeError from a None attribute) are identified as one class 'NotReady'",
    ]
    gen = None
    info = None
    try:
        gen, funcs, info = translate()
        ctx.cov["translated_functions"] = funcs
        ctx.build_props(gen)
    except Unsupported as u:
        ctx.broken.append(Broken("translation", "C18 targets", str(u)))
        gen = None
    if info is None:
        # the tables could not be regenerated (the code changed shape): the run-time search must still cover the class that
        # changed, so it falls back to the tables of the last tree on which the translation succeeded (committed snapshot,
        # used for choosing operations and the attributes to compare only - never for the model, which is skipped)
        info = {}
        snap = {}
        try:
            with open(os.path.join(os.path.dirname(os.path.abspath(__file__)), "c18_tables_snapshot.json")) as f:
                snap = json.load(f)
        except Exception:  # noqa
            pass
        for cls, rel in ESTS.items():
            try:
                info[cls] = build_table(cls, rel)
            except Exception:  # noqa
                if cls in snap:
                    info[cls] = snap[cls]
                    ctx.cov.setdefault("tables_from_snapshot", []).append(cls)

    n = 12
    X = nrng.normal(size=(n, 2))
    F = nrng.normal(size=(n, 2)) + 0.5
    # time points of unequal sizes and per-time-point normalisation switched on: nn_distances then differ from the
    # un-normalised distances the length-scale heuristic must use, also when nn_distances is handed in as an intermediate
    tcol = np.repeat([0.0, 1.0], [n // 3, n - n // 3])[:, None]
    base_kw = dict(optimizer="adam", n_iter=2, jit=False)
    confs = {"DensityEstimator": (mellon.DensityEstimator, {}, X, F),
             "TimeSensitiveDensityEstimator": (mellon.TimeSensitiveDensityEstimator, {"ls_time": 1.0, "normalize_per_time_point": True},
                                               np.concatenate([X, tcol], axis=1), np.concatenate([F, tcol], axis=1)),
             "DimensionalityEstimator": (mellon.DimensionalityEstimator, {"k": 3}, X, F)}
    maxlen = 5 if ctx.thorough else 3
    cases, meta, dist = [], [], {}
    nodes = 0
    pruned = 0
    preset_runs = 0
    for cls, (klass, extra, DX, DFo) in confs.items():
        if cls not in info:
            continue
        t = info[cls]
        kw = dict(base_kw, **extra)
        try:
            w = World(klass, kw, DX, DFo, t)
        except Exception as e:  # noqa
            ctx.violation("C18|one-shot|%s|%s" % (cls, type(e).__name__), "a plain one-shot fit fails",
                          {"estimator": cls, "kwargs": repr(kw), "exception": "%s: %s" % (type(e).__name__, str(e)[:200]),
                           "call": "%s(**kwargs).fit(x)" % cls, "x": DX.tolist()})
            continue
        alphabet = ops_alphabet(t, ctx.thorough)
        seen = {}

        def dfs(est, bound, seq, results):
            nonlocal nodes, pruned
            if len(seq) == maxlen:
                return
            for o in alphabet:
                e2 = copy.copy(est)
                was_unbound = e2.x is None
                exc = None
                try:
                    w.apply(e2, o)
                except Exception as ex:  # noqa
                    exc = ex
                nodes += 1
                b2 = bound
                if was_unbound and e2.x is not None:
                    b2 = "F" if (len(o) > 1 and o[1] == "F") else "X"
                flags, equal, diff = w.observe(e2, b2)
                res2 = results + [classify(exc)]
                seq2 = seq + [o]
                exp_flags = [f or (a in w.nullable and i > 0) for i, (f, a) in enumerate(zip(flags, ["x"] + t["universe"]))]
                cases.append(("run_enc table_%s guards_%s universe_%s init [%s]" % (cls, cls, cls, "; ".join(coq_op(x) for x in seq2)),
                              None, flags, res2, equal, b2))
                meta.append({"estimator": cls, "ops": [list(map(str, x)) for x in seq2], "impl": res2})
                key = "%s/len%d/%s" % (cls, len(seq2), res2[-1])
                dist[key] = dist.get(key, 0) + 1
                if not equal:
                    ctx.violation("C18|staged-differs|%s|%s" % (cls, ",".join(diff)),
                                  "a staged call sequence leaves cached values / fitted values / predictions that differ from the one-shot fit",
                                  {"estimator": cls, "kwargs": repr(kw), "ops": [list(map(str, x)) for x in seq2], "differing": diff,
                                   "x": DX.tolist(), "note": "X = the data as NumPy array, B = est.x, N = None, F = other data, J = float JAX array of X"})
                if ctx.thorough and len(seq2) >= 3:
                    sig = (tuple(flags), b2, e2.x is w.J, equal)
                    if seen.get(sig, -1) >= maxlen - len(seq2):
                        pruned += 1
                        continue
                    seen[sig] = maxlen - len(seq2)
                dfs(e2, b2, seq2, res2)
        full = ctx.thorough or cls == "DensityEstimator"
        if full:
            dfs(klass(**kw), None, [], [])
        else:
            maxlen = 2
            dfs(klass(**kw), None, [], [])
            maxlen = 3
            for _ in range(150):
                seq = [rng.choice(alphabet) for _ in range(3)]
                est, bound, res = klass(**kw), None, []
                for j, o in enumerate(seq):
                    was_unbound = est.x is None
                    exc = None
                    try:
                        w.apply(est, o)
                    except Exception as ex:  # noqa
                        exc = ex
                    nodes += 1
                    if was_unbound and est.x is not None:
                        bound = "F" if (len(o) > 1 and o[1] == "F") else "X"
                    res.append(classify(exc))
                flags, equal, diff = w.observe(est, bound)
                cases.append(("run_enc table_%s guards_%s universe_%s init [%s]" % (cls, cls, cls, "; ".join(coq_op(x) for x in seq)),
                              None, flags, list(res), equal, bound))
                meta.append({"estimator": cls, "ops": [list(map(str, x)) for x in seq], "impl": list(res)})
                if not equal:
                    ctx.violation("C18|staged-differs|%s|%s" % (cls, ",".join(diff)),
                                  "a staged call sequence leaves cached values / fitted values / predictions that differ from the one-shot fit",
                                  {"estimator": cls, "kwargs": repr(kw), "ops": [list(map(str, x)) for x in seq], "differing": diff, "x": DX.tolist()})
        # ---- presets: any subset of the cacheable intermediates of a fitted model reproduces it exactly
        import inspect
        ctor = set(inspect.signature(klass.__init__).parameters)
        names = [a for a in CACHEABLE if a in t["attrs"] and a in ctor and getattr(w.ref["X"], a, None) is not None]
        subsets = [s for r in range(len(names) + 1) for s in itertools.combinations(names, r)]
        if not ctx.thorough and cls != "DensityEstimator":
            subsets = rng.sample(subsets, 48)
        for S in subsets:
            kw2 = dict(kw, **{a: getattr(w.ref["X"], a) for a in S})
            o = enc.outcome(lambda: klass(**kw2).fit(DX))
            preset_runs += 1
            ok = o[0] == "ok"
            if ok:
                flags, equal, diff = w.observe(o[1], "X")
                ok = equal and all(f or (a in w.nullable) for f, a in zip(flags, ["x"] + t["universe"]))
            if not ok:
                ctx.violation("C18|presets|%s|%s" % (cls, "+".join(S)), "a fresh model given intermediates of a fitted one does not reproduce it",
                              {"estimator": cls, "kwargs": repr(kw), "preset": list(S), "x": DX.tolist(),
                               "observed": o[1] if o[0] == "err" else "values differ: %r" % (diff,)})
            cases.append(("run_enc table_%s guards_%s universe_%s (init_with DX %s) [OFit (AOrig DX)]" % (cls, cls, cls, "[%s]" % "; ".join(coq_string(a) for a in S)),
                          None, [True] * (1 + len(t["universe"])), ["ok"], True, "X"))
            meta.append({"estimator": cls, "preset": list(S), "impl": ["ok" if o[0] == "ok" else o[1]]})
        ctx.cov.setdefault("tables", {})[cls] = {"order": t["order"], "reads": t["reads"], "writes": t["writes"],
                                                 "process": [t["always"], t["build"]], "predicts": t["predicts"]}
        info[cls]["nullable"] = sorted(w.nullable)

    # ---- data that are ALMOST the bound data are still different data: refused with ValueError, never adopted silently
    near_runs = 0
    for cls, (klass, extra, DX, DFo) in confs.items():
        kw = dict(base_kw, **extra)
        for how, mk in (("float32 copy", lambda D: D.astype(np.float32)), ("scaled by 1 + 1e-6", lambda D: D * (1.0 + 1e-6)),
                        ("one entry moved by 1e-9", lambda D: D + 1e-9 * (np.arange(D.size).reshape(D.shape) == 3))):
            for opname in ("set_x", "prepare_inference", "fit", "fit_predict"):
                try:
                    est = klass(**kw)
                    est.fit(DX)
                    before = np.array(est.x, copy=True)
                    ref_pred = np.asarray(est.predict(DX[:5] + 0.125)) if cls != "DimensionalityEstimator" else np.asarray(est.predict(DX[:5] + 0.125))
                except Exception as e:  # noqa
                    ctx.violation("C18|one-shot|%s|%s" % (cls, type(e).__name__), "a plain one-shot fit fails", {"estimator": cls, "kwargs": repr(kw)})
                    break
                near = mk(DX)
                o = enc.outcome(lambda: getattr(est, opname)(near))
                near_runs += 1
                if o != ("err", "ValueError"):
                    same_x = np.array_equal(np.asarray(est.x), before)
                    ctx.violation("C18|near-identical-data|%s|%s" % (cls, opname),
                                  "data that differ slightly from the bound data are not refused with ValueError",
                                  {"estimator": cls, "kwargs": repr(kw), "call": "est.fit(x); est.%s(x_near)" % opname, "x_near": how, "x": DX.tolist(),
                                   "observed": o[1] if o[0] == "err" else "accepted", "bound_data_replaced": not same_x})
    dist["near-identical foreign data"] = near_runs
    # ---- a fitted model's length scale handed to a fresh model reproduces it also when ls_factor is not 1
    for cls, (klass, extra, DX, DFo) in confs.items():
        kw = dict(base_kw, **extra)
        kw["ls_factor"] = 1.7
        try:
            e1 = klass(**kw)
            e1.fit(DX)
            q_ = DX[:5] + 0.125
            p1 = np.asarray(e1.predict(q_))
            import inspect as _insp
            ctor_ = set(_insp.signature(klass.__init__).parameters)
            for S in (("ls",), tuple(a_ for a_ in ("nn_distances", "d", "ls") if a_ in ctor_)):
                e2 = klass(**dict(kw, **{a: getattr(e1, a) for a in S}))
                e2.fit(DX)
                preset_runs += 1
                if not (np.array_equal(np.asarray(e2.ls), np.asarray(e1.ls)) and np.array_equal(np.asarray(e2.predict(q_)), p1)):
                    ctx.violation("C18|presets|%s|ls_factor|%s" % (cls, "+".join(S)),
                                  "a fresh model given the length scale of a model fitted with ls_factor != 1 does not reproduce it",
                                  {"estimator": cls, "kwargs": repr(kw), "preset": list(S), "x": DX.tolist(), "ls_fitted": float(np.asarray(e1.ls)),
                                   "ls_of_fresh_model": float(np.asarray(e2.ls)), "max_prediction_difference": float(np.abs(np.asarray(e2.predict(q_)) - p1).max())})
        except Exception as e:  # noqa
            ctx.violation("C18|presets|%s|ls_factor|%s" % (cls, type(e).__name__), "fit with ls_factor = 1.7 (or its preset re-run) fails",
                          {"estimator": cls, "kwargs": repr(kw), "error": str(e)[:200]})

    # ---- histories in one process: an estimator fitted AFTER other estimators (or re-fitted) equals the same estimator in a
    #      fresh interpreter, bit for bit - state surviving between objects or fits (shared mutable defaults, module-level or
    #      identity-keyed caches) makes the two differ.  No oracle, no tolerance: harness/freshproc.py runs both in clean processes.
    from concurrent.futures import ThreadPoolExecutor
    from harness import freshproc
    hrng = np.random.default_rng(ctx.seed + 18)
    U5 = {"__array__": hrng.normal(size=(5, 2)).tolist()}
    akw = dict(optimizer="adam", n_iter=2, jit=False)
    D1 = dict(seed=int(hrng.integers(1 << 30)), n=12, d=2)
    D2 = dict(seed=int(hrng.integers(1 << 30)), n=15, d=2, scale=7.0, shift=1.0)
    T1 = dict(seed=int(hrng.integers(1 << 30)), n=24, d=2, times=[7, 9, 8])
    T2 = dict(T1, seed=T1["seed"] + 1, scale=7.0, shift=1.0)
    q2 = (hrng.normal(size=(4, 2))).tolist()
    q3 = [r_ + [float(i % 3)] for i, r_ in enumerate(q2)]

    def new(cls_, **kw_):
        return {"op": "new", "cls": cls_, "kwargs": kw_}

    def mf(steps):
        return [dict(st, may_fail=True) for st in steps]
    histories = [
        ("numerically equal options of different type (rank=1 then rank=1.0), explicit landmarks",
         mf([new("DensityEstimator", rank={"__int__": 1}, landmarks=U5, **akw), {"op": "fit", "x": D1}]),
         [new("DensityEstimator", rank=1.0, landmarks=U5, **akw), {"op": "fit", "x": D1}], q2),
        ("default-constructed time-sensitive estimators with automatic ls_time, second one on rescaled data",
         [new("TimeSensitiveDensityEstimator", jit=False), {"op": "fit", "x": T1}],
         [new("TimeSensitiveDensityEstimator", jit=False), {"op": "fit", "x": T2}], q3),
        ("two density estimators on data sets of different size and scale",
         [new("DensityEstimator", **akw), {"op": "fit", "x": D1}],
         [new("DensityEstimator", **akw), {"op": "fit", "x": D2}], q2),
        ("two dimensionality estimators, second one on rescaled data",
         [new("DimensionalityEstimator", k=3, **akw), {"op": "fit", "x": D1}],
         [new("DimensionalityEstimator", k=3, **akw), {"op": "fit", "x": D2}], q2),
    ]
    z2 = {"__array__": (0.5 * hrng.normal(size=12)).tolist()}
    histories += [
        # (third component "same-object": the history is the whole first list, the second list is its one-shot equivalent)
        ("a fitted estimator re-processed with other latent parameters (process_inference(pre_transformation=...))",
         [new("DensityEstimator", **akw), {"op": "fit", "x": D1}, {"op": "call", "name": "process_inference", "kwargs": {"pre_transformation": z2}}],
         ("same-object", [new("DensityEstimator", **akw), {"op": "call", "name": "prepare_inference", "x": D1},
                          {"op": "call", "name": "process_inference", "kwargs": {"pre_transformation": z2}}]), q2),
    ]
    if ctx.thorough:
        histories += [
            ("rank=1.0 then rank=1 (integer), explicit landmarks",
             mf([new("DensityEstimator", rank=1.0, landmarks=U5, **akw), {"op": "fit", "x": D1}]),
             [new("DensityEstimator", rank={"__int__": 1}, landmarks=U5, **akw), {"op": "fit", "x": D1}], q2),
            ("the same estimator re-fitted without new data (fit(x), fit())",
             [new("DensityEstimator", **akw), {"op": "fit", "x": D1}, {"op": "fit", "x": None}],
             [], q2),
        ]
    jobs = []
    for hi, (what, before, plain, qq) in enumerate(histories):
        # plain == []: the history is one estimator used repeatedly; its one-shot equivalent is construction + first fit
        if isinstance(plain, tuple):
            plain_full, hist_steps = plain[1], before
        else:
            plain_full, hist_steps = (plain if plain else before[:2]), before + plain
        jobs.append((hi, "hist", {"steps": hist_steps, "query": qq}))
        jobs.append((hi, "plain", {"steps": plain_full, "query": qq}))
    with ThreadPoolExecutor(max_workers=8) as ex:
        outs = list(ex.map(lambda j: freshproc.run_spec(j[2], "%d_%s" % (j[0], j[1]), ctx.dir), jobs))
    hist_runs = 0
    for hi, (what, before, plain, qq) in enumerate(histories):
        oh, op_ = outs[2 * hi], outs[2 * hi + 1]
        if "timeout" in (oh.get("error"), op_.get("error")):     # an overloaded machine is not a violation: counted, not judged
            ctx.cov["history_timeouts"] = ctx.cov.get("history_timeouts", 0) + 1
            continue
        hist_runs += 1
        if not op_.get("ok"):
            ctx.violation("C18|history|plain-fit-fails|%d" % hi, "a plain one-shot fit fails in a fresh interpreter",
                          {"history": what, "steps": jobs[2 * hi + 1][2]["steps"], "error": op_.get("error")})
            continue
        diff = freshproc.differing(oh, op_)
        if isinstance(plain, tuple):        # the optimisation trace of the first fit is a record, not a fitted value: kept by design
            diff = [k_ for k_ in diff if k_ != "losses"]
        if diff:
            ctx.violation("C18|history|%s" % what.split(" (")[0].split(",")[0].replace(" ", "-"),
                          "an estimator used after other estimators / fits in the same process differs from the same estimator in a fresh process",
                          {"history": what, "steps_with_history": jobs[2 * hi][2]["steps"], "steps_plain": jobs[2 * hi + 1][2]["steps"],
                           "query": qq, "differing": diff, "outcome_with_history": oh.get("error", "ok"),
                           "replay": "python /verif/harness/freshproc.py <spec.json> with each of the two step lists; outputs must be identical",
                           "values_with_history": {k: oh.get("obs", {}).get(k) for k in diff[:4]},
                           "values_plain": {k: op_["obs"].get(k) for k in diff[:4]}})
    dist["history pairs (fresh interpreters)"] = hist_runs

    # ---- the model's verdict on every sequence, evaluated in Coq
    coq_cases = []
    for (model, _, flags, res, equal, b2), m in zip(cases, meta):
        t = info[m["estimator"]]
        uni = ["x"] + t["universe"]
        nullable = set(t.get("nullable", []))
        # nullable attributes (None in the one-shot fit, e.g. landmarks of a full GP) are exempt from the set/unset comparison
        mask = "[%s]" % "; ".join("true" if (a in nullable) else "false" for a in uni)
        exp = "(VTuple [VList [%s]; VList [%s]; VBool %s; VStr %s])" % (
            "; ".join("VStr %s" % enc.coq_str(r) for r in res),
            "; ".join("VBool %s" % ("true" if f else "false") for f in flags),
            "true" if equal else "false", enc.coq_str(b2 or "-"))
        coq_cases.append(("c18_compare %s (%s) %s" % (mask, model, exp), "(Ok (VBool true))"))
    bad = {}
    if gen is not None:
        try:
            bad = ctx.run_cases("c18_seq", IMPORTS, coq_cases, shard=500)
        except Broken as b:
            ctx.broken.append(b)
        for i, shown in list(bad.items())[:12]:
            ctx.broken.append(Broken("correspondence", "staged-api", "case %r: model and implementation disagree" % (meta[i],)))
    ctx.cov["evaluations"] = nodes + preset_runs
    ctx.cov["traces_validated_against_impl"] = len(coq_cases)
    ctx.cov["distinct_nontrivial"] = len({(m["estimator"], tuple(map(tuple, m.get("ops", [])))) for m in meta if m["impl"] and m["impl"][-1] == "ok"})
    ctx.cov["exhaustive"] = not ctx.thorough
    ctx.cov["rule"] = (
        "every call sequence up to length %d over the staged-API alphabet (set_x / prepare_inference / fit / fit_predict with x in "
        "{None, the NumPy data, est.x, foreign data%s}; run_inference; process_inference with / without build_predict; each lazy predictor "
        "property) on real DensityEstimator, TimeSensitiveDensityEstimator and DimensionalityEstimator objects (n = 12, adam, 2 iterations, "
        "jit off), explored as a tree with copies of the estimator object (%d nodes%s): after EVERY call the outcome (ok | ValueError | "
        "not-ready), which cached attributes are set, whether x is bound, and bitwise equality of every cached attribute, the fitted "
        "values and the predictions with the one-shot fit are compared with the Gallina machine evaluated in Coq on the same sequence; "
        "%d preset runs (subsets of the cacheable intermediates of a fitted model handed to a fresh model) must reproduce the fitted "
        "values and predictions bitwise. distinct_nontrivial = distinct sequences whose last call succeeds."
        % (maxlen, ", the same data as float JAX array" if ctx.thorough else "", nodes,
           ", %d subtrees pruned by identical observed state (thorough tier only)" % pruned if ctx.thorough else "", preset_runs))
    ctx.cov["input_distribution"] = dist
    ctx.cov["samples"] = meta[:2] + meta[len(meta) // 2: len(meta) // 2 + 2]
