"""C16 - function estimation is affine in the values, column-independent and noise-aware.

translate (all paths of harness/matgen.TARGETS) -> build coq/props/C16.v (weights = T (y - mu 1) for the full and the
inducing-point family, hence affinity and column independence; interpolation identity pred(X) - y = -jitter * w;
exact in-sample error of the inducing-point family on the range of K_xu; equal-entry sigma vector = scalar)
-> run mellon.FunctionEstimator end to end (fit_predict, multi_fit_predict, predict) on seeded configurations with the
   cholesky / solve_triangular oracles recorded and validated
-> the generated definitions are run with PrimFloat inside Coq on the estimator's Gram matrices (same machinery as C01)
-> NumPy searcher on the implementation: affinity, column independence, transposed multi-fit, interpolation bound
   j*|w| (full model; inducing-point family only where the proved identity applies: cells contained in the inducing
   points), constant-vector sigma, monotone shrinkage of in-sample predictions in sigma.

multi_fit_predict is an estimator-level wrapper (transpose in, transpose out); it is not translated, its clause is
decided by the searcher only.  Excluded (known shape TypeErrors, C15): per-cell sigma with landmarks; landmarks with
predictor_with_uncertainty=True.  The shrinkage clause is checked numerically only (its Coq proof is not included).
"""
import random

import numpy as np

from checks import C01
from harness import matgen
from harness.wb_common import (U, real_module, dataset, KERNELS, make_kernel, Recorder, quiet, noise_matrix, col2,
                               solve_tol, resid_eval_err)
from vlib.core import Broken, TRUSTED_COMMON, REPO


def make_configs(rng, thorough):
    cfgs = []
    i = 0
    for rep in range(3 if thorough else 1):
        for gp in ["full", "sparse_cholesky", "fixed"]:
            for noise in ["ymean", "zero", "subjitter", "scalar", "vector"]:
                for k in range(2):
                    i += 1
                    if noise == "vector" and gp != "full":
                        continue        # shape TypeError on the current tree (C15 finding)
                    cfgs.append(dict(
                        id=i, gp=gp, noise=noise, kernel=KERNELS[i % 6], n=rng.choice([8, 15, 30, 50]),
                        d=rng.choice([1, 1, 2, 4]), data=rng.choice(["gauss", "clustered", "anisotropic"]),
                        ls=rng.choice([0.3, 1.0, 3.0]), compose=(i % 5 == 0), jitter=rng.choice([1e-8, 1e-6, 1e-4, 1e-3]),
                        cols=rng.choice([1, 2, 3, 5]), a=rng.choice([-1, 1]) * 10.0 ** rng.uniform(-3, 3),
                        b=rng.choice([0.0, 1.0, -7.5, 300.0]), with_xnew=(i % 2 == 0), oned=(i % 4 == 1),
                        seed=rng.randrange(2 ** 31)))
    return cfgs


def uncertainty_flag_block(ctx, rng):
    """y_is_mean / sigma = 0 interpolate regardless of predictor_with_uncertainty and of sigma (full model): the in-sample
    prediction misses y by exactly -jitter * (K + jitter I)^-1 (y - mu) (NumPy dense solve), added after seeded change C16-1"""
    import mellon
    from mellon.cov import Matern52, ExpQuad
    n_done = 0
    nrng = np.random.default_rng(rng.randrange(2 ** 31))
    for kern, ls in ((Matern52, 0.8), (ExpQuad, 1.5)):
        for sigma in (0.0, 0.3, 1.5):
            for wu in (False, True):
                for jitter in (1e-6, 1e-3):
                    n = 14
                    x = nrng.normal(size=(n, 2))
                    y = nrng.normal(size=n)
                    mu = 0.4
                    cov = kern(ls)
                    est = mellon.FunctionEstimator(cov_func=cov, gp_type="full", mu=mu, sigma=sigma, jitter=jitter, y_is_mean=True,
                                                   predictor_with_uncertainty=wu, jit=False)
                    o = None
                    try:
                        pred = np.asarray(est.fit_predict(x, y), dtype=float)
                    except Exception as e:      # noqa
                        o = type(e).__name__
                    n_done += 1
                    desc = {"kernel": repr(cov), "sigma": sigma, "predictor_with_uncertainty": wu, "jitter": jitter, "y_is_mean": True,
                            "x": x.tolist(), "y": y.tolist(), "mu": mu,
                            "call": "FunctionEstimator(cov_func, gp_type='full', mu, sigma, jitter, y_is_mean=True, predictor_with_uncertainty).fit_predict(x, y)"}
                    if o is not None:
                        ctx.violation("C16|uncertainty-flag|%s" % o, "fit fails", dict(desc, exception=o))
                        continue
                    K = np.asarray(cov(x, x), dtype=float)
                    A = K + jitter * np.eye(n)
                    w = np.linalg.solve(A, y - mu)
                    expected = y - jitter * w
                    tol = 64 * n * U * np.linalg.cond(A) * (np.abs(y).max() + abs(mu)) + 1e-12
                    if not (np.abs(pred - expected) <= tol).all():
                        ctx.violation("C16|uncertainty-flag|interpolation", "with y_is_mean the training values are not interpolated "
                                      "(in-sample prediction - y != -jitter (K + jitter I)^-1 (y - mu))",
                                      dict(desc, max_dev=float(np.abs(pred - expected).max()), bound=float(tol)))
    return n_done


def estimator(cfg, env, mu, sigma):
    import mellon
    kw = dict(cov_func=env["cov"], jitter=cfg["jitter"], mu=mu, sigma=sigma, y_is_mean=cfg["noise"] == "ymean", jit=False)
    if cfg["gp"] == "full":
        kw.update(gp_type="full")
    elif cfg["gp"] == "sparse_cholesky":
        kw.update(gp_type="sparse_cholesky", landmarks=env["xu"])
    else:
        kw.update(gp_type="fixed", landmarks=env["xu"])
    return mellon.FunctionEstimator(**kw)


def environment(cfg):
    rng = np.random.default_rng(cfg["seed"])
    n, d, j = cfg["n"], cfg["d"], cfg["jitter"]
    x = dataset(rng, n, d, cfg["data"])
    if cfg["oned"] and d == 1:
        x_in = x[:, 0]
    else:
        x_in = x
    cov, kdesc = make_kernel(rng, cfg["kernel"], cfg["ls"], cfg["compose"])
    if cfg["gp"] == "full":
        xu = x
    elif cfg["gp"] == "sparse_cholesky":
        m = max(2, n // 3)
        xu = dataset(rng, m, d, "gauss")
    else:                       # fixed: inducing points contain the cells (and a few more)
        xu = np.vstack([x, dataset(rng, 4, d, "gauss") * 2.0])
    Y = rng.normal(size=(n, cfg["cols"]))
    mu = float(rng.normal())
    sigma = {"ymean": 0.0, "zero": 0.0, "subjitter": 0.5 * np.sqrt(j), "scalar": float(rng.choice([0.05, 0.3, 1.5]))}.get(cfg["noise"])
    if cfg["noise"] == "vector":
        sigma = np.abs(rng.normal(size=n)) * 0.3 + 0.01
    Xq = dataset(rng, 5, d, "gauss") * 1.5 if cfg["with_xnew"] else x
    return dict(x=x, x_in=x_in, xu=xu, cov=cov, kdesc=kdesc, Y=Y, mu=mu, sigma=sigma, Xq=Xq, m=xu.shape[0])


def c01_view(cfg, env, p, vals, mu, sigma=None):
    """the same configuration in the vocabulary of checks/C01 (stated_system, correspond)"""
    fam = "full" if cfg["gp"] == "full" else "dtc"
    c = dict(cfg, fam=fam, flavour="plain", mrel={"full": "-", "sparse_cholesky": "lt", "fixed": "gt"}[cfg["gp"]], q=env["Xq"].shape[0])
    b = dict(p=p, x=env["x"], xu=env["xu"], vals=vals, mu=mu, sigma=env["sigma"] if sigma is None else sigma,
             y_is_mean=cfg["noise"] == "ymean", Lgiven=None, cov=env["cov"], kdesc=env["kdesc"], Xq=env["Xq"], m=env["m"],
             nb=env["xu"].shape[0] if fam == "full" else cfg["n"], K_bb=np.asarray(env["cov"](env["xu"], env["xu"]), dtype=float))
    return c, b


def replay(cfg, env, extra):
    d = dict(cfg)
    d.update(kernel_desc=env["kdesc"], x=env["x"].tolist(), landmarks=None if cfg["gp"] == "full" else env["xu"].tolist(),
             Y=env["Y"].tolist(), mu=env["mu"], sigma=np.asarray(env["sigma"]).tolist(), Xnew=env["Xq"].tolist(),
             call="mellon.FunctionEstimator(cov_func=<kernel_desc>, gp_type, landmarks, jitter, mu, sigma, y_is_mean).fit_predict(x, Y, Xnew)")
    d.update(extra)
    return d


def diff_bound(c, b, ws, scales, rhs_gap=0.0):
    """bound on |K_*(sum_i scales_i w_i)| when every w_i solves the stated system up to its residual"""
    A, rhs, amp_info, extra = C01.stated_system(c, b)
    Ks = np.asarray(b["cov"](b["Xq"], b["xu"]), dtype=float)
    kss = float(np.max(np.asarray(b["cov"].diag(b["Xq"]), dtype=float)))
    if c["fam"] == "full":
        amp = np.sqrt(max(kss, 0.0) / amp_info)
    else:
        a_, j_ = amp_info
        amp = np.sqrt(max(kss, 0.0)) / (a_ * np.sqrt(j_))
    tot = rhs_gap
    for (w, r_), s in zip(ws, scales):
        tot += abs(s) * (np.linalg.norm(A @ w - r_) + resid_eval_err(A, w, r_))
    read = 8 * Ks.shape[1] * U * float(np.max(np.abs(Ks) @ sum(abs(s) * np.abs(w) for (w, _), s in zip(ws, scales)))) + 1e-300
    return amp * tot + read, A, Ks


def history_block(ctx):
    """one estimator used repeatedly (re-fit with new values, re-fit after its noise level / jitter attribute was changed) and
    several estimators in one process must predict exactly what the equivalent freshly constructed estimator predicts in a clean
    interpreter (harness/freshproc.py: both sides run in fresh processes, compared bit for bit)"""
    from concurrent.futures import ThreadPoolExecutor
    from harness import freshproc
    hr = np.random.default_rng(ctx.seed + 16)
    D = dict(seed=int(hr.integers(1 << 30)), n=14, d=2)
    D2 = dict(seed=int(hr.integers(1 << 30)), n=17, d=2, scale=3.0)
    Y1 = dict(seed=int(hr.integers(1 << 30)), n=14, cols=2)
    Y2 = dict(seed=int(hr.integers(1 << 30)), n=14, cols=2)
    Y3 = dict(seed=int(hr.integers(1 << 30)), n=17, cols=0)
    q = hr.normal(size=(4, 2)).tolist()

    def new(**kw_):
        return {"op": "new", "cls": "FunctionEstimator", "kwargs": dict(kw_, jit=False)}

    def fit(x, y):
        return {"op": "fit", "x": x, "y": y}
    hist = [
        ("re-fit with new values, then with a larger sigma",
         [new(sigma=0.05), fit(D, Y1), fit(None, Y2), {"op": "set", "attr": "sigma", "value": 0.5}, fit(None, Y2)],
         [new(sigma=0.5), fit(D, Y2)]),
        ("re-fit after the jitter was changed",
         [new(sigma=0.0, jitter=1e-6), fit(D, Y1), {"op": "set", "attr": "jitter", "value": 1e-3}, fit(None, Y1)],
         [new(sigma=0.0, jitter=1e-3), fit(D, Y1)]),
        ("a second estimator with another noise level on other data",
         [new(sigma=0.05), fit(D, Y1), new(sigma=0.5), fit(D2, Y3)],
         [new(sigma=0.5), fit(D2, Y3)]),
    ]
    jobs = [(i, side, {"steps": steps, "query": q}) for i, (_, h, p_) in enumerate(hist) for side, steps in (("hist", h), ("plain", p_))]
    with ThreadPoolExecutor(max_workers=6) as ex:
        outs = list(ex.map(lambda j: freshproc.run_spec(j[2], "c16_%d_%s" % (j[0], j[1]), ctx.dir), jobs))
    for i, (what, h, p_) in enumerate(hist):
        oh, op_ = outs[2 * i], outs[2 * i + 1]
        if "timeout" in (oh.get("error"), op_.get("error")):     # an overloaded machine is not a violation: counted, not judged
            ctx.cov["history_timeouts"] = ctx.cov.get("history_timeouts", 0) + 1
            continue
        if not op_.get("ok"):
            ctx.violation("C16|history|plain-fit-fails|%d" % i, "a plain FunctionEstimator fit fails in a fresh interpreter",
                          {"steps": p_, "error": op_.get("error")})
            continue
        diff = freshproc.differing(oh, op_)
        if diff:
            ctx.violation("C16|history|%s" % what.split(",")[0].replace(" ", "-"),
                          "a FunctionEstimator used repeatedly predicts differently from the equivalent fresh estimator",
                          {"history": what, "steps_with_history": h, "steps_plain": p_, "query": q, "differing": diff,
                           "outcome_with_history": oh.get("error", "ok"),
                           "replay": "python /verif/harness/freshproc.py <spec.json> with each of the two step lists; outputs must be identical",
                           "values_with_history": {k: oh.get("obs", {}).get(k) for k in diff[:3]},
                           "values_plain": {k: op_["obs"].get(k) for k in diff[:3]}})
    return len(hist)


def run(ctx):
    quiet()
    mc = real_module("mellon.conditional")
    rng = random.Random(ctx.seed)
    ctx.cov["trusted_base"] = TRUSTED_COMMON + [
        "jnp.linalg.cholesky / solve_triangular contracts - validated by residual on every recorded call",
        "kernel Gram matrices symmetric positive semi-definite (hypotheses of the theorems)",
        "FunctionEstimator.compute_conditional hands (sigma, jitter, y_is_mean) unchanged to compute_conditional (checked by the executable correspondence: the model is fed the estimator's attributes)",
    ]
    ctx.assumptions += ["binary64 rounding enters only through derived tolerances: residuals of the stated normal equations amplified by the provable bound sqrt(k(x,x)/noise_min) (full) or sqrt(k(x,x))/(a sqrt(jitter)) (inducing points)",
                        "multi_fit_predict (transpose wrapper) and the shrinkage clause are decided by the searcher only"]
    gen = meta = None
    try:
        gen, funcs, meta, _tr = matgen.translate_all(REPO)
        ctx.cov["translated_functions"] = funcs
        ctx.build_props(gen, extra_targets=["lib/MxFloat.vo"])
    except matgen.Unsupported as u:
        ctx.broken.append(Broken("translation", "matrix subset", str(u)))
    except matgen.PathError as e:
        ctx.broken.append(Broken("translation", "static path raises", str(e)))

    cfgs = make_configs(rng, ctx.thorough)
    items, dist = [], {}
    rec = Recorder([mc])
    counts = dict(affine=0, columns=0, multifit=0, interpolation=0, interpolation_dtc=0, constvec=0, shrink=0)
    with rec:
        for cfg in cfgs:
            env = environment(cfg)
            key = "C16|%s|%s" % (cfg["gp"], cfg["noise"])
            try:
                one_config(ctx, cfg, env, key, items, counts)
            except Exception as e:      # the implementation raised on an accepted configuration
                ctx.violation(key + "|" + type(e).__name__, "FunctionEstimator raised %s: %s" % (type(e).__name__, str(e)[:200]),
                              replay(cfg, env, {}))
                continue
            k2 = "%s/%s/cols=%d/%s" % (cfg["gp"], cfg["noise"], cfg["cols"], "Xnew" if cfg["with_xnew"] else "in-sample")
            dist[k2] = dist.get(k2, 0) + 1
    for f in rec.failures[:5]:
        ctx.broken.append(Broken("contract", f.split(":")[0], f))
    n_eval = 0
    if gen is not None and not any(b.kind in ("proof", "gate") for b in ctx.broken):
        n_eval = C01.correspond(ctx, items, meta)
    counts["histories"] = history_block(ctx)
    n_flag = uncertainty_flag_block(ctx, rng)
    counts["uncertainty_flag"] = n_flag
    ctx.cov["evaluations"] = n_eval
    ctx.cov["traces_validated_against_impl"] = n_eval
    ctx.cov["distinct_nontrivial"] = len(dist)
    ctx.cov["input_distribution"] = dist
    ctx.cov["searcher_checks"] = counts
    ctx.cov["contracts_validated"] = dict(rec.counts, cholesky_nan=rec.chol_nan)
    ctx.cov["rule"] = ("%d seeded FunctionEstimator configurations: gp_type in {full, sparse_cholesky (explicit m<n landmarks), fixed "
                       "(landmarks = cells + 4)}, noise in {y_is_mean, 0, <sqrt(jitter), scalar, per-cell vector (full only)}, 6 kernels "
                       "(+compositions), 1..5 value columns, 1-D and multi-D x, a in +-[1e-3,1e3], with and without Xnew, jitter 1e-8..1e-3. "
                       "Each: affinity, column independence, transposed multi_fit_predict, interpolation, constant-vector sigma, "
                       "shrinkage; plus PrimFloat execution of the generated constructors on the estimator's Gram matrices." % len(cfgs))
    ctx.cov["samples"] = [{k: v for k, v in c.items()} for c in cfgs[:3]]


def one_config(ctx, cfg, env, key, items, counts):
    x_in, Y, mu, Xq, a, b0 = env["x_in"], env["Y"], env["mu"], env["Xq"], cfg["a"], cfg["b"]
    xq_in = Xq[:, 0] if (cfg["oned"] and cfg["d"] == 1) else Xq

    def fit(values, mu_, sigma=None):
        est = estimator(cfg, env, mu_, env["sigma"] if sigma is None else sigma)
        P = np.asarray(est.fit_predict(x_in, values, xq_in if cfg["with_xnew"] else None), dtype=float)
        return est, P, col2(np.asarray(est.predict.weights, dtype=float))
    est1, P1, W1 = fit(Y, mu)
    c, bb = c01_view(cfg, env, est1.predict, Y, mu)
    A, rhs1, amp_info, extra = C01.stated_system(c, bb)
    if np.isnan(P1).any():
        ctx.violation(key + "|nan", "NaN prediction", replay(cfg, env, {}))
        return
    if P1.shape != (Xq.shape[0], Y.shape[1]):
        ctx.violation(key + "|shape", "prediction shape %s" % (P1.shape,), replay(cfg, env, {}))
        return
    # the estimator's predictor solves the stated normal equations (C01's obligation, on the estimator path)
    res1 = np.linalg.norm(A @ W1 - rhs1)
    if not res1 <= solve_tol(A, W1, rhs1, extra):
        ctx.violation(key + "|normal-eq", "weights do not solve the stated normal equations",
                      replay(cfg, env, {"residual": res1, "bound": solve_tol(A, W1, rhs1, extra)}))
    items.append(dict(cfg=c, b=bb, w_impl=W1, pred_impl=P1))
    # ---- affinity
    Y2, mu2 = a * Y + b0, a * mu + b0
    est2, P2, W2 = fit(Y2, mu2)
    rhs2 = C01.stated_system(*c01_view(cfg, env, est2.predict, Y2, mu2))[1]
    gap = np.linalg.norm(rhs2 - a * rhs1)          # rounding of forming a*y+b and subtracting a*mu+b
    tol, _, Ks = diff_bound(c, bb, [(W2, rhs2), (W1, rhs1)], [1.0, a], rhs_gap=gap)
    tol += 8 * U * (abs(mu2) + abs(a) * abs(mu) + abs(b0) + np.max(np.abs(a * P1)))
    counts["affine"] += 1
    if not (np.abs(P2 - (a * P1 + b0)) <= tol).all():
        ctx.violation(key + "|affine", "fit(a*y+b, mu=a*mu+b) != a*fit(y, mu) + b",
                      replay(cfg, env, {"max_dev": float(np.abs(P2 - (a * P1 + b0)).max()), "bound": float(tol)}))
    # ---- column independence
    if Y.shape[1] > 1:
        l = cfg["id"] % Y.shape[1]
        est3, P3, W3 = fit(Y[:, l] if cfg["id"] % 2 else Y[:, l:l + 1], mu)
        tol, _, _ = diff_bound(c, bb, [(W1[:, l:l + 1], rhs1[:, l:l + 1]), (W3, rhs1[:, l:l + 1])], [1.0, 1.0])
        counts["columns"] += 1
        if not (np.abs(col2(P3) - P1[:, l:l + 1]) <= tol + 8 * U * abs(mu)).all():
            ctx.violation(key + "|columns", "column fitted alone differs from the joint fit",
                          replay(cfg, env, {"column": l, "max_dev": float(np.abs(col2(P3) - P1[:, l:l + 1]).max()), "bound": float(tol)}))
        # deprecated entry point with transposed input
        est4 = estimator(cfg, env, mu, env["sigma"])
        if Y.shape[0] != Y.shape[1]:
            P4 = np.asarray(est4.multi_fit_predict(x_in, Y.T, xq_in if cfg["with_xnew"] else None), dtype=float)
            counts["multifit"] += 1
            tol, _, _ = diff_bound(c, bb, [(W1, rhs1), (W1, rhs1)], [1.0, 1.0])
            if P4.shape != P1.T.shape or not (np.abs(P4 - P1.T) <= tol + 8 * U * abs(mu)).all():
                ctx.violation(key + "|multi_fit", "multi_fit_predict(x, Y.T) is not fit_predict(x, Y).T", replay(cfg, env, {}))
    # ---- interpolation (y_is_mean or sigma^2 <= jitter)
    if cfg["noise"] in ("ymean", "zero", "subjitter"):
        j = cfg["jitter"]
        Pin = np.asarray(est1.predict(x_in), dtype=float)
        if cfg["gp"] == "full":
            Kxx = np.asarray(env["cov"](env["x"], env["x"]), dtype=float)
            # pred(X) - y = -j w exactly; in floats the defect is the residual of the normal equations
            dev = np.abs(Pin - Y + j * W1)
            tol = solve_tol(A, W1, rhs1) + 8 * cfg["n"] * U * float(np.max(np.abs(Kxx) @ np.abs(W1))) + 8 * U * (abs(mu) + np.abs(Y).max())
            counts["interpolation"] += 1
            if not (dev <= tol).all():
                ctx.violation(key + "|interpolation", "in-sample prediction - y != -jitter*weights",
                              replay(cfg, env, {"max_dev": float(dev.max()), "bound": float(tol), "jitter_times_w": float(j * np.abs(W1).max())}))
        elif cfg["gp"] == "fixed" and cfg["noise"] == "ymean":
            # cells are contained in the inducing points: y - mu = K_xu c0 is solvable; proved identity
            # pred(X) - y = -j K_xu (K_ux K_xu + j A')^-1 A' c0
            Kxu = np.asarray(env["cov"](env["x"], env["xu"]), dtype=float)
            Kuu = np.asarray(env["cov"](env["xu"], env["xu"]), dtype=float)
            r = Y - mu
            c0, *_ = np.linalg.lstsq(Kxu, r, rcond=None)
            Ap = Kuu + j * np.eye(Kuu.shape[0])
            M = Kxu.T @ Kxu + j * Ap
            kap = np.linalg.cond(M) + np.linalg.cond(Kxu)
            if np.linalg.norm(Kxu @ c0 - r) <= 1e-9 * np.linalg.norm(r) and kap < 1e9:
                E = -j * Kxu @ np.linalg.solve(M, Ap @ c0)
                tol = 64 * Kuu.shape[0] * U * kap * (np.abs(E).max() + j * np.abs(W1).max() + j * np.abs(c0).max()) \
                    + solve_tol(M, W1, Kxu.T @ r, extra) / max(np.sqrt(j), 1e-300) + 1e-9 * np.abs(r).max()
                counts["interpolation_dtc"] += 1
                if not (np.abs((Pin - Y) - E) <= tol).all():
                    ctx.violation(key + "|interpolation-dtc", "in-sample error differs from -j K_xu (K_ux K_xu + j A')^-1 A' c0",
                                  replay(cfg, env, {"max_dev": float(np.abs((Pin - Y) - E).max()), "bound": float(tol)}))
    # ---- equal-entry sigma vector == scalar (full model)
    if cfg["noise"] in ("scalar", "subjitter") and cfg["gp"] == "full":
        est5, P5, W5 = fit(Y, mu, sigma=np.full(cfg["n"], env["sigma"]))
        tol, _, _ = diff_bound(c, bb, [(W1, rhs1), (W5, rhs1)], [1.0, 1.0])
        counts["constvec"] += 1
        if not (np.abs(P5 - P1) <= tol + 8 * U * abs(mu)).all():
            ctx.violation(key + "|constant-vector-sigma", "sigma vector with equal entries differs from the scalar",
                          replay(cfg, env, {"max_dev": float(np.abs(P5 - P1).max()), "bound": float(tol)}))
    # ---- shrinkage: in-sample predictions of the full model move monotonically towards mu as sigma grows
    if cfg["gp"] == "full" and cfg["noise"] == "scalar":
        Kxx = np.asarray(env["cov"](env["x"], env["x"]), dtype=float)
        prev = None
        for s in [0.0, 0.03, 0.1, 0.3, 1.0, 3.0, 10.0]:
            e, _, Ws = fit(Y, mu, sigma=s)
            f = np.asarray(e.predict(x_in), dtype=float) - mu
            As = Kxx + max(s * s, cfg["jitter"]) * np.eye(cfg["n"])
            err = np.sqrt(cfg["n"]) * (np.linalg.norm(As @ Ws - (Y - mu)) + resid_eval_err(As, Ws, Y - mu)) \
                + 8 * cfg["n"] * U * np.linalg.norm(np.abs(Kxx) @ np.abs(Ws)) + 8 * U * abs(mu) * np.sqrt(Y.size)
            nf = np.linalg.norm(f, axis=0)
            if prev is not None and not (nf <= prev[0] + prev[1] + err).all():
                ctx.violation(key + "|shrinkage", "in-sample deviation from mu grew when sigma increased to %g" % s,
                              replay(cfg, env, {"sigma": s, "norms": nf.tolist(), "previous": prev[0].tolist()}))
            prev = (nf, err)
        counts["shrink"] += 1
