"""C12 - derivative methods return true derivatives of what the predictor returns.

Proof side (Coq): gen/C12Wiring.v is regenerated on every run from the AST of mellon/base_predictor.py,
mellon/derivatives.py and mellon/conditional.py by translate/c12_wiring.py (fail closed): which callable each of
gradient / hessian / hessian_log_determinant / time_derivative differentiates, w.r.t. which argument, what is held
fixed, the post-processing, the autodiff operator / vmap axes / reshape rule, the tail of `mean`, what `__call__` is
bound to, the affine form of `_mean`.  props/C12.v states, over those tables and the per-row semantics of
lib/DerivSem.v: every class differentiates exactly the function obtained by calling the predictor w.r.t. the state
coordinates with time fixed; time_derivative is the last component of the full gradient = d/dt; the Hessian is of the
same function and the log-determinant is the slogdet of that same Hessian; shape rules; and, with the autodiff
contract (jacrev / jacfwd return the partial derivatives where they exist: Section hypotheses), that the returned
numbers ARE the derivatives of the called value, with the closed form  d mean/dx* = sum_j w_j dk/dx*(x*, b_j)  built
on the kernel-gradient theorems of C11.  Hessian symmetry and second-derivative values are `_partial` (they rest on
the autodiff contract; symmetry is proved from the conclusion of Schwarz' theorem) and are supported numerically here.

Run side: real fitted predictors of all 9 classes (3 estimators x gp_type full / sparse_cholesky / sparse_nystroem),
kernels Matern52 / ExpQuad / RatQuad, 1..6 features, one row and many rows, jit on and off.  Independent oracle:
central finite differences of the value returned by CALLING the predictor (p(x), p(x, t)), with step and tolerance
derived in harness/c12_fd.py (truncation h^2 x derivative bound + rounding noise / h; query points at a margin from
the conditioning points).  Also: Hessian symmetry, (sign, logdet) = numpy.linalg.slogdet of the returned Hessian,
output shapes = x.shape (+ (d,)), jit on/off and one-row/many-rows agreement to a derived rounding bound, the shape
model evaluated inside Coq against the shapes the implementation returns (exact), the method-resolution table against
the live classes, and the autodiff contract on a closed-form test function.
"""
import logging
import time

import numpy as np

from translate.pylogic import Unsupported
from translate import c12_wiring, pyscalar
from vlib.core import Broken, TRUSTED_COMMON, REPO
from harness import c12_fd as fd

KERNELS = ["Matern52", "ExpQuad", "RatQuad"]
ESTIMATORS = ["density", "dimensionality", "time"]
GP_TYPES = ["full", "sparse_cholesky", "sparse_nystroem"]
EXPECTED_CLASS = {
    ("density", "full"): "FullConditional", ("density", "sparse_cholesky"): "LandmarksConditionalCholesky",
    ("density", "sparse_nystroem"): "LandmarksConditional",
    ("dimensionality", "full"): "ExpFullConditional", ("dimensionality", "sparse_cholesky"): "ExpLandmarksConditionalCholesky",
    ("dimensionality", "sparse_nystroem"): "ExpLandmarksConditional",
    ("time", "full"): "FullConditionalTime", ("time", "sparse_cholesky"): "LandmarksConditionalCholeskyTime",
    ("time", "sparse_nystroem"): "LandmarksConditionalTime",
}
TIMES = [0.0, 1.0, 2.0]


def make_data(seed, est, d, n):
    # exactly representable coordinates (16 fractional bits), no coincident cells: coincident cells are a
    # degenerate-input matter (C20), not a derivative matter
    for attempt in range(50):
        rng = np.random.default_rng(seed + 7919 * attempt)
        X = np.round(rng.normal(size=(n, d)) * 65536) / 65536
        if len(np.unique(X, axis=0)) == n:
            break
    if est == "time":
        X = np.concatenate([X, np.repeat(TIMES, n // 3)[:, None]], axis=1)
    return X


def fit(cfg):
    import mellon
    est, gp, kern, d, n, seed = cfg["est"], cfg["gp"], cfg["kernel"], cfg["d"], cfg["n"], cfg["data_seed"]
    X = make_data(seed, est, d, n)
    kw = dict(gp_type=gp, cov_func_curry=getattr(mellon.cov, kern), ls=float(np.sqrt(d)))
    if gp != "full":
        kw["n_landmarks"] = cfg["n_landmarks"]
    if gp == "sparse_nystroem":
        kw["rank"] = 0.9
    if est == "time":
        e = mellon.TimeSensitiveDensityEstimator(ls_time=1.0, **kw)
    elif est == "dimensionality":
        e = mellon.DimensionalityEstimator(**kw)
    else:
        e = mellon.DensityEstimator(**kw)
    e.fit(X)
    return e.predict, X


class Stats:
    def __init__(self):
        self.evals = 0
        self.worst = {}
        self.dist = {}
        self.nontrivial = set()
        self.rel_tol = {}
        self.shapes = {}
        self.reported = set()

    def ratio(self, kind, r, key):
        if r > self.worst.get(kind, (0.0, ""))[0]:
            self.worst[kind] = (float(r), key)


class MultiOutputColumn:
    """column k of a multi-output predictor presented as a scalar-valued predictor: value p(x)[:, k], derivatives in the
    layout the multi-output methods return them (n, k, d) / (n, k, d, d) / (n, k)"""

    def __init__(self, p, k):
        self._p, self._k = p, k
        self.cov_func, self.x, self.mu = p.cov_func, p.x, p.mu
        self.weights = np.asarray(p.weights, dtype=float)[:, k:k + 1]

    def __call__(self, x):
        return np.asarray(self._p(x), dtype=float)[:, self._k]

    def gradient(self, x, jit=True):
        return np.asarray(self._p.gradient(x, jit=jit), dtype=float)[:, self._k]

    def hessian(self, x, jit=True):
        return np.asarray(self._p.hessian(x, jit=jit), dtype=float)[:, self._k]

    def hessian_log_determinant(self, x, jit=True):
        s, l = self._p.hessian_log_determinant(x, jit=jit)
        return np.asarray(s, dtype=float)[:, self._k], np.asarray(l, dtype=float)[:, self._k]


ColumnView = MultiOutputColumn


def check_predictor(ctx, cfg, p, X, xq, st, info=None):
    """all run-time clauses of the property on one fitted predictor; xq: query rows (full rows, time last)"""
    import jax.numpy as jnp
    info = info or fd.Info(p)
    cname = type(p).__name__
    is_time = info.time
    d = xq.shape[1] - (1 if is_time else 0)
    cols = list(range(d))
    base = {"config": cfg, "class": cname}
    keyb = "C12|%s|%s|d=%d" % (cname, cfg["kernel"], d)

    def call(rows):
        rows = np.atleast_2d(rows)
        return np.asarray(p(rows[:, :-1], rows[:, -1]) if is_time else p(rows), dtype=float)

    def meth(name, rows, jit):
        rows = np.atleast_2d(rows)
        f = getattr(p, name)
        out = f(rows[:, :-1], rows[:, -1], jit=jit) if is_time else f(rows, jit=jit)
        return tuple(np.asarray(o, dtype=float) for o in out) if isinstance(out, tuple) else np.asarray(out, dtype=float)

    def bad(sub, what, extra):
        key = "%s|%s" % (keyb, sub)
        if key in st.reported:          # one replay per (class, kernel, d, clause): the first failing row
            return
        st.reported.add(key)
        ctx.violation(key, what, dict(base, **extra))

    # ---- finite-difference references and tolerances per row (from p(x) / p(x, t) alone)
    vals = call(xq)
    refs = []
    for r, x in enumerate(xq):
        gx = float(np.log(vals[r])) if info.exp else float(vals[r])
        F, noise = info.bounds(x, gx, "state")
        h1, h2 = fd.steps(F, noise, info.ls)
        pts, idx = fd.fd_points(x, cols, h1, h2)
        v = call(pts)
        gf, Hf = fd.fd_from_values(v, idx, cols, h1, h2)
        xmax = float(np.abs(x).max())
        ref = dict(g=gf, H=Hf, tg=fd.tol_first(F, noise, h1, xmax), tHd=fd.tol_second(F, noise, h2, xmax, False),
                   tHm=fd.tol_second(F, noise, h2, xmax, True), F=F, h=(h1, h2))
        # rounding bound for two evaluations of the same derivative formula (jit on/off, one row / many rows, H vs H^T)
        c = info.centers
        dd = np.sqrt(((x[None, :] - c) ** 2).sum(1))
        amp = 1.0 + float((((x ** 2).sum() + (c ** 2).sum(1)) / np.maximum(dd, 1e-6) ** 2).max())
        ref["round"] = [64 * fd.U * (info.n + d + 1) * amp * Fk for Fk in F]
        if is_time:
            Ft, noise_t = info.bounds(x, gx, "time")
            ht, _ = fd.steps(Ft, noise_t, info.ls_time)
            ptst, idxt = fd.fd_points(x, [d], ht, ht)
            gt, _ = fd.fd_from_values(call(ptst), idxt, [d], ht, ht)
            ref["td"], ref["ttd"] = float(gt[0]), fd.tol_first(Ft, noise_t, ht, xmax)
            ref["round_t"] = 64 * fd.U * (info.n + d + 1) * amp * Ft[0]
        st.evals += len(pts)
        refs.append(ref)
        scale_g = max(float(np.abs(gf).max()), 1e-300)
        st.rel_tol["gradient"] = max(st.rel_tol.get("gradient", 0.0), ref["tg"] / scale_g)
        st.rel_tol["hessian"] = max(st.rel_tol.get("hessian", 0.0), ref["tHm"] / max(float(np.abs(Hf).max()), 1e-300))
        if ref["tg"] < 1e-3 * scale_g:
            st.nontrivial.add((cname, cfg["kernel"], d, r))

    results = {}
    for rows_kind, rows in (("many", xq), ("single", xq[:1])):
        for jit in (True, False):
            tag = "%s|jit=%s" % (rows_kind, jit)
            n = rows.shape[0]
            try:
                g = meth("gradient", rows, jit)
                H = meth("hessian", rows, jit)
                sl = meth("hessian_log_determinant", rows, jit)
                td = meth("time_derivative", rows, jit) if is_time else None
            except Exception as e:  # noqa
                bad("%s|exception|%s" % (tag, type(e).__name__), "derivative method raises",
                    {"rows": rows.tolist(), "jit": jit, "exception": "%s: %s" % (type(e).__name__, str(e)[:300])})
                continue
            results[(rows_kind, jit)] = (g, H, sl, td)
            st.dist[tag] = st.dist.get(tag, 0) + 1
            # shapes follow x.shape (x = the state matrix handed to the method)
            xshape = (n, d)
            shp = {"gradient": (g.shape, xshape), "hessian": (H.shape, xshape + (d,)),
                   "hessian_log_determinant": (tuple(a.shape for a in sl) if isinstance(sl, tuple) else None, ((n,), (n,)))}
            if is_time:
                shp["time_derivative"] = (td.shape, (n,))
            okshape = True
            st.shapes[("DGradient", n, d, None)] = tuple(g.shape)
            st.shapes[("DHessian", n, d, None)] = tuple(H.shape)
            if isinstance(sl, tuple) and len(sl) == 2 and sl[0].shape == sl[1].shape:
                st.shapes[("DHessLogDet", n, d, None)] = tuple(sl[0].shape)
            for mname, (got, want) in shp.items():
                st.evals += 1
                if got != want:
                    okshape = False
                    bad("%s|shape|%s" % (tag, mname), "output shape does not follow x.shape",
                        {"rows": rows.tolist(), "jit": jit, "method": mname, "observed_shape": repr(got), "expected_shape": repr(want)})
            if not okshape:
                continue
            for r in range(n):
                ref = refs[r]
                x = rows[r]
                rp = {"x": x[:d].tolist(), "time": float(x[-1]) if is_time else None, "jit": jit, "rows": rows_kind}
                # gradient vs central differences of the called value
                e = np.abs(g[r] - ref["g"])
                st.evals += d
                st.ratio("gradient", float(e.max() / ref["tg"]), keyb)
                if not (e <= ref["tg"]).all():
                    bad("gradient-vs-fd", "gradient differs from the central difference of the value returned by calling the predictor",
                        dict(rp, call="p.gradient(x%s, jit=%s)" % (", time" if is_time else "", jit), observed=g[r].tolist(),
                             expected=ref["g"].tolist(), allowed_error=ref["tg"], step=ref["h"][0]))
                # hessian vs second differences
                T = np.full((d, d), ref["tHm"])
                T[np.diag_indices(d)] = ref["tHd"]
                e = np.abs(H[r] - ref["H"])
                st.evals += d * d
                st.ratio("hessian", float((e / T).max()), keyb)
                if not (e <= T).all():
                    bad("hessian-vs-fd", "hessian differs from the second central difference of the value returned by calling the predictor",
                        dict(rp, call="p.hessian(x%s, jit=%s)" % (", time" if is_time else "", jit), observed=H[r].tolist(),
                             expected=ref["H"].tolist(), allowed_error=[ref["tHd"], ref["tHm"]], step=ref["h"][1]))
                # symmetry (two orders of differentiation of one function: rounding only)
                asym = float(np.abs(H[r] - H[r].T).max())
                st.evals += 1
                st.ratio("symmetry", asym / ref["round"][1], keyb)
                if not asym <= ref["round"][1]:
                    bad("hessian-symmetry", "hessian is not symmetric", dict(rp, observed=H[r].tolist(), asymmetry=asym, allowed_error=ref["round"][1]))
                # (sign, logdet) is the slogdet of the returned hessian
                s_np, l_np = np.linalg.slogdet(H[r])
                sv = np.linalg.svd(H[r], compute_uv=False)
                cond = float(sv.max() / sv.min()) if sv.min() > 0 else np.inf
                # the method recomputes the Hessian inside another XLA program: it agrees with the returned one to the
                # rounding bound ref["round"][1]; first-order perturbation of log|det|: sum_i |d lambda_i / lambda_i|
                tl = 64 * d * d * fd.U * cond + (2 * d * d * ref["round"][1] / sv.min() if sv.min() > 0 else np.inf)
                st.evals += 1
                if np.isfinite(tl) and tl < 0.25:
                    st.ratio("slogdet", abs(float(sl[1][r]) - l_np) / tl, keyb)
                    if float(sl[0][r]) != s_np or not abs(float(sl[1][r]) - l_np) <= tl:
                        bad("slogdet", "sign / log-determinant is not that of the returned hessian",
                            dict(rp, hessian=H[r].tolist(), observed=[float(sl[0][r]), float(sl[1][r])], expected=[float(s_np), float(l_np)],
                                 allowed_error=tl))
                else:
                    st.dist["slogdet-skipped-ill-conditioned"] = st.dist.get("slogdet-skipped-ill-conditioned", 0) + 1
                if is_time:
                    e = abs(float(td[r]) - ref["td"])
                    st.evals += 1
                    st.ratio("time_derivative", e / ref["ttd"], keyb)
                    if not e <= ref["ttd"]:
                        bad("time-derivative-vs-fd", "time_derivative differs from the central difference in time of the called value",
                            dict(rp, call="p.time_derivative(x, time, jit=%s)" % jit, observed=float(td[r]), expected=ref["td"], allowed_error=ref["ttd"]))
    # ---- jit on/off and one-row / many-rows agreement (rounding bound)
    ref0 = refs[0]

    def agree(a, b, what, sub):
        (g1, H1, s1, t1), (g2, H2, s2, t2) = a, b
        n = min(g1.shape[0], g2.shape[0])
        for r in range(n):
            rb = refs[r]["round"]
            pairs = [("gradient", g1[r], g2[r], rb[0]), ("hessian", H1[r], H2[r], rb[1])]
            if t1 is not None:
                pairs.append(("time_derivative", t1[r], t2[r], refs[r]["round_t"]))
            for mname, u, v, tol in pairs:
                e = float(np.abs(np.asarray(u) - np.asarray(v)).max())
                st.evals += 1
                st.ratio(sub, e / tol, keyb)
                if not e <= tol:
                    bad("%s|%s" % (sub, mname), what, {"x": xq[r].tolist(), "method": mname, "difference": e, "allowed_error": tol})
    if ("many", True) in results and ("many", False) in results:
        agree(results[("many", True)], results[("many", False)], "jit=True and jit=False give different numbers", "jit-agreement")
    if ("single", True) in results and ("single", False) in results:
        agree(results[("single", True)], results[("single", False)], "jit=True and jit=False give different numbers", "jit-agreement")
    if ("many", True) in results and ("single", True) in results:
        agree(results[("many", True)], results[("single", True)], "a row evaluated alone and among many rows gives different numbers", "row-agreement")
    if is_time and ("many", True) in results:
        # trailing-column form gives the same numbers (forms are C13's business; here only that C12's oracle covers both)
        try:
            gcol = np.asarray(p.gradient(xq), dtype=float)
            st.evals += 1
            if gcol.shape != results[("many", True)][0].shape or not np.array_equal(gcol, results[("many", True)][0]):
                bad("column-form", "gradient(x_with_time_column) differs from gradient(x, time)", {"rows": xq.tolist()})
        except Exception as e:  # noqa
            bad("column-form|exception", "gradient(x_with_time_column) raises", {"rows": xq.tolist(), "exception": type(e).__name__})
    # ---- many rows with a per-row time: row i of the result belongs to (x_i, t_i) also beyond any internal batch size
    if is_time and not isinstance(p, MultiOutputColumn):
        try:
            kq = xq.shape[0]
            idx = np.random.default_rng(1234).integers(0, kq, size=130)     # no period: a row never lines up with a shifted batch by construction
            big = xq[idx]
            g_big = meth("gradient", big, True)
            H_big = meth("hessian", big, True)
            st.evals += 2
            for lo in (0, 60, 100):                   # rows from the start, the middle and beyond the first hundred
                for i in range(lo, min(lo + 3 * kq, 130)):
                    r = int(idx[i])
                    gr, Hr = results[("many", True)][0][r], results[("many", True)][1][r]
                    eg, eh = float(np.abs(g_big[i] - gr).max()), float(np.abs(H_big[i] - Hr).max())
                    st.ratio("row-agreement", max(eg / refs[r]["round"][0], eh / refs[r]["round"][1]), keyb)
                    if not (eg <= refs[r]["round"][0] and eh <= refs[r]["round"][1]):
                        bad("row-agreement|many-rows", "row i of gradient / hessian evaluated among 130 rows with per-row times differs from the same row "
                            "evaluated in a small batch", {"row": i, "x": big[i, :d].tolist(), "time": float(big[i, -1]),
                                                              "gradient_difference": eg, "hessian_difference": eh,
                                                              "allowed_error": [refs[r]["round"][0], refs[r]["round"][1]]})
                        break
        except KeyError:
            pass
        except Exception as e:  # noqa
            bad("row-agreement|many-rows|%s" % type(e).__name__, "derivative methods raise on 130 rows", {"exception": "%s: %s" % (type(e).__name__, str(e)[:300])})
    # ---- derivatives follow the predictor's CURRENT state: after an in-place update of a public state attribute the
    #      jit=True result (possibly served from a compilation cache) must agree with the uncompiled one
    if hasattr(p, "copy") and not isinstance(p, MultiOutputColumn):
        try:
            pc = p.copy()

            def grad_of(q, jit):
                out = q.gradient(xq[:, :-1], xq[:, -1], jit=jit) if is_time else q.gradient(xq, jit=jit)
                return np.asarray(out, dtype=float)
            g_first = grad_of(pc, True)
            pc.weights = pc.weights * 1.5
            g_t, g_f = grad_of(pc, True), grad_of(pc, False)
            st.evals += 2
            for r in range(xq.shape[0]):
                scale = max(1.0, float(np.abs(g_f[r]).max()) / max(float(np.abs(g_first[r]).max()), 1e-300))
                tol_r = 64 * refs[r]["round"][0] * scale
                e = float(np.abs(g_t[r] - g_f[r]).max())
                st.ratio("after-update-jit-agreement", e / tol_r, keyb)
                if not e <= tol_r:
                    bad("state-update|gradient", "after an in-place update of the predictor's weights, gradient(jit=True) is not the derivative of what the "
                        "predictor now returns (it differs from gradient(jit=False))",
                        {"x": xq[r].tolist(), "sequence": "c = p.copy(); c.gradient(x); c.weights = 1.5 * c.weights; c.gradient(x, jit=True) vs c.gradient(x, jit=False)",
                         "difference": e, "allowed_error": tol_r, "unchanged_from_before_update": bool(np.array_equal(g_t[r], g_first[r]))})
                    break
        except Exception as e:  # noqa
            bad("state-update|exception|%s" % type(e).__name__, "derivative after an in-place state update raises",
                {"exception": "%s: %s" % (type(e).__name__, str(e)[:300])})
    # ---- very many rows (more than any plausible internal block, not a multiple of a power of two), every predictor class: the
    #      rows at the END of the batch belong to their own queries (once per class: the first configuration that reaches here)
    if not isinstance(p, MultiOutputColumn) and ("many", True) in results and cname not in st.__dict__.setdefault("big_done", set()):
        st.big_done.add(cname)
        try:
            kq = xq.shape[0]
            nbig = 5000
            idx = np.random.default_rng(4321).integers(0, kq, size=nbig)
            g_big = meth("gradient", xq[idx], True)
            st.evals += 1
            for i in list(range(0, 6)) + list(range(1020, 1030)) + list(range(2040, 2056)) + list(range(4090, 4102)) + list(range(nbig - 12, nbig)):
                r = int(idx[i])
                gr = results[("many", True)][0][r]
                eg = float(np.abs(g_big[i] - gr).max())
                st.ratio("row-agreement-5000", eg / refs[r]["round"][0], keyb)
                if not eg <= refs[r]["round"][0]:
                    bad("row-agreement|5000-rows", "row i of gradient evaluated among 5000 rows differs from the same row evaluated in a small batch",
                        {"row": i, "rows": "x[default_rng(4321).integers(0, len(x), 5000)]", "x": xq[r].tolist(), "gradient_difference": eg,
                         "allowed_error": refs[r]["round"][0]})
                    break
        except KeyError:
            pass
        except Exception as e:  # noqa
            bad("row-agreement|5000-rows|%s" % type(e).__name__, "gradient raises on 5000 rows", {"exception": "%s: %s" % (type(e).__name__, str(e)[:300])})
    # ---- history: multi_time with the states passed by keyword and jit=True, twice on the same predictor with different states:
    #      the second answer is about the second states (agreement with jit=False, which is checked against finite differences above)
    if is_time and not isinstance(p, MultiOutputColumn):
        try:
            mt = [0.5, 1.5]
            xa, xb = xq[:, :-1], xq[::-1, :-1] + 0.0625
            for nm in ("gradient", "hessian", "time_derivative"):
                f_ = getattr(p, nm)
                f_(x=xa, multi_time=mt, jit=True)
                got = np.asarray(f_(x=xb, multi_time=mt, jit=True), dtype=float)
                want = np.asarray(f_(x=np.array(xb, copy=True), multi_time=mt, jit=False), dtype=float)
                st.evals += 3
                scale = float(np.abs(want).max()) + 1.0
                if got.shape != want.shape or not np.allclose(got, want, rtol=1e-6, atol=1e-8 * scale):
                    bad("multi_time-keyword-x|" + nm, "%s(x=..., multi_time=..., jit=True) called a second time with other states does not answer for those states "
                        "(differs from jit=False)" % nm,
                        {"sequence": "p.%s(x=xa, multi_time=[0.5, 1.5], jit=True); p.%s(x=xb, multi_time=[0.5, 1.5], jit=True) vs jit=False" % (nm, nm),
                         "xa": xa.tolist(), "xb": xb.tolist(), "max_difference": float(np.abs(got - want).max()) if got.shape == want.shape else "shape"})
                    break
        except Exception as e:  # noqa
            bad("multi_time-keyword-x|exception|%s" % type(e).__name__, "derivative methods raise when the states are passed by keyword with multi_time",
                {"exception": "%s: %s" % (type(e).__name__, str(e)[:300])})
    # ---- history: a NumPy buffer refilled in place between two calls - derivatives are those at the buffer's CURRENT rows
    if not isinstance(p, MultiOutputColumn):
        try:
            buf = np.array(xq, dtype=float, copy=True)
            for nm in ("gradient", "hessian"):
                meth(nm, buf, True)
            alt = np.array(xq[::-1], dtype=float, copy=True)
            alt[:, :d] += 0.03125
            buf[...] = alt
            for nm in ("gradient", "hessian"):
                got, want = meth(nm, buf, True), meth(nm, np.array(alt, copy=True), True)
                st.evals += 2
                if not np.array_equal(got, want, equal_nan=True):
                    bad("buffer-reuse|" + nm, "%s(buf) after the NumPy buffer was refilled in place differs from %s on a fresh copy of the same rows" % (nm, nm),
                        {"sequence": "buf = x.copy(); p.%s(buf); buf[...] = alt; p.%s(buf) vs p.%s(alt.copy())" % (nm, nm, nm), "alt": alt.tolist(),
                         "max_difference": float(np.nanmax(np.abs(got - want))) if got.shape == want.shape else "shape"})
                    break
        except Exception as e:  # noqa
            bad("buffer-reuse|exception|%s" % type(e).__name__, "derivative methods raise on a refilled buffer",
                {"exception": "%s: %s" % (type(e).__name__, str(e)[:300])})
    return ref0


def plan(ctx):
    """(estimator, gp_type, kernel, d) cells; quick: 9 classes once each, kernels and 1..6 features spread by a
    seed-dependent Latin arrangement; thorough: 9 classes x 3 kernels x all feature counts"""
    rng = np.random.default_rng(ctx.seed)
    cells = []
    if ctx.thorough:
        for ei, est in enumerate(ESTIMATORS):
            for gi, gp in enumerate(GP_TYPES):
                for ki, kern in enumerate(KERNELS):
                    for d in ([1, 2, 3, 4, 5] if est == "time" else [1, 2, 3, 4, 5, 6]):
                        cells.append((est, gp, kern, d))
    else:
        koff = int(rng.integers(0, 3))
        dperm = list(rng.permutation(6) + 1)
        dlist = dperm + list(rng.permutation(6)[:3] + 1)
        i = 0
        for ei, est in enumerate(ESTIMATORS):
            for gi, gp in enumerate(GP_TYPES):
                d = int(dlist[i])
                if est == "time" and d == 6:
                    d = 5          # 6 features = 5 state coordinates + time
                cells.append((est, gp, KERNELS[(ei + gi + koff) % 3], d))
                i += 1
    return [dict(est=e, gp=g, kernel=k, d=int(d), n=24 if not ctx.thorough else 30, n_landmarks=8,
                 data_seed=int(ctx.seed) * 1000 + j) for j, (e, g, k, d) in enumerate(cells)]


def autodiff_contract(ctx, st):
    """jax.jacrev / jax.jacfwd(jax.jacrev) as used by mellon.derivatives, on a function with closed-form derivatives"""
    import importlib
    import jax.numpy as jnp
    md = importlib.import_module("mellon.derivatives")
    jax = md.jax
    rng = np.random.default_rng(ctx.seed + 77)
    bad = 0
    for d in (1, 2, 4, 6):
        A = rng.normal(size=(d, d))
        b = rng.normal(size=d)
        x = rng.normal(size=d)

        def f(z):
            return jnp.exp(jnp.dot(b, z) * 0.3) + 0.5 * jnp.dot(z, jnp.dot(A, z))
        e = np.exp(0.3 * b @ x)
        g_true = 0.3 * b * e + 0.5 * (A + A.T) @ x
        H_true = 0.09 * np.outer(b, b) * e + 0.5 * (A + A.T)
        g = np.asarray(jax.jacrev(f)(jnp.asarray(x)))
        H = np.asarray(jax.jacfwd(jax.jacrev(f))(jnp.asarray(x)))
        tol_g = 64 * d * fd.U * (np.abs(0.3 * b * e) + 0.5 * (np.abs(A) + np.abs(A.T)) @ np.abs(x)).max()
        tol_H = 64 * d * fd.U * (np.abs(0.09 * np.outer(b, b) * e) + 0.5 * (np.abs(A) + np.abs(A.T))).max()
        st.evals += 2
        if g.shape != (d,) or H.shape != (d, d) or np.abs(g - g_true).max() > tol_g or np.abs(H - H_true).max() > tol_H:
            bad += 1
            ctx.broken.append(Broken("contract", "autodiff", "jacrev / jacfwd(jacrev) disagree with the closed form at d=%d" % d))
    return 4 - bad


def live_class_table(ctx, meta_human, predictors):
    """the generated method-resolution / __call__ binding facts against the live classes"""
    import importlib
    bp = importlib.import_module("mellon.base_predictor")
    n = 0
    rows = {(h["cls"], h["method"]): h for h in meta_human}
    for cname, p in predictors.items():
        K = type(p)
        base = [b for b in ("ExpPredictor", "PredictorTime", "Predictor") if issubclass(K, getattr(bp, b))][0]
        for m in c12_wiring.METHODS:
            h = rows.get((base, m))
            f = getattr(K, m, None)
            n += 1
            if h is None:
                if f is not None:
                    ctx.broken.append(Broken("correspondence", "method-table", "%s has %s but the table has no row" % (cname, m)))
                continue
            q = getattr(f, "__qualname__", "")
            if q != "%s.%s" % (h["defined_in"], m):
                ctx.broken.append(Broken("correspondence", "method-table", "%s.%s resolves to %s, table says %s" % (cname, m, q, h["defined_in"])))
        n += 1
        if getattr(K.__call__, "__qualname__", "") != "%s.mean" % base or K.__call__ is not K.mean:
            ctx.broken.append(Broken("correspondence", "call-binding", "%s.__call__ is %s" % (cname, getattr(K.__call__, "__qualname__", "?"))))
    return n


def shape_model_cases(ctx, observed):
    """evaluate the generated shape model inside Coq on the (n, d, m) that were run; compare exactly"""
    if not observed:
        return 0
    lines = ["From Coq Require Import List.", "From MellonV Require Import DerivSem C12Wiring.", "Import ListNotations.", "Open Scope nat_scope."]
    keys = sorted(observed)
    for (fn, n, d, m) in keys:
        lines.append("Eval vm_compute in (out_shape (deriv_table %s) %d%%nat %d%%nat %s)." % (fn, n, d, "None" if m is None else "(Some %d%%nat)" % m))
    out = ctx.coq_eval("c12_shapes", "\n".join(lines))
    import re
    got = re.findall(r"=\s*\[([^\]]*)\]\s*:\s*shape", out)
    if len(got) != len(keys):
        raise Broken("correspondence", "shape-model", "unparsable Coq output: " + out[-400:])
    for k, g in zip(keys, got):
        model = tuple(int(x) for x in g.replace("%nat", "").split(";") if x.strip())
        if model != tuple(observed[k]):
            ctx.broken.append(Broken("correspondence", "shape-model", "%s: model %s, implementation %s" % (k, model, observed[k])))
    return len(keys)


def run(ctx):
    import mellon
    mellon.logger.setLevel(logging.CRITICAL)
    ctx.cov["trusted_base"] = TRUSTED_COMMON + [
        "translate/c12_wiring.py (AST pattern extraction of the wiring / derivatives / mean tables; every unrecognised shape is refused)",
        "lib/DerivSem.v: per-row semantics of the tables (vmap with in_axes 0 = one row at a time; validate_time_x merge = state ++ [time], proved in C13; "
        "ensure_2d(validate_array) = identity on a row); tied to the implementation by the finite-difference runs, the live-class table and the exact shape correspondence",
        "autodiff contract: jax.jacrev / jax.jacfwd return the partial derivatives where they exist (Section hypotheses; validated on a closed-form function and, composed, by central differences on every run)",
        "jax.numpy.linalg.slogdet is an uninterpreted Section variable; compared with numpy.linalg.slogdet on every returned Hessian",
        "finite-difference tolerances: derivative bounds W C_k / ls^k with the kernel constants of harness/c12_fd.py",
    ]
    st = Stats()
    human = None
    ok_build = False
    try:
        text, human, meta = c12_wiring.emit(REPO)
        ctx.cov["translated_functions"] = [
            "mellon.base_predictor.{Predictor,ExpPredictor,PredictorTime}.{mean,__call__ binding,gradient,hessian,hessian_log_determinant,time_derivative} (wiring table)",
            "mellon.derivatives.{gradient,hessian,hessian_log_determinant} (operator / vmap / reshape table)",
            "mellon.conditional.{_FullConditional,_LandmarksConditional,_LandmarksConditionalCholesky}._mean (affine read-out form) + 9 concrete class headers"]
        ctx.cov["wiring_table"] = human
        ctx.cov["class_table"] = meta
        # the analytic theorems (mean_gradient_formula) are about the kernel expressions of C05 / C11: regenerate those
        # definitions from the CURRENT tree with the same translator (same file names and content as checks/C05.py)
        gen = {}
        try:
            gen_k, funcs_k = pyscalar.translate_kernels(REPO)
            gen.update(gen_k)
            ctx.cov["translated_functions"] += ["world-A kernel definitions (translate/pyscalar.translate_kernels): %d functions" % len(funcs_k)]
        except pyscalar.Unsupported as u:
            ctx.broken.append(Broken("translation", "kernels", str(u)))
        gen["gen/C12Wiring.v"] = text
        ok_build = ctx.build_props(gen)
    except Unsupported as u:
        ctx.broken.append(Broken("translation", "C12 tables", str(u)))

    contracts = autodiff_contract(ctx, st)
    cfgs = plan(ctx)
    predictors = {}
    shapes = {}
    k_rows = 6 if ctx.thorough else 4
    t_fit = 0.0
    for cfg in cfgs:
        t0 = time.time()
        try:
            p, X = fit(cfg)
        except Exception as e:  # noqa
            ctx.broken.append(Broken("harness", "fit", "%r: %s: %s" % (cfg, type(e).__name__, str(e)[:300])))
            continue
        t_fit += time.time() - t0
        cname = type(p).__name__
        if cname != EXPECTED_CLASS[(cfg["est"], cfg["gp"])]:
            ctx.broken.append(Broken("harness", "predictor-class", "%r gave %s" % (cfg, cname)))
            continue
        predictors.setdefault(cname, p)
        info = fd.Info(p)
        xq = fd.query_points(np.random.default_rng(cfg["data_seed"] + 5), info, X, k_rows, TIMES)
        if xq.shape[0] < 2:         # no room at the margin for query points in this data set: nothing to compare (counted)
            st.dist["skipped: no query points at the margin"] = st.dist.get("skipped: no query points at the margin", 0) + 1
            continue
        cfg = dict(cfg, query_rows=xq.tolist())
        check_predictor(ctx, cfg, p, X, xq, st, info)
        key = "%s/%s/d=%d" % (cname, cfg["kernel"], cfg["d"])
        st.dist[key] = st.dist.get(key, 0) + 1
    shapes.update(st.shapes)
    # multi-output predictors (function estimation): the stride-2 reshape rule of the shape model, and - column by
    # column - every run-time clause of check_predictor (finite differences with derived bounds, symmetry, slogdet, jit)
    try:
        rng = np.random.default_rng(ctx.seed + 3)
        Xf = rng.normal(size=(18, 2))
        Yf = np.stack([np.sin(Xf[:, 0]), Xf[:, 1] ** 2, Xf[:, 0] * Xf[:, 1]], axis=1)
        ef = mellon.FunctionEstimator(gp_type="full", ls=1.0, sigma=0.1)
        ef.fit(Xf, Yf)
        pf = ef.predict
        xq = rng.normal(size=(5, 2))
        shapes[("DGradient", 5, 2, 3)] = tuple(np.asarray(pf.gradient(xq)).shape)
        shapes[("DHessian", 5, 2, 3)] = tuple(np.asarray(pf.hessian(xq)).shape)
        shapes[("DHessLogDet", 5, 2, 3)] = tuple(np.asarray(pf.hessian_log_determinant(xq)[0]).shape)
        infof = fd.Info(pf)
        xqf = fd.query_points(np.random.default_rng(ctx.seed + 11), infof, Xf, 3 if not ctx.thorough else 6)
        for kcol in (range(Yf.shape[1]) if xqf.shape[0] >= 2 else ()):
            view = ColumnView(pf, kcol)
            cfgf = dict(estimator="FunctionEstimator", gp_type="full", kernel="Matern52", d=2, n=18, columns=3, column=kcol,
                        data="X = default_rng(seed+3).normal(size=(18,2)); Y = [sin x0, x1^2, x0*x1]; FunctionEstimator(gp_type='full', ls=1.0, sigma=0.1).fit(X, Y)",
                        seed=ctx.seed, query_rows=xqf.tolist())
            check_predictor(ctx, cfgf, view, Xf, xqf, st, fd.Info(view))
            st.dist["multi-output column"] = st.dist.get("multi-output column", 0) + 1
    except Exception as e:  # noqa
        ctx.broken.append(Broken("harness", "function-estimator", "%s: %s" % (type(e).__name__, str(e)[:300])))
    n_shape = 0
    if ok_build:
        try:
            n_shape = shape_model_cases(ctx, shapes)
        except Broken as b:
            ctx.broken.append(b)
    n_live = live_class_table(ctx, human, predictors) if human else 0
    if len(predictors) != 9:
        ctx.broken.append(Broken("harness", "coverage", "only %d of the 9 predictor classes were fitted: %s" % (len(predictors), sorted(predictors))))

    ctx.cov["evaluations"] = st.evals + n_shape + n_live
    ctx.cov["traces_validated_against_impl"] = n_shape + n_live
    ctx.cov["distinct_nontrivial"] = len(st.nontrivial)
    ctx.cov["contracts_validated"] = {"autodiff closed-form cases": contracts, "slogdet vs numpy on returned hessians": "every row",
                                      "live-class table rows": n_live, "shape-model cases (exact)": n_shape}
    ctx.cov["rule"] = ("%d fitted predictors (all 9 classes; kernels Matern52/ExpQuad/RatQuad; 1..6 features), %d query rows each at a margin of %.2f ls from "
                       "every conditioning point, jit on/off x one row/many rows: gradient, hessian, time_derivative against central differences of the CALLED "
                       "value with derived step/tolerance; hessian symmetry; (sign, logdet) against numpy.linalg.slogdet of the returned hessian; shapes; "
                       "jit / row-count agreement to a derived rounding bound. distinct_nontrivial = (class, kernel, d, row) whose gradient tolerance is "
                       "below 1e-3 of the gradient's size." % (len(cfgs), k_rows, fd.MARGIN))
    ctx.cov["input_distribution"] = st.dist
    ctx.cov["worst_error_over_tolerance"] = {k: {"ratio": v[0], "where": v[1]} for k, v in st.worst.items()}
    ctx.cov["largest_tolerance_relative_to_derivative"] = st.rel_tol
    ctx.cov["samples"] = [dict(c) for c in cfgs[:3]]
    ctx.cov["fit_seconds"] = round(t_fit, 1)
    ctx.assumptions += [
        "autodiff contract (jacrev / jacfwd return partial derivatives) - Section hypothesis; numerically supported on every run",
        "Hessian symmetry and second-derivative values: partial (contract + Schwarz conclusion as hypothesis); supported by second differences on every run",
        "derivative bounds C_k of harness/c12_fd.py (grid suprema x 2) enter only the tolerance of the finite-difference oracle",
    ]


def replay(ctx, rep):
    """re-run the failing configuration of a replay file"""
    import mellon
    mellon.logger.setLevel(logging.CRITICAL)
    r = rep.get("replay", {})
    cfg = r.get("config")
    if not cfg:
        print("replay file has no configuration")
        return 2
    p, X = fit(cfg)
    st = Stats()
    check_predictor(ctx, {k: v for k, v in cfg.items() if k != "query_rows"}, p, X, np.asarray(cfg["query_rows"], dtype=float), st)
    for key, what, _ in ctx.violations[:5]:
        print("REPRODUCED %s: %s" % (key, what))
    return 1 if ctx.violations else 0
