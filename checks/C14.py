"""C14 — within-time-point neighbour distances and sampling normalisation.

Model.  GENERATED on every run from /repo (translate/pylogic_c14.py): the statements of
compute_nn_distances_within_time_points before its loop (time merge, unique times, average count,
normalize / d validation), _get_target_cell_count, validate_normalize_parameter,
compute_average_cell_count, the estimator methods _compute_nn_distances / _compute_ls (with the
distance routine and the length-scale heuristic as function parameters), and three structural tables
(the statement skeleton of the whole function, of compute_nn_distances, and the n_obs wiring).
HAND-WRITTEN (coq/thm/C14Model.v): the `for time in unique_times` loop itself (mask, count guard,
per-group neighbour oracle, factor, order-preserving scatter).  The loop is not translated because the
logic translator has no loop construct; it is tied to the source by the generated skeleton table
(theorem C14_skeleton compares it statement by statement) and by the executable correspondence below.
The nearest-neighbour search of one group (sklearn KDTree/BallTree) and the real power function are
parameters of the model (library oracles); the contract of the former is validated against brute force
on every recorded call, the latter is tabulated with 60-digit decimal arithmetic for the run.
"""
import ast
import decimal
import importlib
import logging
import math
import random
from fractions import Fraction

import numpy as np

from translate.pylogic import Unsupported, Module
from translate.pylogic_c14 import Translator14, skeleton, coq_string_list
from vlib import enc
from vlib.core import Broken, TRUSTED_COMMON, REPO

TSDE = "mellon.time_sensitive_density_estimator.TimeSensitiveDensityEstimator."
NNWT = "mellon.parameters.compute_nn_distances_within_time_points"
U = 2.0 ** -53
IMPORTS = "PyVal PyValExtC14 C14Gen C14Model"


def n_obs_wiring():
    """the statement `<predictor>.n_obs = compute_average_cell_count(a, b)` of _set_log_density_func with a, b resolved
    through the method's simple local assignments"""
    m = Module(REPO, "mellon/time_sensitive_density_estimator.py")
    cls = m.classes["TimeSensitiveDensityEstimator"]
    fn = [n for n in cls.body if isinstance(n, ast.FunctionDef) and n.name == "_set_log_density_func"]
    if len(fn) != 1:
        raise Unsupported("_set_log_density_func not found")
    env = {}
    hits = []
    for st in fn[0].body:
        if isinstance(st, ast.Assign) and len(st.targets) == 1 and isinstance(st.targets[0], ast.Name):
            env[st.targets[0].id] = ast.unparse(st.value)
        if isinstance(st, ast.Assign) and len(st.targets) == 1 and isinstance(st.targets[0], ast.Attribute) \
                and st.targets[0].attr == "n_obs":
            v = st.value
            tgt = ast.unparse(st.targets[0].value)

            def res(e):
                return env.get(e.id, e.id) if isinstance(e, ast.Name) else ast.unparse(e)
            if isinstance(v, ast.Call) and isinstance(v.func, ast.Name) and not v.keywords:
                hits.append([tgt + ".n_obs", v.func.id] + [res(a) for a in v.args])
            else:
                hits.append([tgt + ".n_obs", ast.unparse(v)])
    if len(hits) != 1:
        raise Unsupported("n_obs assignment: %r" % (hits,))
    stored = [ast.unparse(st.value) for st in fn[0].body if isinstance(st, ast.Assign) and len(st.targets) == 1
              and ast.unparse(st.targets[0]) == "self.log_density_func"]
    return hits[0] + ["stored:" + ",".join(stored)]


def translate():
    tr = Translator14(REPO)
    tr.translate("mellon.parameters._get_target_cell_count")
    tr.translate("mellon.parameter_validation.validate_normalize_parameter")
    tr.translate("mellon.parameters.compute_average_cell_count")
    tr.translate_slice(NNWT, "nnwt_prologue", ast.For, ["x", "unique_times", "nn_distances", "av_cells_per_tp", "d"])
    tr.translate(TSDE + "_compute_nn_distances", coq_name="tsde_compute_nn_distances",
                 fun_oracles={"compute_nn_distances_within_time_points": "nnw"})
    tr.translate(TSDE + "_compute_ls", coq_name="tsde_compute_ls",
                 fun_oracles={"compute_nn_distances_within_time_points": "nnw", "compute_ls": "ls_of"})
    text = tr.emit(header_imports=("PyVal", "PyValExtC14"))
    m = Module(REPO, "mellon/parameters.py")
    text += "\n(* structural tables *)\n"
    text += coq_string_list("nnwt_skeleton", skeleton(m.funcs["compute_nn_distances_within_time_points"].body)) + "\n"
    text += coq_string_list("compute_nn_distances_skeleton", skeleton(m.funcs["compute_nn_distances"].body)) + "\n"
    text += coq_string_list("n_obs_wiring", n_obs_wiring()) + "\n"
    funcs = ["mellon.parameters._get_target_cell_count", "mellon.parameter_validation.validate_normalize_parameter",
             "mellon.parameters.compute_average_cell_count", NNWT + " (prologue: statements before the loop)",
             "mellon.validation.validate_time_x", "mellon.validation.validate_array",
             "mellon.validation.validate_float_or_iterable_numerical", "mellon.validation.validate_nn_distances",
             TSDE + "_compute_nn_distances", TSDE + "_compute_ls",
             "skeleton table of " + NNWT, "skeleton table of compute_nn_distances", "n_obs wiring table of _set_log_density_func"]
    return {"gen/C14Gen.v": text}, funcs


# ---------------------------------------------------------------------------
# data

def dy(rng, lo=-16, hi=16, den=4):
    return rng.randrange(lo * den, hi * den) / float(den)


def make_dataset(rng, k, dim, singleton=False):
    """k time points of unequal sizes, unsorted non-integer stamps, shuffled cells; exactly representable values;
    feature 0 identifies the cell (used by the labelling stand-in of the neighbour search)"""
    stamps = set()
    while len(stamps) < k:
        stamps.add(rng.choice([dy(rng, -4, 9, 4), float(rng.randrange(0, 12)), dy(rng, 0, 6, 8)]))
    stamps = list(stamps)
    rng.shuffle(stamps)
    sizes = [2 + rng.randrange(0, 4) + (j % 3) for j in range(k)]
    if singleton:
        sizes[rng.randrange(k)] = 1
    t = []
    for s, n_s in zip(stamps, sizes):
        t += [s] * n_s
    rng.shuffle(t)
    n = len(t)
    ids = list(range(1, n + 1))
    rng.shuffle(ids)
    X = np.zeros((n, dim))
    X[:, 0] = np.asarray(ids) / 4.0
    for c in range(1, dim):
        X[:, c] = [dy(rng) for _ in range(n)]
    return X, np.asarray(t, dtype=float)


def time_forms(X, t):
    Xt = np.concatenate([X, t[:, None]], axis=1)
    return {"column": (Xt, None), "vector": (X, t.copy()), "colvec": (X, t[:, None].copy()), "list": (X, [float(v) for v in t])}


def normalize_forms(rng, uts):
    import jax.numpy as jnp
    k = len(uts)
    counts = [rng.choice([3, 5, 8, 10, 16, 24, 40]) for _ in range(k)]
    fcounts = [c + rng.choice([0.0, 0.5]) for c in counts]
    keys = list(uts)
    rng.shuffle(keys)
    cof = dict(zip(uts, counts))
    forms = {
        "False": False, "None": None, "True": True,
        "list": list(counts), "list-float": list(fcounts), "tuple": tuple(counts),
        "ndarray": np.asarray(counts), "jax-array": jnp.asarray(fcounts),
        "dict": {float(u): cof[u] for u in keys},
        "dict-extra": dict([(float(u), cof[u]) for u in keys] + [(97.0, 1000)]),
        "dict-missing": {float(u): cof[u] for u in keys[:-1]},
        "list-long": list(counts) + [7], "list-short": list(counts)[:-1],
        "jax-array-long": jnp.asarray(fcounts + [7.0]), "ndarray-long": np.asarray(counts + [7]),
        "ndarray-short": np.asarray(counts[:-1], dtype=int),
        "int": 1, "str": "yes",
    }
    if all(float(u).is_integer() for u in uts):
        forms["dict-int-keys"] = {int(u): cof[u] for u in keys}
    return forms


def d_forms(rng, n):
    per = [float(rng.choice([1, 2, 3, 4])) for _ in range(n)]
    return {"None": None, "int-1": 1, "int-2": 2, "float": 2.5, "0-d": np.asarray(3.0),
            "per-cell-ndarray": np.asarray(per), "per-cell-list": list(per),
            "wrong-length": np.asarray(per + [2.0]), "negative": -1.0, "str": "2"}


def norm_on(nz):
    return nz is not False and nz is not None


def stub_nn(xg):
    """labelling stand-in for compute_nn_distances (same definition as C14Model.stub_nn)"""
    xg = np.asarray(xg, dtype=float)
    f = xg[:, 0]
    s = float(np.sum(np.arange(1, len(f) + 1) * f))
    return f + 1024.0 * s


def dec_pow(b, e):
    """the real power b**e for rationals b > 0, e, correctly rounded to a double (60 digits)"""
    decimal.getcontext().prec = 60
    if b <= 0:
        return None
    x = (decimal.Decimal(b.numerator) / decimal.Decimal(b.denominator)).ln() * \
        (decimal.Decimal(e.numerator) / decimal.Decimal(e.denominator))
    return float(x.exp())


def target_candidates(nz, n, k):
    out = {Fraction(n, k)}
    vals = []
    if isinstance(nz, dict):
        vals = list(nz.values())
    elif isinstance(nz, (list, tuple)) or hasattr(nz, "shape"):
        vals = list(np.asarray(nz).ravel())
    for v in vals:
        try:
            out.add(Fraction(float(v)))
        except (TypeError, ValueError):
            pass
    return out


def d_candidates(d):
    if d is None or isinstance(d, str):
        return set()
    try:
        return {Fraction(float(v)) for v in np.asarray(d, dtype=float).ravel()}
    except (TypeError, ValueError):
        return set()


def pow_table(t, nz, d):
    """every (base, exponent) pair the model could ask for on this case, with the real power"""
    n = len(t)
    uts = sorted(set(t.tolist()))
    sizes = {int(np.sum(t == u)) for u in uts}
    rows, worst = [], 0.0
    for N in target_candidates(nz, n, len(uts)):
        if N <= 0:
            continue
        for s in sizes:
            b = Fraction(s) / N
            for dv in d_candidates(d):
                if dv <= 0:
                    continue
                e = 1 / dv
                v = dec_pow(b, e)
                if v is None or not math.isfinite(v) or v == 0.0:
                    continue
                rows.append("(XFin %s, XFin %s, %s)" % (enc.Qlit(b), enc.Qlit(e), enc.xf(v)))
                worst = max(worst, abs(float(e) * math.log(float(b))))
    return "[%s]" % "; ".join(rows), worst


def brute_nn(F):
    """nearest other row, Euclidean, brute force"""
    F = np.asarray(F, dtype=float)
    D = np.sqrt(((F[:, None, :] - F[None, :, :]) ** 2).sum(-1))
    np.fill_diagonal(D, np.inf)
    return D.min(axis=1)


def spec_oracle(Xt, d, nz):
    """The property statement, re-derived in NumPy (independent of Mellon):
    returns 'ValueError' or (values, per-cell relative tolerance)."""
    t = Xt[:, -1]
    F = Xt[:, :-1]
    n = len(t)
    uts = sorted(set(t.tolist()))
    k = len(uts)
    if isinstance(nz, dict):
        if any(u not in nz for u in uts):
            return "ValueError"
    elif isinstance(nz, (list, np.ndarray)) or (hasattr(nz, "shape") and not isinstance(nz, (bool, np.bool_))):
        if len(nz) != k:
            return "ValueError"
    out = np.empty(n)
    tol = np.empty(n)
    for i in range(n):
        same = np.flatnonzero(t == t[i])
        if len(same) < 2:
            return "ValueError"
        others = same[same != i]
        nn = float(np.min(np.sqrt(((F[others] - F[i]) ** 2).sum(-1))))
        fac, extra = 1.0, 0.0
        if norm_on(nz):
            if nz is True:
                N = n / k
            elif isinstance(nz, dict):
                N = nz[t[i]]
            else:
                N = float(np.asarray(nz)[uts.index(t[i])])      # ordered from earliest to latest
            di = float(d) if np.ndim(d) == 0 else float(np.asarray(d, dtype=float)[i])
            fac = (len(same) / float(N)) ** (1.0 / di)
            extra = 8 * abs(math.log(len(same) / float(N)) / di)
        out[i] = fac * nn
        tol[i] = (64 + 8 * F.shape[1] + extra) * U
    return out, tol


def run(ctx):
    import jax.numpy as jnp
    import mellon
    mellon.logger.setLevel(logging.CRITICAL)
    logging.getLogger("mellon").setLevel(logging.CRITICAL)
    P = importlib.import_module("mellon.parameters")
    real = P.compute_nn_distances_within_time_points
    G = real.__globals__                      # the namespace the routine really resolves its callees in
    rng = random.Random(ctx.seed)
    nrng = np.random.default_rng(ctx.seed)
    enc.NP_DISTINCT = True
    ctx.cov["trusted_base"] = TRUSTED_COMMON + [
        "the `for time in unique_times` loop is modelled by hand (coq/thm/C14Model.v): tied by the generated statement skeleton (theorem C14_skeleton) and by the exact correspondence run, not by translation",
        "jnp.unique = ascending de-duplication; boolean-mask selection and .at[mask].set = list select/scatter (C14Model.v); further NumPy/JAX primitives of coq/lib/PyValExtC14.v (compared exactly with the implementation on every case of this run)",
        "the nearest-neighbour search of one group (sklearn KDTree/BallTree via compute_distances) is an oracle with the contract 'distance to the closest other row, in row order', validated against brute force on every recorded call",
        "the real power function is a parameter of the model; for the executable run it is tabulated with 60-digit decimal arithmetic",
    ]
    ctx.assumptions += ["floating-point rounding of n_t/N_t, 1/d, pow and the product is outside the exact model: compared within (16 + 8|ln(n_t/N_t)/d|) * 2^-53 relative (derived from one rounding per operation, pow <= 4 ulp)"]
    gen = None
    try:
        gen, funcs = translate()
        ctx.cov["translated_functions"] = funcs
        if not ctx.build_props(gen):
            pass
    except Unsupported as u:
        ctx.broken.append(Broken("translation", "C14 targets", str(u)))
        gen = None

    dist = {}

    def count(key):
        dist[key] = dist.get(key, 0) + 1

    # ------------------------------------------------------------------
    # A. the generated helper functions, exact
    casesA, metaA = [], []
    ks = [1, 2, 3, 5, 8] if ctx.thorough else [1, 3, 6]
    for k in ks:
        X, t = make_dataset(rng, k, 1 + rng.randrange(3))
        Xt = jnp.asarray(np.concatenate([X, t[:, None]], axis=1))
        uts_np = np.unique(t)
        uts = jnp.unique(Xt[:, -1])
        av = X.shape[0] / len(uts_np)
        for fname, nz in normalize_forms(rng, [float(u) for u in uts_np]).items():
            o = enc.outcome(lambda: G["validate_normalize_parameter"](nz, uts))
            casesA.append(("py_parameter_validation_validate_normalize_parameter %s %s" % (enc.val(nz), enc.val(uts)), enc.res(o)))
            metaA.append({"fn": "validate_normalize_parameter", "normalize": fname, "k": k, "impl": "ok" if o[0] == "ok" else o[1]})
            count("validate_normalize/%s/%s" % (fname, metaA[-1]["impl"]))
            if hasattr(nz, "__len__") and not isinstance(nz, (str, dict)) and len(nz) == 0:
                continue        # mean of an empty sequence: float 0/0 is outside the rational model
            o = enc.outcome(lambda: float(G["compute_average_cell_count"](Xt, nz)))
            casesA.append(("res_close 2 9007199254740992 (bind (py_parameters_compute_average_cell_count %s %s) py_float) %s"
                           % (enc.val(Xt), enc.val(nz), enc.res(o)), "(Ok (VBool true))"))
            metaA.append({"fn": "compute_average_cell_count", "normalize": fname, "k": k, "impl": o[1] if o[0] == "err" else "ok"})
            count("average_cell_count/%s/%s" % (fname, "ok" if o[0] == "ok" else o[1]))
            if fname in ("False", "None"):
                continue
            for time in uts:
                o = enc.outcome(lambda: float(G["_get_target_cell_count"](nz, time, av, uts)))
                casesA.append(("bind (py_parameters__get_target_cell_count %s %s %s %s) py_float"
                               % (enc.val(nz), enc.val(time), enc.val(av), enc.val(uts)), enc.res(o)))
                metaA.append({"fn": "_get_target_cell_count", "normalize": fname, "k": k, "time": float(time),
                              "impl": o[1]})
                count("target_cell_count/%s/%s" % (fname, "ok" if o[0] == "ok" else o[1]))

    # ------------------------------------------------------------------
    # B. the whole routine with a labelling stand-in for the neighbour search: group membership, order within the
    #    group, placement in the output and the (n_t, N_t, d_i) of every cell, model vs implementation
    casesB, metaB = [], []
    datasets = []
    klist = list(range(1, 9)) if ctx.thorough else [1, 2, 3, 4, 6, 8]
    for k in klist:
        for rep in range(2 if ctx.thorough else 1):
            datasets.append((k, make_dataset(rng, k, 1 + rng.randrange(3)), False))
    datasets.append((3, make_dataset(rng, 3, 2, singleton=True), True))
    datasets.append((1, make_dataset(rng, 1, 1, singleton=True), True))
    orig_nn = G["compute_nn_distances"]
    n_nontrivial = set()
    for k, (X, t), single in datasets:
        n = X.shape[0]
        uts = sorted(set(t.tolist()))
        tforms = time_forms(X, t)
        nforms = normalize_forms(rng, uts)
        dforms = d_forms(rng, n)
        for fname, nz in nforms.items():
            if norm_on(nz):
                dnames = ["int-2", "per-cell-ndarray"] + rng.sample(sorted(set(dforms) - {"int-2", "per-cell-ndarray"}),
                                                                  4 if ctx.thorough else 2)
            else:
                dnames = ["None", rng.choice(["int-2", "str", "wrong-length"])]
            for dname in dnames:
                d = dforms[dname]
                tname = rng.choice(sorted(tforms))
                xv, tv = tforms[tname]
                G["compute_nn_distances"] = stub_nn
                try:
                    o = enc.outcome(lambda: real(xv, tv, d=d, normalize=nz))
                finally:
                    G["compute_nn_distances"] = orig_nn
                tbl, worst = pow_table(t, nz, d) if norm_on(nz) else ("[]", 0.0)
                num = 0 if not norm_on(nz) else int(math.ceil(16 + 8 * worst))
                model = "res_close %d 9007199254740992 (nn_within stub_nn (pow_lookup %s) %s %s %s %s) %s" % (
                    num, tbl, enc.val(xv), enc.val(tv), enc.val(d), enc.val(nz), enc.res(o))
                casesB.append((model, "(Ok (VBool true))"))
                impl = "ok" if o[0] == "ok" else o[1]
                metaB.append({"k": k, "n": n, "times": tname, "normalize": fname, "d": dname, "singleton": single, "impl": impl,
                              "t": t.tolist(), "x0": X[:, 0].tolist()})
                count("routine/%s/%s/%s" % (fname, dname if norm_on(nz) else "-", impl))
                if impl == "ok":
                    n_nontrivial.add((k, n, tname, fname, dname))
                # independent reading of the property on the same call (discrete part): with the labelling oracle and no
                # normalisation the output must be, cell by cell, the label computed from the cells sharing its time stamp
                if o[0] == "ok" and not norm_on(nz):
                    exp = np.empty(n)
                    for u in uts:
                        idx = np.flatnonzero(t == u)
                        exp[idx] = stub_nn(X[idx])
                    if not np.array_equal(np.asarray(o[1]), exp):
                        ctx.violation("C14|grouping|%s" % tname, "cells are not grouped by equal time stamp in the original order",
                                      {"x": X.tolist(), "times": t.tolist(), "time_form": tname, "normalize": fname,
                                       "observed": np.asarray(o[1]).tolist(), "expected": exp.tolist(),
                                       "note": "compute_nn_distances replaced by the labelling stand-in stub_nn of checks/C14.py"})

    badA = badB = {}
    if gen is not None:
        try:
            badA = ctx.run_cases("c14_helpers", IMPORTS, casesA, shard=150)
        except Broken as b:
            ctx.broken.append(b)
        for i, shown in list(badA.items())[:10]:
            ctx.broken.append(Broken("correspondence", metaA[i]["fn"], "case %r: model gives %s" % (metaA[i], shown)))
        try:
            badB = ctx.run_cases("c14_routine", IMPORTS, casesB, shard=40)
        except Broken as b:
            ctx.broken.append(b)
        for i, shown in list(badB.items())[:10]:
            ctx.broken.append(Broken("correspondence", "nn_within", "case %r: model and implementation differ (%s)" % (metaB[i], shown)))

    # ------------------------------------------------------------------
    # C. the real routine against the property statement (independent NumPy oracle), oracle contract on recorded calls
    recorded = []

    def rec_nn(xg):
        r = orig_nn(xg)
        recorded.append((np.asarray(xg, dtype=float).copy(), np.asarray(r, dtype=float).copy()))
        return r
    n_oracle = 0
    n_real = 12 if ctx.thorough else 5
    for rep in range(n_real):
        k = 1 + (rep * 3 + ctx.seed) % 8
        dim = rng.choice([1, 2, 3, 5, 25]) if rep else 25       # 25 features: the BallTree regime
        stamps = nrng.choice(np.arange(-8, 24) / 4.0, size=k, replace=False)
        sizes = [2 + int(nrng.integers(0, 5)) for _ in range(k)]
        t = np.repeat(stamps, sizes)
        nrng.shuffle(t)
        n = len(t)
        X = nrng.normal(size=(n, dim))
        if rep % 2:
            X = np.round(X * 4) / 4          # ties / duplicates between and within groups
        Xt = np.concatenate([X, t[:, None]], axis=1)
        uts = sorted(set(t.tolist()))
        tforms = time_forms(X, t)
        for fname, nz in normalize_forms(rng, uts).items():
            if fname in ("int", "str"):
                continue
            for dname in (["int-2", "float", "per-cell-ndarray", "int-1"] if norm_on(nz) else ["None"]):
                d = d_forms(rng, n)[dname]
                tname = rng.choice(sorted(tforms))
                xv, tv = tforms[tname]
                G["compute_nn_distances"] = rec_nn
                try:
                    o = enc.outcome(lambda: np.asarray(real(xv, tv, d=d, normalize=nz)))
                finally:
                    G["compute_nn_distances"] = orig_nn
                exp = spec_oracle(Xt, d, nz)
                n_oracle += 1
                replay = {"x": X.tolist(), "times": t.tolist(), "time_form": tname, "normalize_form": fname,
                          "normalize": repr(nz), "d": repr(d), "call": "mellon.parameters.compute_nn_distances_within_time_points(x, times, d, normalize)"}
                if isinstance(exp, str):
                    if o != ("err", exp):
                        ctx.violation("C14|refusal|%s|%s" % (fname, o[1] if o[0] == "err" else "accepted"),
                                      "an input the property says is refused with ValueError is not",
                                      dict(replay, expected=exp, observed=o[1] if o[0] == "err" else "accepted"))
                    continue
                vals, tol = exp
                if o[0] != "ok":
                    ctx.violation("C14|routine|%s|%s" % (fname, o[1]), "a well-formed input is refused", dict(replay, observed=o[1]))
                    continue
                got = o[1]
                bad = np.flatnonzero(~(np.abs(got - vals) <= tol * np.abs(vals)))
                if got.shape != vals.shape or len(bad):
                    i = int(bad[0]) if len(bad) else -1
                    ctx.violation("C14|value|%s|%s" % (fname, "scalar-d" if np.ndim(d) == 0 else "per-cell-d"),
                                  "distance of a cell is not factor(t_i) * distance to the closest other cell with the same time stamp",
                                  dict(replay, cell=i, expected=vals.tolist(), observed=got.tolist()))
    bad_contract = 0
    for xg, r in recorded:
        ref = brute_nn(xg)
        if r.shape != ref.shape or not np.all(np.abs(r - ref) <= (64 + 8 * xg.shape[1]) * U * np.maximum(ref, 1e-300)):
            bad_contract += 1
    if bad_contract:
        ctx.broken.append(Broken("contract", "compute_nn_distances", "%d of %d recorded calls are not the brute-force nearest-other-row distances"
                                 % (bad_contract, len(recorded))))
    ctx.cov["contracts_validated"] = {"compute_nn_distances (KDTree/BallTree) = brute-force nearest other row, row order": len(recorded)}

    # ------------------------------------------------------------------
    # D. real fits: est.nn_distances, est.ls (raw distances), est.predict.n_obs, explicit nn_distances untouched
    fits = 0
    k = 3
    sizes = [5, 9, 7]
    stamps = [1.5, 0.25, 3.0]
    t = np.repeat(stamps, sizes)
    nrng.shuffle(t)
    n = len(t)
    X = nrng.normal(size=(n, 2))
    Xt = np.concatenate([X, t[:, None]], axis=1)
    uts = sorted(stamps)
    counts = [40, 10, 25]
    raw, _ = spec_oracle(Xt, None, False)
    fit_forms = [("False", False), ("True", True), ("list", list(counts)), ("dict", {1.5: 10, 3.0: 25, 0.25: 40}),
                 ("jax-array", jnp.asarray([float(c) for c in counts])), ("ndarray", np.asarray(counts)),
                 ("dict-extra", {1.5: 10, 3.0: 25, 0.25: 40, 97.0: 1000})]
    if ctx.thorough:
        fit_forms += [("None", None), ("tuple", tuple(counts))]
    for fname, nz in fit_forms:
        for dname, dval in ([("default", None), ("d=1", 1)] if (ctx.thorough or fname in ("True", "list")) else [("default", None)]):
            def fit():
                est = mellon.TimeSensitiveDensityEstimator(n_landmarks=0, ls_time=1.0, normalize_per_time_point=nz, d=dval)
                est.fit(Xt)
                return est
            o = enc.outcome(fit)
            fits += 1
            d_eff = 2 if dval is None else dval
            replay = {"x": X.tolist(), "times": t.tolist(), "normalize_per_time_point": repr(nz), "d": dval,
                      "call": "TimeSensitiveDensityEstimator(n_landmarks=0, ls_time=1.0, normalize_per_time_point=..., d=...).fit(x)"}
            if o[0] == "err":
                if fname == "tuple":
                    continue        # tuples are not among the documented forms
                ctx.violation("C14|fit|%s|%s" % (fname, o[1]), "a documented normalize_per_time_point form cannot be fitted",
                              dict(replay, exception=o[1]))
                continue
            est = o[1]
            exp, tol = spec_oracle(Xt, d_eff, nz)
            got = np.asarray(est.nn_distances)
            if not np.all(np.abs(got - exp) <= tol * np.abs(exp)):
                ctx.violation("C14|fit-nn|%s" % fname, "est.nn_distances is not the (normalised) within-time-point distance",
                              dict(replay, expected=exp.tolist(), observed=got.tolist()))
            ls_raw = math.exp(float(np.mean(np.log(raw))) + 3.0)
            if not abs(float(est.ls) - ls_raw) <= 1e-12 * ls_raw:
                ctx.violation("C14|fit-ls|%s" % fname, "the length-scale heuristic does not use the un-normalised distances",
                              dict(replay, expected_ls=ls_raw, observed_ls=float(est.ls),
                                   ls_from_normalised=math.exp(float(np.mean(np.log(exp))) + 3.0)))
            if nz is None or isinstance(nz, bool):
                n_exp = n / k
            elif isinstance(nz, dict):
                n_exp = sum(nz[u] for u in uts) / k
            else:
                n_exp = float(np.sum(np.asarray(nz))) / k
            n_got = enc.outcome(lambda: float(est.predict.n_obs))
            if n_got[0] != "ok" or not abs(n_got[1] - n_exp) <= 4 * U * n_exp:
                ctx.violation("C14|n_obs|%s" % fname, "the predictor's normalisation count is not the average target count per time point",
                              dict(replay, expected_n_obs=n_exp, observed=n_got[1]))
    # explicit distances are used untouched (also when normalisation is on)
    given = np.abs(nrng.normal(size=n)) + 0.5
    for nz in (False, True):
        est = mellon.TimeSensitiveDensityEstimator(n_landmarks=0, ls_time=1.0, normalize_per_time_point=nz, nn_distances=given)
        est.prepare_inference(Xt)
        fits += 1
        if not np.array_equal(np.asarray(est.nn_distances), given):
            ctx.violation("C14|explicit-nn|%s" % nz, "explicitly supplied nearest-neighbour distances are modified",
                          {"x": X.tolist(), "times": t.tolist(), "nn_distances": given.tolist(), "normalize_per_time_point": nz,
                           "observed": np.asarray(est.nn_distances).tolist()})

    ctx.cov["evaluations"] = len(casesA) + len(casesB) + n_oracle + fits
    ctx.cov["traces_validated_against_impl"] = len(casesA) + len(casesB)
    ctx.cov["distinct_nontrivial"] = len(n_nontrivial)
    ctx.cov["real_fits"] = fits
    ctx.cov["rule"] = (
        "A: %d calls of the generated _get_target_cell_count / validate_normalize_parameter / compute_average_cell_count models on every "
        "normalize form (False, None, True, list, tuple, NumPy / JAX array, dict incl. int keys, extra / missing keys, wrong lengths, ill-typed) "
        "compared exactly (averages within 1 ulp of the exact rational); B: %d calls of the whole routine (1..8 time points of unequal sizes, "
        "unsorted non-integer stamps, 4 time forms, all normalize forms, scalar / 0-d / per-cell / malformed d, singleton groups) with the "
        "neighbour search replaced on BOTH sides by a labelling function of the group (row, position, group content), model evaluated in Coq, "
        "outcome (exception class | every output entry) compared exactly without normalisation and within the derived rounding bound with it; "
        "C: %d calls of the unmodified routine against the NumPy re-derivation of the property statement (brute-force neighbours), %d recorded "
        "neighbour-search calls checked against brute force; D: %d real TimeSensitiveDensityEstimator fits (nn_distances, ls from raw distances, "
        "predict.n_obs, explicit nn_distances). distinct_nontrivial = distinct accepted (k, n, time form, normalize form, d form) of B."
        % (len(casesA), len(casesB), n_oracle, len(recorded), fits))
    ctx.cov["input_distribution"] = dist
    ctx.cov["samples"] = [{k_: v for k_, v in m.items() if k_ not in ("t", "x0")} for m in (metaB[:2] + metaB[len(metaB) // 2: len(metaB) // 2 + 2])] + metaA[:2]
