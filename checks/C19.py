"""C19 — covariance-function and value serialization is a faithful inverse pair.

Model: coq/lib/Serial.v is written by hand (the functions are recursive and comprehension based);
it is tied to the code by running model and implementation on the same grammar-generated values
and kernel expressions and comparing every intermediate (serialised form, JSON round trip,
restored value / expression) exactly."""
import itertools
import json
import logging
import math
import random

import numpy as np

from vlib import enc
from vlib.core import Broken, TRUSTED_COMMON, REPO


# ---------------------------------------------------------------- encoders
def canon(v):
    """canonical form for comparison: 'set' payloads sorted; python sets sorted"""
    if isinstance(v, dict):
        d = {k: canon(x) for k, x in v.items()}
        if d.get("type") == "set" and isinstance(d.get("data"), list):
            d["data"] = sorted(d["data"], key=lambda x: json.dumps(x, sort_keys=True, default=str))
        return d
    if isinstance(v, (list, tuple)):
        return type(v)(canon(x) for x in v)
    return v


def sorted_set(s):
    return sorted(s, key=lambda x: (str(type(x)), repr(x)))


def encv(v):
    """Python value -> Gallina val, sets in canonical order, numpy arrays distinct from JAX arrays"""
    if isinstance(v, (set, frozenset)):
        return "(VSet [%s])" % "; ".join(encv(x) for x in sorted_set(v))
    if isinstance(v, dict):
        return "(VDict [%s])" % "; ".join("(%s, %s)" % (encv(k), encv(x)) for k, x in v.items())
    if isinstance(v, list):
        return "(VList [%s])" % "; ".join(encv(x) for x in v)
    if isinstance(v, tuple):
        return "(VTuple [%s])" % "; ".join(encv(x) for x in v)
    if isinstance(v, slice):
        return "(VSlice %s %s %s)" % (encv(v.start), encv(v.stop), encv(v.step))
    return enc.val(v)


def same_value(a, b):
    """equality up to: numpy/JAX scalar vs Python scalar of equal value; floats by bits (NaN == NaN, -0.0 != 0.0)"""
    import jax
    if isinstance(a, (np.ndarray, jax.Array)) or isinstance(b, (np.ndarray, jax.Array)):
        if not (isinstance(a, (np.ndarray, jax.Array)) and isinstance(b, (np.ndarray, jax.Array))):
            return False
        a_, b_ = np.asarray(a), np.asarray(b)
        return a_.shape == b_.shape and a_.dtype == b_.dtype and a_.tobytes() == b_.tobytes()
    if isinstance(a, (np.floating, float)) and isinstance(b, (np.floating, float)) and not isinstance(a, bool) and not isinstance(b, bool):
        return np.float64(a).tobytes() == np.float64(b).tobytes()
    if isinstance(a, (np.integer, int)) and isinstance(b, (np.integer, int)) and not isinstance(a, bool) and not isinstance(b, bool):
        return int(a) == int(b)
    if isinstance(a, dict) and isinstance(b, dict):
        return list(a.keys()) == list(b.keys()) and all(same_value(a[k], b[k]) for k in a)
    if isinstance(a, (set, frozenset)) and isinstance(b, (set, frozenset)):
        sa, sb = sorted_set(a), sorted_set(b)
        return len(sa) == len(sb) and all(same_value(x, y) for x, y in zip(sa, sb))
    if isinstance(a, slice) and isinstance(b, slice):
        return all(same_value(x, y) for x, y in zip((a.start, a.stop, a.step), (b.start, b.stop, b.step)))
    if isinstance(a, (list, tuple)) and isinstance(b, (list, tuple)):
        return len(a) == len(b) and all(same_value(x, y) for x, y in zip(a, b))
    return type(a) is type(b) and a == b


# ---------------------------------------------------------------- generators
def scalars():
    return [None, True, False, 0, 7, -3, 2 ** 40, 0.0, -0.0, 1.5, -2.25, 1e300, 5e-324, float("nan"), float("inf"), float("-inf"),
            "ls", "", "none", "Matern52", np.float64(2.5), np.float64("nan"), np.int64(-4), np.float64(-0.0)]


def arrays(rng):
    import jax.numpy as jnp
    out = []
    shapes = [(), (1,), (3,), (2, 2), (1, 3), (2, 1, 2), (0,), (0, 3), (2, 0), (2, 0, 2)]
    for sh in shapes:
        n = int(np.prod(sh))
        out.append(jnp.asarray(np.asarray([rng.randrange(-50, 50) / 8.0 for _ in range(n)], dtype=np.float64).reshape(sh)))
        out.append(jnp.asarray(np.asarray([rng.randrange(-9, 9) for _ in range(n)], dtype=np.int64).reshape(sh)))
        out.append(jnp.asarray(np.asarray([rng.random() < 0.5 for _ in range(n)], dtype=bool).reshape(sh)))
    out.append(jnp.asarray([float("nan"), -0.0, float("inf"), 5e-324, 1e308]))
    out.append(np.asarray([0, 2]))                       # numpy array-likes (active_dims)
    out.append(np.asarray([True, False, True]))
    out.append(np.asarray([[1.5, 2.5]]))
    return out


def values(rng, thorough):
    base = scalars() + arrays(rng)
    out = list(base)
    out += [slice(None, -1), slice(0, 2), slice(1, None, 2), slice(None, None, None), slice(-3, -1, 1)]
    out += [{"a": 1.5, "b": None}, {}, {"x": {"y": slice(0, 1)}, "arr": base[30]}, {1.5, 2.5}, {"weights", "mu", "x", "L"}, set(),
            {"n": np.int64(3), "s": {"p", "q"}}]
    for _ in range(60 if thorough else 15):
        d = {}
        for j in range(rng.randrange(1, 4)):
            d["k%d" % j] = rng.choice(base + out[-8:])
        out.append(d)
    return out


AD_FORMS = lambda rng: [None, 1, -1, 0, [0, 2], [True, False, True], slice(None, -1), slice(0, 2), np.asarray([0, 1]), "jnp"]      # 0: a legal index that is falsy


def kernels(rng, thorough):
    import jax.numpy as jnp
    import mellon.cov as C
    classes = [C.Matern32, C.Matern52, C.ExpQuad, C.Exponential, C.RatQuad, C.Linear]
    ads = AD_FORMS(rng)

    def base(i, ad):
        cls = classes[i % 6]
        if isinstance(ad, str) and ad == "jnp":
            ad = jnp.asarray([0, 2])
        ls = [1.0, 0.3, 2.5, np.float64(1.75), 10][i % 5]
        if cls is C.RatQuad:
            return cls(alpha=[1.0, 0.5, 3][i % 3], ls=ls, active_dims=ad)
        return cls(ls=ls, active_dims=ad)
    out = []
    i = 0
    for cls_i in range(6):
        for ad in ads:
            out.append(base(cls_i + 6 * i, ad))
            i += 1
    # depth 2: every operator x (kernel | scalar left/right) for a sample of operands
    # "mula" / "adda" / "powa": the scalar operand is a 0-d JAX / NumPy array (e.g. `Matern52(ls) * jnp.var(y)`), which is
    # serialised as a {"type": "jax.numpy", ...} dictionary just like an array-valued attribute
    ops = ["add", "mul", "pow", "radd", "rmul", "adds", "muls", "mula", "adda", "powa"]
    bases = out[:: 5]
    for op in ops:
        for a in bases[: (12 if thorough else 5)]:
            for b in bases[3: (9 if thorough else 5)]:
                if op == "add":
                    e = a + b
                elif op == "mul":
                    e = a * b
                elif op == "pow":
                    e = a ** rng.choice([2, 0.5, 3.0])
                elif op == "radd":
                    e = 2.5 + a
                elif op == "rmul":
                    e = 3 * a
                elif op == "adds":
                    e = a + 0.25
                elif op == "mula":
                    e = a * jnp.asarray(2.5)
                elif op == "adda":
                    e = a + np.asarray(0.125)
                elif op == "powa":
                    e = a ** jnp.asarray(2)
                else:
                    e = a * np.float64(1.5)
                out.append(e)
    # explicit active_dims on pair nodes, depth 3
    from mellon.base_cov import Add, Mul, Pow
    for _ in range(40 if thorough else 10):
        a, b, c = rng.choice(bases), rng.choice(bases), rng.choice(bases)
        ad = rng.choice([None, 0, [0, 1], slice(0, 2)])
        out.append(Add(Mul(a, b, active_dims=ad), Pow(c, 2), active_dims=rng.choice([None, slice(None, -1)])))
        out.append(Mul(Add(a, 1.5), b + c, active_dims=ad))
    return out


def kexpr_of(c):
    """Python covariance object -> Gallina kexpr literal (class, attributes in __dict__ order)"""
    from mellon.base_cov import CovariancePair
    if isinstance(c, CovariancePair):
        r = c.right
        right = "(inl %s)" % kexpr_of(r) if callable(r) else "(inr %s)" % encv(r)
        return "(KPair %s %s %s %s)" % (enc.coq_str(type(c).__name__), kexpr_of(c.left), right, encv(c.active_dims))
    attrs = "; ".join("(%s, %s)" % (enc.coq_str(k), encv(v)) for k, v in c.__dict__.items())
    return "(KBase %s [%s])" % (enc.coq_str(type(c).__name__), attrs)


def strip_meta(d):
    if isinstance(d, dict):
        out = {}
        for k, v in d.items():
            if k == "metadata" and isinstance(v, dict):
                out[k] = {"classname": v["classname"], "module_name": v["module_name"]}
            else:
                out[k] = strip_meta(v)
        return out
    if isinstance(d, list):
        return [strip_meta(x) for x in d]
    return d


def run(ctx):
    import jax.numpy as jnp
    import mellon
    from mellon.util import make_serializable, deserialize
    from mellon.base_cov import Covariance
    mellon.logger.setLevel(logging.CRITICAL)
    rng = random.Random(ctx.seed)
    enc.NP_DISTINCT = True
    ctx.cov["trusted_base"] = TRUSTED_COMMON + [
        "coq/lib/Serial.v is a HAND-WRITTEN model of make_serializable/deserialize/Covariance state capture+restore and of json.loads(json.dumps(.)); "
        "it is tied to the code only by this run's exact comparison of every intermediate result (no translator)",
        "CPython json: floats by shortest round-trip repr, NaN/Infinity tokens, tuples -> lists (contract, exercised on every case)",
    ]
    ok = ctx.build_props(None)

    cases, meta, dist = [], [], {}
    # ---- values
    nviol = 0
    for v in values(rng, ctx.thorough):
        try:
            mv = encv(v)
        except TypeError:
            continue
        kind = type(v).__name__
        o1 = enc.outcome(lambda: canon(make_serializable(v)))
        if o1[0] == "ok":
            try:
                e1 = "(Ok %s)" % encv(o1[1])
            except TypeError as e:
                e1 = None
        else:
            e1 = enc.res(o1)
        if e1 is not None:
            cases.append(("Ok (ser %s)" % mv, e1))
            meta.append({"what": "make_serializable", "kind": kind, "value": repr(v)[:80], "impl": o1[0] if o1[0] == "ok" else o1[1]})
        o2 = enc.outcome(lambda: deserialize(json.loads(json.dumps(make_serializable(v)))))
        exp2 = "(Ok %s)" % encv(o2[1]) if o2[0] == "ok" else enc.res(o2)
        cases.append(("roundtrip %s" % mv, exp2))
        meta.append({"what": "roundtrip", "kind": kind, "value": repr(v)[:80], "impl": o2[0] if o2[0] == "ok" else o2[1]})
        dist[kind] = dist.get(kind, 0) + 1
        # independent oracle: the property statement
        if o2[0] != "ok" or not same_value(o2[1], v):
            if isinstance(v, str) and v == "None":
                continue
            nviol += 1
            ctx.violation("C19|value|%s" % kind, "value does not survive the JSON round trip",
                          {"value": repr(v), "restored": repr(o2[1])[:200], "call": "deserialize(json.loads(json.dumps(make_serializable(v))))"})
    # ---- histories: the same (mutable) object serialised again after it was modified in place - every serialisation must
    #      describe the object as it is NOW (a serialiser that remembers objects by identity would return the old snapshot)
    nhist = 0
    for sh, dt in [((3,), np.float64), ((2, 2), np.float64), ((2,), np.int64), ((3,), bool), ((1, 3), np.float64)]:
        n_ = int(np.prod(sh))
        a = np.asarray([rng.randrange(-50, 50) / 8.0 for _ in range(n_)]).reshape(sh).astype(dt)
        holder = {"arr": a, "k": 1.5}
        first = (json.dumps(make_serializable(a)), json.dumps(make_serializable(holder)))
        before = a.copy()
        a[...] = (np.asarray([rng.randrange(51, 90) / 8.0 for _ in range(n_)]).reshape(sh)).astype(dt) if dt is not bool else ~a
        for what, obj, get in (("array", a, lambda r_: r_), ("dict holding the array", holder, lambda r_: r_["arr"])):
            nhist += 1
            o = enc.outcome(lambda: get(deserialize(json.loads(json.dumps(make_serializable(obj))))))
            if o[0] != "ok" or not same_value(o[1], a):
                ctx.violation("C19|history|modified-in-place|%s" % what.split()[0],
                              "a NumPy array serialised again after an in-place modification does not restore to its current value",
                              {"sequence": "s1 = make_serializable(obj); obj's array modified in place; deserialize(json round trip of make_serializable(obj))",
                               "object": what, "array_before": before.tolist(), "array_now": a.tolist(), "dtype": str(a.dtype),
                               "restored": repr(o[1])[:200]})
    import mellon.cov as C_
    for cls_ in (C_.Matern52, C_.ExpQuad):
        ad = np.asarray([0, 1])
        kk = cls_(1.25, active_dims=ad)
        j1 = kk.to_json()
        ad[:] = [1, 2]
        nhist += 1
        o = enc.outcome(lambda: Covariance.from_json(kk.to_json()))
        Xh = np.asarray([[rng.randrange(-20, 20) / 8.0 for _ in range(3)] for _ in range(4)])
        if o[0] != "ok" or not np.array_equal(np.asarray(o[1](Xh, Xh)), np.asarray(kk(Xh, Xh))):
            ctx.violation("C19|history|modified-in-place|kernel", "a kernel serialised again after its NumPy active_dims changed in place restores to the old columns",
                          {"kernel": repr(kk), "sequence": "k.to_json(); k.active_dims[:] = [1, 2]; Covariance.from_json(k.to_json())",
                           "X": Xh.tolist(), "restored": repr(o[1])[:200]})
    dist["history:modified-in-place"] = nhist
    # malformed stream for deserialize / from_dict
    bad_inputs = [{"type": "bogus", "data": 1}, {"data": [1]}, {"type": "slice", "data": [1, 2]}, [1, "None", None], "None", 5,
                  {"type": "jax.numpy", "data": [[1.0, 2.0]]}, {"type": "jax.numpy", "data": [1, 2], "dtype": "int64", "shape": [2]}]
    for b in bad_inputs:
        o = enc.outcome(lambda: deserialize(b))
        try:
            exp = "(Ok %s)" % encv(o[1]) if o[0] == "ok" else enc.res(o)
        except TypeError:
            continue
        cases.append(("deser %s" % encv(b), exp))
        meta.append({"what": "deserialize-malformed", "kind": "malformed", "value": repr(b)[:80], "impl": o[0] if o[0] == "ok" else o[1]})
    for b in [{"type": "dict"}, 5, None, "x", [1], {"type": "mellon.Predictor"}, {}]:
        o = enc.outcome(lambda: Covariance.from_dict(b))
        if o != ("err", "ValueError"):
            ctx.violation("C19|from_dict|not-a-kernel", "input that is not a serialised kernel is not refused with ValueError",
                          {"input": repr(b), "observed": o[1] if o[0] == "err" else "accepted"})
        cases.append(("match kdeser 6 %s with Ok _ => Ok VNone | Err e => Err e end" % encv(b), "(Err ValueError)"))
        meta.append({"what": "from_dict-not-a-kernel", "kind": "malformed", "value": repr(b), "impl": o[1] if o[0] == "err" else "accepted"})

    # ---- kernel expressions
    X = np.asarray([[rng.randrange(-20, 20) / 8.0 for _ in range(3)] for _ in range(4)])
    Y = np.asarray([[rng.randrange(-20, 20) / 8.0 for _ in range(3)] for _ in range(3)])
    nk = 0
    for c in kernels(rng, ctx.thorough):
        nk += 1
        ke = kexpr_of(c)
        o1 = enc.outcome(lambda: canon(strip_meta(c.to_dict())))
        cases.append(("Ok (kser %s)" % ke, "(Ok %s)" % encv(o1[1]) if o1[0] == "ok" else enc.res(o1)))
        meta.append({"what": "to_dict", "kind": type(c).__name__, "value": repr(c)[:80], "impl": o1[0] if o1[0] == "ok" else o1[1]})
        o2 = enc.outcome(lambda: Covariance.from_json(c.to_json()))
        if o2[0] == "ok":
            r = o2[1]
            exp = "(Ok (kser %s))" % kexpr_of(r)
            cases.append(("rmap kser (bind (json_rt (kser %s)) (kdeser 8))" % ke, exp))
            meta.append({"what": "from_json(to_json)", "kind": type(c).__name__, "value": repr(c)[:80], "impl": "ok"})
            # independent oracle: same structure, evaluates and differentiates identically
            same = canon(strip_meta(r.to_dict())) == canon(strip_meta(c.to_dict()))
            orig = enc.outcome(lambda: (np.asarray(c(X, Y)), np.asarray(c.k_grad(X)(Y))))
            rest = enc.outcome(lambda: (np.asarray(r(X, Y)), np.asarray(r.k_grad(X)(Y))))
            if orig[0] == "err":          # the generated expression itself is not evaluable on 3 features: same failure expected
                ev = rest == orig
            else:
                ev = rest[0] == "ok" and np.array_equal(orig[1][0], rest[1][0], equal_nan=True) \
                    and np.array_equal(orig[1][1], rest[1][1], equal_nan=True)
            if not (same and ev and type(r) is type(c)):
                ctx.violation("C19|kernel|%s" % type(c).__name__, "covariance expression does not survive the JSON round trip",
                              {"kernel": repr(c), "restored": repr(r), "same_structure": same, "same_values": ev})
        else:
            ctx.violation("C19|kernel|%s|%s" % (type(c).__name__, o2[1]), "covariance expression cannot be serialised / restored",
                          {"kernel": repr(c), "exception": o2[1]})
        dist["kernel:" + type(c).__name__] = dist.get("kernel:" + type(c).__name__, 0) + 1

    if ok:
        try:
            bad = ctx.run_cases("c19", "PyVal Serial", cases, shard=150)
        except Broken as b:
            ctx.broken.append(b)
            bad = {}
        for i, shown in list(bad.items())[:20]:
            ctx.broken.append(Broken("correspondence", meta[i]["what"], "case %r: model gives %s" % (meta[i], shown)))
    ctx.cov["evaluations"] = len(cases)
    ctx.cov["traces_validated_against_impl"] = len(cases)
    ctx.cov["distinct_nontrivial"] = len({(m_["what"], m_["value"]) for m_ in meta if m_["impl"] == "ok"})
    ctx.cov["rule"] = ("grammar-generated values (Python/NumPy/JAX scalars incl. NaN, +-inf, -0.0, subnormal; JAX arrays rank 0..3 of float64/int64/bool "
                       "incl. empty shapes; NumPy array-likes; slices; dicts; sets; nested) and covariance expressions (6 base kernels x 9 active_dims "
                       "forms, 7 operator forms incl. scalar operands left/right, explicit active_dims on pair nodes, depth <= 3): the serialised "
                       "form, the JSON round trip and the restored value/expression are each compared exactly with the Gallina model evaluated in "
                       "Coq, and against the property statement (bitwise value/shape/dtype equality; identical k and k_grad). "
                       "distinct_nontrivial = distinct (stage, input) with a non-error outcome.")
    ctx.cov["input_distribution"] = dist
    ctx.cov["kernel_expressions"] = nk
    ctx.cov["samples"] = meta[:3] + meta[-3:]
