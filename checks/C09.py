"""C09 - all GP types approximate the same Gaussian process.

translate (all paths of harness/matgen.TARGETS, regenerated from the working tree) -> build coq/props/C09.v
-> with the inducing points equal to the training cells, run on identical (x, values, mu, kernel, jitter)
   (a) mellon.parameters.compute_L for gp_type in {full, fixed (landmarks = x), None (landmarks = x), full_nystroem} and the
       decomposition routines themselves where compute_L's validation refuses the limiting request (rank = n, rank = 1.0;
       sparse_cholesky with as many landmarks as cells is refused by validate_params - that refusal is C15's business),
   (b) the three predictor formulations FullConditional / LandmarksConditional / LandmarksConditionalCholesky,
   recording cholesky / solve_triangular / eigh of mellon.decomposition and mellon.conditional and validating their contracts
-> evaluate the GENERATED full_rank, standard_low_rank_PN and the three _covariance definitions with PrimFloat inside Coq on
   the same Gram matrices
-> independent NumPy searcher on the implementation alone (M = K + jI, S = L_s L_s^T):
     full:        L_f lower triangular, L_f L_f^T = M
     inducing:    M (S - M + 2jI) = j^2 I   and   -2jI <= S - L_f L_f^T <= -jI   (Loewner, through eigenvalues)
     truncation:  M - L_p L_p^T is PSD, its trace is the discarded eigenvalue mass of the recorded spectrum,
                  x^T(.)x <= mass * x^T x, and rank = n / fraction 1.0 reproduce M up to the discarded mass
     predictors:  M w_F = K w_C (equivalently mean_C - mean_F = j K_* M^-1 w_C, also checked at out-of-sample points),
                  (K M + j^2 I)(w_F - w_D) = j^2 w_F (and its out-of-sample form), fitted values, the three posterior
                  covariances coincide
     estimator:   DensityEstimator(gp_type='fixed', n_landmarks >= n) uses the cells as landmarks and the factor S
                  (thorough tier additionally fits it and gp_type='full' and compares through the proved bound in j)

Derived tolerances: S_ik = l_i^T l_k with (L_p + D_i) l_i = k_i, |D_i| <= g_n |L_p| (Higham Thm 8.5); to first order the error
of S_ik is v_k^T D_i l_i + v_i^T D_k l_k with v = M^-1 k of norm <= 1 (K M^-1 has eigenvalues lambda/(lambda+j) < 1), hence
|dS_ik| <= 4(n+2)u ((|L_s||L_s|^T)_ik + |v_k| || |L_p||l_i| || + |v_i| || |L_p||l_k| ||); a Cholesky defect E of L_p L_p^T = M + E moves
S by K M^-1 E M^-1 K, of norm <= ||E||.  Weight identities are checked in residual form with the backward-error bounds of
the solves (wb_common.solve_tol); out-of-sample forms use the provable amplification sqrt(k(x,x)/j) (full) and
sqrt(k(x,x))/(j sqrt j) (inducing-point normal equations) of those residuals.

Not covered here: gradients (linear read-outs grad K_* w of the same weights whose identities are checked; no derived rounding
bound for the autodiff kernel gradient is available), sparse_nystroem (refused with as many landmarks as cells).
"""
import random
import re

import numpy as np
from scipy.linalg import solve_triangular as np_st

from checks import C06
from harness import matgen
from harness.wb_common import U, real_module, dataset, KERNELS, make_kernel, quiet, col2, solve_tol, resid_eval_err
from vlib.core import Broken, TRUSTED_COMMON, REPO

TINY = 1e-290


def make_configs(rng, thorough):
    cfgs = []
    i = 0
    for rep in range(5 if thorough else 2):
        for kname in KERNELS:
            for j in ([1e-8, 1e-6, 1e-4, 1e-3] if rep % 2 == 0 else [1e-7, 1e-5, 1e-3]):
                i += 1
                if not thorough and i % 2 == 0 and rep > 0:
                    continue
                cfgs.append(dict(id=i, kernel=kname, jitter=j, n=rng.choice([6, 12, 25, 40, 60] if not thorough else [6, 12, 25, 40, 60, 120]),
                                 d=rng.choice([1, 2, 3, 5, 25]), data=rng.choice(["gauss", "clustered", "near-duplicate", "anisotropic"]),
                                 ls=rng.choice([0.1, 0.3, 1.0, 3.0, 10.0]), compose=(i % 7 == 0), cols=rng.choice([0, 1, 3]),
                                 rank=rng.choice([1, 2, 0.5, 0.9, 0.99, "half"]), seed=rng.randrange(2 ** 31)))
    return cfgs


def environment(cfg):
    rng = np.random.default_rng(cfg["seed"])
    n, d = cfg["n"], cfg["d"]
    x = dataset(rng, n, d, cfg["data"])
    cov, kdesc = make_kernel(rng, cfg["kernel"], cfg["ls"], cfg["compose"])
    Kraw = np.asarray(cov(x, x), dtype=float)
    K = 0.5 * (Kraw + Kraw.T)
    c = cfg["cols"]
    z = rng.normal(size=(n,) if c == 0 else (n, c))
    mu = float(rng.normal())
    Xq = np.vstack([dataset(rng, 4, d, "gauss") * 1.5, x[:2], dataset(rng, 1, d, "gauss") + 30.0])
    rank = cfg["rank"]
    if rank == "half":
        rank = max(1, n // 2)
    if isinstance(rank, int):
        rank = min(rank, n - 1)
    return dict(x=x, cov=cov, kdesc=kdesc, K=K, K_asym=float(np.linalg.norm(Kraw - Kraw.T)), z=z, mu=mu, Xq=Xq, rank=rank,
                M=K + cfg["jitter"] * np.eye(n))


def replay(cfg, env, extra):
    d = dict(cfg)
    d.update(kernel_desc=env["kdesc"], x=env["x"].tolist(), landmarks="= x", mu=env["mu"], pre_transformation=np.asarray(env["z"]).tolist(),
             Xnew=env["Xq"].tolist(), rank=env["rank"])
    d.update(extra)
    return d


def chol_must_succeed(M, j):
    """Cholesky in binary64 runs to completion when lambda_min(M) > 20 n^1.5 u ||M||_2 (Demmel / Higham Thm 10.7)"""
    n = M.shape[0]
    return j > 40 * n ** 1.5 * U * np.linalg.norm(M, 2)


def S_err(Lp, Ls):
    """entrywise first-order bound on the rounding error of S = L_s L_s^T, L_s = (L_p^-1 K)^T (module docstring)"""
    n = Lp.shape[0]
    A = Ls.T                                            # columns l_i
    V = np_st(Lp.T, A, lower=False)                     # v_i = L_p^-T l_i = M^-1 k_i
    nv = C06.cn(V)
    h = C06.cn(np.abs(Lp) @ np.abs(A))
    g = 4 * (n + 2) * U
    return g * (np.abs(Ls) @ np.abs(Ls).T + np.outer(h, nv) + np.outer(nv, h)) + TINY


def part_a(ctx, cfg, env, rec, counts, out):
    mp = real_module("mellon.parameters")
    md = real_module("mellon.decomposition")
    x, cov, j, K, M = env["x"], env["cov"], cfg["jitter"], env["K"], env["M"]
    n = x.shape[0]
    key = "C09|compute_L"
    nM = np.linalg.norm(M)
    tolchol = 2 * (n + 2) * n * U * nM + TINY

    def viol(clause, what, extra):
        ctx.violation("%s|%s" % (key, clause), what, replay(cfg, env, extra))
    # ---- full
    try:
        Lf = np.asarray(mp.compute_L(x, cov, gp_type="full", jitter=j), dtype=float)
    except ValueError as e:
        if "positively definite" in str(e) and not chol_must_succeed(M, j):
            counts["refused"] += 1
            return False
        viol("full|refused", "compute_L(gp_type='full') refused a numerically positive definite K + jitter*I: %s" % str(e)[:120],
             {"lambda_min_lower_bound": j, "norm": float(np.linalg.norm(M, 2))})
        return False
    counts["full_LLt"] += 1
    resf = np.linalg.norm(Lf @ Lf.T - M) if Lf.shape == M.shape else np.inf
    if not resf <= tolchol or np.abs(np.triu(Lf, 1)).max(initial=0.0) != 0.0:
        viol("full|LLt", "L of gp_type='full' does not satisfy L L^T = K + jitter*I", {"residual": float(resf), "bound": float(tolchol), "jitter": j})
        return False
    out["Lf"] = Lf
    # ---- inducing points = cells
    for gp in ("fixed", None, "direct"):
        try:
            if gp == "direct":
                Ls = np.asarray(md._standard_low_rank(x, cov, x, jitter=j), dtype=float)
            else:
                Ls = np.asarray(mp.compute_L(x, cov, gp_type=gp, landmarks=x, jitter=j), dtype=float)
        except ValueError as e:
            viol("%s|refused" % gp, "compute_L with landmarks = x raised although the full factorisation succeeded: %s" % str(e)[:120], {})
            continue
        if gp is None and Ls.shape == Lf.shape and np.array_equal(Ls, Lf):
            counts["landmarks_eq_cells_resolved_to_full"] += 1      # compute_gp_type maps n_landmarks >= n to the full model: same L L^T trivially
            continue
        counts["sparse_identity"] += 1
        if Ls.shape != (n, n):
            viol("%s|shape" % gp, "L has shape %s" % (Ls.shape,), {})
            continue
        S = Ls @ Ls.T
        dS = S_err(Lf, Ls)
        Eb = 2 * tolchol              # defects of the two Cholesky factorisations (validated contract)
        # identity  M (S - M + 2jI) = j^2 I
        R = M @ (S - M + 2 * j * np.eye(n)) - j * j * np.eye(n)
        tolR = np.linalg.norm(M, 2) * (np.linalg.norm(dS) + Eb) + 4 * (n + 2) * U * nM * (np.linalg.norm(S) + nM + 2 * j * np.sqrt(n))
        if not np.linalg.norm(R) <= tolR:
            viol("%s|sparse-identity" % gp, "L_s L_s^T is not (K+jI) - 2jI + j^2 (K+jI)^-1  (residual of M (S - M + 2jI) = j^2 I)",
                 {"residual": float(np.linalg.norm(R)), "bound": float(tolR), "jitter": j})
        # Loewner sandwich  -2jI <= S - L_f L_f^T <= -jI
        Dl = S - Lf @ Lf.T
        lam = np.linalg.eigvalsh(0.5 * (Dl + Dl.T))
        tolS = np.linalg.norm(dS) + Eb + 8 * n * U * (np.linalg.norm(S, 2) + np.linalg.norm(M, 2))
        counts["sandwich"] += 1
        if not (lam[0] >= -2 * j - tolS and lam[-1] <= -j + tolS):
            viol("%s|sandwich" % gp, "-2jI <= L_s L_s^T - L_f L_f^T <= -jI fails",
                 {"eig_min": float(lam[0]), "eig_max": float(lam[-1]), "jitter": j, "bound": float(tolS)})
        if gp == "fixed":
            out["Ls"], out["dS"] = Ls, dS
    # ---- rank reduction (eigendecomposition of M)
    reqs = [("compute_L", env["rank"]), ("direct", n), ("direct", 1.0)]
    for how, rank in reqs:
        rec.last["eigh"] = []
        try:
            if how == "compute_L":
                Lp = np.asarray(mp.compute_L(x, cov, gp_type="full_nystroem", rank=rank, jitter=j), dtype=float)
            else:
                Lp = np.asarray(md._full_decomposition_low_rank(x, cov, rank=rank, jitter=j), dtype=float)
        except ValueError as e:
            viol("nystroem|refused", "rank reduction raised %s" % str(e)[:120], {"rank": rank})
            continue
        if not rec.last["eigh"]:
            ctx.broken.append(Broken("contract", "eigh", "no eigh call recorded for the rank reduction"))
            continue
        Arec, s, v = rec.last["eigh"][-1]
        counts["truncation"] += 1
        p = Lp.shape[1] if Lp.ndim == 2 else -1
        if Lp.ndim != 2 or Lp.shape[0] != n or not 1 <= p <= n or np.isnan(Lp).any():
            viol("nystroem|shape", "rank-reduced L has shape %s or NaN" % (Lp.shape,), {"rank": rank})
            continue
        if np.linalg.norm(Arec - M) > 8 * U * nM + env["K_asym"]:
            viol("nystroem|matrix", "the decomposed matrix is not K + jitter*I", {"rank": rank, "difference": float(np.linalg.norm(Arec - M))})
            continue
        disc = s[: n - p]
        mass = float(np.sum(np.maximum(disc, 0.0)))
        nM2 = np.linalg.norm(M, 2)
        # eigh contract (validated on the recorded call): A = V S V^T + F, ||F||_2 <= 200 n u ||A||_2; product rounding p g ||A||
        f = (200 * n + 8 * (p + 2) * n) * U * nM2 + env["K_asym"] + TINY
        T = M - Lp @ Lp.T
        lam = np.linalg.eigvalsh(0.5 * (T + T.T))
        negd = float(np.sum(np.maximum(-disc, 0.0)))
        if not lam[0] >= -(f + negd):
            viol("nystroem|psd", "(K+jI) - L_p L_p^T is not positive semi-definite", {"rank": rank, "p": p, "eig_min": float(lam[0]), "bound": float(f + negd)})
        if not abs(np.trace(T) - float(np.sum(disc))) <= n * f:
            viol("nystroem|trace", "trace((K+jI) - L_p L_p^T) is not the discarded eigenvalue mass",
                 {"rank": rank, "p": p, "trace": float(np.trace(T)), "discarded_mass": float(np.sum(disc)), "bound": float(n * f)})
        r = np.random.default_rng(cfg["seed"] + 5)
        Xv = r.normal(size=(n, 6))
        Xv[:, 0] = v[:, 0]
        qf = np.einsum("ia,ij,ja->a", Xv, T, Xv)
        x2 = np.sum(Xv * Xv, axis=0)
        if not (qf <= (mass * (1 + 128 * n * U) + f) * x2).all() or not (qf >= -(f + negd) * x2).all():
            viol("nystroem|quadratic-form", "x^T((K+jI) - L_p L_p^T)x is outside [0, discarded mass * x^T x]",
                 {"rank": rank, "p": p, "quadratic_forms": qf.tolist(), "mass": mass})
        if how == "direct":
            # full-rank requests coincide with the un-reduced model (up to the eigenvalue mass that was nevertheless discarded)
            counts["full_rank_request"] += 1
            if not np.linalg.norm(T, 2) <= mass + f or (isinstance(rank, int) and p != n and (s > 0).all()):
                viol("nystroem|full-rank-request", "rank = %r does not reproduce K + jitter*I" % (rank,),
                     {"rank": rank, "p": p, "error_norm": float(np.linalg.norm(T, 2)), "discarded_mass": mass, "bound": float(mass + f)})
    return True


def part_b(ctx, cfg, env, counts, out):
    mc = real_module("mellon.conditional")
    x, cov, j, K, M, mu, Xq = env["x"], env["cov"], cfg["jitter"], env["K"], env["M"], env["mu"], env["Xq"]
    n = x.shape[0]
    key = "C09|predictors"

    def viol(clause, what, extra):
        ctx.violation("%s|%s" % (key, clause), what, replay(cfg, env, extra))
    pC = mc.LandmarksConditionalCholesky(x, env["z"], mu, cov, n, sigma=0.1, jitter=j, y_is_mean=True, with_uncertainty=True)
    wC = col2(np.asarray(pC.weights, dtype=float))
    f = np.asarray(pC(x), dtype=float)                   # the same function values f = mu + K w_C = mu + L_s z for all formulations
    fr = col2(f)
    Kxx = np.asarray(cov(x, x), dtype=float)
    tol_f = 8 * (n + 2) * U * (np.abs(Kxx) @ np.abs(wC)) + 8 * U * abs(mu) + TINY
    counts["fitted"] += 1
    if not (np.abs(fr - (mu + Kxx @ wC)) <= tol_f).all():
        viol("chol|fitted", "in-sample prediction of the Cholesky-latent model is not mu + K w", {})
    if "Ls" in out:
        # f = mu + L_s z  with the factor compute_L returns (same latent representation as the estimators use)
        Ls = out["Ls"]
        zz = col2(env["z"])
        kap = np.sqrt(np.linalg.norm(M, 2) / j)
        tol = 16 * (n + 2) * n * U * kap * (np.abs(Ls) @ np.abs(zz)) + tol_f + 8 * U * abs(mu)
        if not (np.abs(fr - (mu + Ls @ zz)) <= tol + 4 * (n + 2) * n * U * kap * np.linalg.norm(Ls, 2) * np.linalg.norm(zz, axis=0)[None, :]).all():
            viol("chol|latent-map", "mu + L z (L from compute_L) differs from the predictor's in-sample values",
                 {"max_dev": float(np.abs(fr - (mu + Ls @ zz)).max())})
    pF = mc.FullConditional(x, f, mu, cov, jitter=j, y_is_mean=True, with_uncertainty=True)
    pD = mc.LandmarksConditional(x, x, f, mu, cov, jitter=j, y_is_mean=True, with_uncertainty=True, y_cov_factor=0.1 * np.eye(n)[:, :2])
    wF = col2(np.asarray(pF.weights, dtype=float))
    wD = col2(np.asarray(pD.weights, dtype=float))
    r = fr - mu
    Ks = np.asarray(cov(Xq, x), dtype=float)
    kss = np.sqrt(np.maximum(np.asarray(cov.diag(Xq), dtype=float), 0.0))[:, None]
    read = lambda *ws: 8 * (n + 2) * U * (np.abs(Ks) @ sum(np.abs(w) for w in ws)) + 16 * U * abs(mu) + TINY   # noqa: E731
    mC, mF, mD = (col2(np.asarray(p(Xq), dtype=float)) for p in (pC, pF, pD))
    # ---- chol-latent vs full:  M w_F = K w_C   <=>   M (w_C - w_F) = j w_C
    counts["chol_vs_full"] += 1
    KwC = K @ wC
    gapr = np.linalg.norm(r - KwC, axis=0)            # rounding of forming f and f - mu
    grow = 8 * (n + 2) * U * np.linalg.norm(np.abs(K) @ np.abs(wC), axis=0) + 8 * U * (abs(mu) * np.sqrt(n) + np.linalg.norm(fr, axis=0)) + env["K_asym"] * np.linalg.norm(wC, axis=0)
    if not (gapr <= grow).all():
        viol("chol-vs-full|values", "f - mu is not K w_C", {"gap": gapr.tolist(), "bound": grow.tolist()})
    for c_ in range(wF.shape[1]):
        res = np.linalg.norm(M @ wF[:, c_] - KwC[:, c_])
        tol = solve_tol(M, wF[:, c_], KwC[:, c_]) + grow[c_]
        if not res <= tol:
            viol("chol-vs-full|weights", "M (w_C - w_F) = j w_C fails (residual of M w_F = K w_C)", {"column": c_, "residual": float(res), "bound": float(tol)})
            break
    # out-of-sample form: mean_C - mean_F = j K_* M^-1 w_C ; |K_* e| <= sqrt(k(x,x)/j) |M e|
    try:
        t = np.linalg.solve(M, wC)
        e = wC - wF - j * t
        rho = np.linalg.norm(M @ e, axis=0) + resid_eval_err(M, e, 0 * e) + j * (np.linalg.norm(M @ t - wC, axis=0) + resid_eval_err(M, t, wC))
        tol = kss / np.sqrt(j) * rho[None, :] + read(wC, wF, j * t)
        dev = np.abs((mC - mF) - j * (Ks @ t))
        if not (dev <= tol).all():
            viol("chol-vs-full|prediction", "mean_C(x*) - mean_F(x*) differs from j K_* (K+jI)^-1 w_C", {"max_dev": float(dev.max()), "bound": float(tol.max())})
    except np.linalg.LinAlgError:
        pass
    # ---- full vs inducing-point normal equations: (K M + j^2 I)(w_F - w_D) = j^2 w_F
    counts["dtc_vs_full"] += 1
    Kuf = np.asarray(cov(x, x), dtype=float)
    AD = Kuf @ Kuf.T + j * (K + j * np.eye(n))
    kappa = np.sqrt((np.linalg.norm(K, 2) + j) / j)
    nK = np.linalg.norm(K, 2)
    for c_ in range(wF.shape[1]):
        res = np.linalg.norm(AD @ (wF[:, c_] - wD[:, c_]) - j * j * wF[:, c_])
        tol = nK * (solve_tol(M, wF[:, c_], r[:, c_]) + resid_eval_err(M, wF[:, c_], r[:, c_])) + solve_tol(AD, wD[:, c_], Kuf @ r[:, c_], kappa) \
            + 2 * resid_eval_err(AD, np.abs(wF[:, c_]) + np.abs(wD[:, c_]), 0 * r[:, c_]) + env["K_asym"] * nK * (np.linalg.norm(wF[:, c_]) + np.linalg.norm(wD[:, c_]))
        if not res <= tol:
            viol("dtc-vs-full|weights", "(K M + j^2 I)(w_F - w_D) = j^2 w_F fails", {"column": c_, "residual": float(res), "bound": float(tol)})
            break
    try:
        t2 = np.linalg.solve(AD, wF)
        e2 = wF - wD - j * j * t2
        rho2 = np.linalg.norm(AD @ e2, axis=0) + resid_eval_err(AD, e2, 0 * e2) + j * j * (np.linalg.norm(AD @ t2 - wF, axis=0) + resid_eval_err(AD, t2, wF))
        tol = kss / (j * np.sqrt(j)) * rho2[None, :] + read(wF, wD, j * j * t2)
        dev = np.abs((mF - mD) - j * j * (Ks @ t2))
        if not (dev <= tol).all():
            viol("dtc-vs-full|prediction", "mean_F(x*) - mean_D(x*) differs from j^2 K_* (K M + j^2 I)^-1 w_F", {"max_dev": float(dev.max()), "bound": float(tol.max())})
    except np.linalg.LinAlgError:
        pass
    # ---- fitted values: C reproduces f, F deviates by -j w_F
    counts["fitted"] += 1
    PF = col2(np.asarray(pF(x), dtype=float))
    dev = np.abs(PF - fr + j * wF)
    tol = solve_tol(M, wF, r) + 8 * (n + 2) * U * np.max(np.abs(Kxx) @ np.abs(wF)) + 8 * U * (abs(mu) + np.abs(fr).max()) + env["K_asym"] * np.linalg.norm(wF)
    if not (dev <= tol).all():
        viol("full|fitted", "in-sample prediction of the full model minus the values is not -jitter * weights", {"max_dev": float(dev.max()), "bound": float(tol)})
    # ---- posterior covariance: the three formulations coincide when U = X
    counts["covariance"] += 1
    Ls_ = [np.asarray(p.L, dtype=float) for p in (pF, pD, pC)]
    Kbq = np.asarray(cov(x, Xq), dtype=float)
    Kss = np.asarray(cov(Xq, Xq), dtype=float)
    kd = np.asarray(cov.diag(Xq), dtype=float)
    A, V, Dm = C06.cov_terms(Ls_[0], Kbq, Kss)
    same_L = all(L_.shape == Ls_[0].shape and np.array_equal(L_, Ls_[0]) for L_ in Ls_[1:])
    Efac = 0.0
    if not same_L:
        # different but valid factors: K_ss - K_*b (L L^T)^-1 K_b* moves by at most ||E|| |V|^2
        Efac = sum(np.linalg.norm(L_ @ L_.T - M) + 2 * n * U * np.trace(M) for L_ in Ls_)
        for L_ in Ls_:
            if L_.shape != M.shape or np.linalg.norm(L_ @ L_.T - M) > 2 * (n + 2) * n * U * np.linalg.norm(M):
                viol("covariance|factor", "a predictor's L is not a Cholesky factor of K + jitter*I", {})
                return None
    vc = C06.cn(V)
    covs = {}
    for dg in (False, True):
        cs = [np.asarray(p.covariance(Xq, diag=dg), dtype=float) for p in (pF, pD, pC)]
        covs[dg] = cs
        t_ = (2 * Dm + Efac * np.outer(vc, vc)) if not dg else (2 * np.diag(Dm) + Efac * vc * vc)
        for nm, c_ in zip(("LandmarksConditional", "LandmarksConditionalCholesky"), cs[1:]):
            if c_.shape != cs[0].shape or not (np.abs(c_ - cs[0]) <= t_).all():
                viol("covariance|%s" % nm, "posterior covariance (diag=%s) of %s differs from FullConditional's although the inducing points are the cells" % (dg, nm),
                     {"max_dev": float(np.abs(c_ - cs[0]).max()) if c_.shape == cs[0].shape else "shape", "bound": float(np.max(t_))})
    out.update(L=Ls_[0], Kbq=Kbq, Kss=Kss, kd=kd, Dm=Dm, Cf=covs[False][0], Cd=covs[True][0])
    return True


def part_c(ctx, cfg, env, counts, out, thorough):
    """the estimator: gp_type='fixed' with n_landmarks >= n passes the cells through as landmarks"""
    import mellon
    x, cov, j = env["x"], env["cov"], cfg["jitter"]
    n = x.shape[0]
    if n < 3:
        return
    counts["estimator"] += 1
    est = mellon.DensityEstimator(gp_type="fixed", n_landmarks=n + (cfg["id"] % 3), cov_func=cov, jitter=j, d_method="fractal" if cfg["d"] > 1 else "embedding")
    try:
        est.prepare_inference(x)
    except Exception as e:
        ctx.violation("C09|estimator|%s" % type(e).__name__, "DensityEstimator(gp_type='fixed', n_landmarks>=n).prepare_inference raised %s: %s" % (type(e).__name__, str(e)[:150]),
                      replay(cfg, env, {}))
        return
    lm = np.asarray(est.landmarks, dtype=float)
    if lm.shape != x.shape or not np.array_equal(lm, x):
        ctx.violation("C09|estimator|landmarks", "gp_type='fixed' with n_landmarks >= n does not use the cells as landmarks", replay(cfg, env, {"landmarks": lm.tolist()}))
        return
    if "Ls" in out:
        Le = np.asarray(est.L, dtype=float)
        if Le.shape != out["Ls"].shape or not (np.abs(Le @ Le.T - out["Ls"] @ out["Ls"].T) <= 2 * out["dS"] + 4 * (n + 2) * n * U * np.linalg.norm(env["M"])).all():
            ctx.violation("C09|estimator|L", "the estimator's L L^T differs from compute_L(gp_type='fixed', landmarks=x)", replay(cfg, env, {}))
    # the time-sensitive estimator computes its inducing points in a space whose time axis is rescaled by ls / ls_time and maps
    # them back: with 'fixed' and n_landmarks >= n they must again be the cells (time column included), whatever ls_time is
    if True:
        counts["estimator_time"] = counts.get("estimator_time", 0) + 1
        tcol = (np.arange(n) % 3).astype(float)[:, None] * 0.5
        xt = np.hstack([x, tcol])
        ls_time = [0.25, 3.0][(cfg["id"] // 4) % 2]
        et = mellon.TimeSensitiveDensityEstimator(gp_type="fixed", n_landmarks=n + (cfg["id"] % 3), ls_time=ls_time, jitter=j)
        rp = replay(cfg, env, {"estimator": "TimeSensitiveDensityEstimator", "ls_time": ls_time, "time_column": tcol[:, 0].tolist(),
                               "call": "TimeSensitiveDensityEstimator(gp_type='fixed', n_landmarks=n + k, ls_time=ls_time, jitter=j).prepare_inference(hstack([x, t]))"})
        try:
            et.prepare_inference(xt)
        except Exception as e:
            ctx.violation("C09|estimator-time|%s" % type(e).__name__, "TimeSensitiveDensityEstimator(gp_type='fixed', n_landmarks>=n).prepare_inference raised %s: %s"
                          % (type(e).__name__, str(e)[:150]), rp)
            return
        lmt = np.asarray(et.landmarks, dtype=float)
        # x_t * f / f in binary64: two roundings
        if lmt.shape != xt.shape or not (np.abs(lmt - xt) <= 4 * U * np.abs(xt)).all():
            ctx.violation("C09|estimator-time|landmarks", "time-sensitive 'fixed' with n_landmarks >= n does not use the cells (with their time stamps) as inducing points",
                          dict(rp, landmarks=lmt.tolist(), ls=float(np.asarray(et.ls))))


# ------------------------------------------------------------------ Coq correspondence
def correspond(ctx, items, meta):
    from concurrent.futures import ThreadPoolExecutor
    jobs = []
    for it in items:
        cfg, env, out = it["cfg"], it["env"], it["out"]
        n, j = cfg["n"], cfg["jitter"]
        q = env["Xq"].shape[0]
        terms = [matgen.coq_call(meta, "full_rank", dict(n=n), dict(K_x_x=env["K"], sigma=0.0, jitter=j)),
                 matgen.coq_call(meta, "standard_low_rank_PN", dict(n=n, m=n), dict(K_x_xu=env["K"], K_xu_xu=env["K"], sigma=0.0, jitter=j))]
        if "L" in out:
            for g, kb in (("FullCond", "x"), ("LandmarksCond", "xu"), ("LandmarksCholCond", "xu")):
                a = {"Kdiag_Xnew": out["kd"], "K_Xnew_Xnew": out["Kss"], "K_%s_Xnew" % kb: out["Kbq"], "L": out["L"]}
                terms.append(matgen.coq_call(meta, g + "_covariance_dF", dict(q=q, b=n), a))
                terms.append(matgen.coq_call(meta, g + "_covariance_dT", dict(q=q, b=n), a))
        jobs.append((it, terms))
    shards = [jobs[i::8] for i in range(8)]

    def one(kk):
        if not shards[kk]:
            return []
        body = [matgen.HEADER]
        for it, terms in shards[kk]:
            body += ["Eval vm_compute in %s." % t for t in terms]
        txt = ctx.coq_eval("c09_%d" % kk, "\n".join(body), timeout=900)
        parts = [pp.split("\n     :")[0] for pp in re.split(r"\n\s*=\s", "\n" + txt)[1:]]
        pos, res = 0, []
        for it, terms in shards[kk]:
            res.append((it, [matgen.parse_matrix(t) for t in parts[pos:pos + len(terms)]]))
            pos += len(terms)
        if pos != len(parts):
            raise Broken("correspondence", "c09_%d" % kk, "unexpected number of results")
        return res
    results = []
    try:
        with ThreadPoolExecutor(max_workers=8) as ex:
            for r in ex.map(one, range(8)):
                results += r
    except Broken as bk:
        ctx.broken.append(bk)
        return 0
    n_ok = 0
    for it, mats in results:
        cfg, env, out = it["cfg"], it["env"], it["out"]
        n, M = cfg["n"], env["M"]
        ok = True

        def bad(msg):
            ctx.broken.append(Broken("correspondence", "C09 (%s, jitter %g)" % (cfg["kernel"], cfg["jitter"]), msg + ", configuration %r" % (cfg,)))
        Lf_m, Ls_m = mats[0], mats[1]
        tolchol = 2 * (n + 2) * n * U * np.linalg.norm(M) + env["K_asym"]
        if Lf_m.shape != (n, n) or np.isnan(Lf_m).any() or np.abs(np.triu(Lf_m, 1)).max(initial=0.0) != 0.0 or np.linalg.norm(Lf_m @ Lf_m.T - M) > tolchol:
            bad("generated full_rank is not a Cholesky factor of K + jI")
            continue
        if Ls_m.shape != (n, n) or np.isnan(Ls_m).any():
            bad("generated standard_low_rank has shape %s or NaN" % (Ls_m.shape,))
            continue
        if "Ls" in out:
            S_m, S_i = Ls_m @ Ls_m.T, out["Ls"] @ out["Ls"].T
            t_ = out["dS"] + S_err(Lf_m, Ls_m) + 2 * tolchol + 4 * (n + 2) * U * (np.abs(S_m) + np.abs(S_i))
            if not (np.abs(S_m - S_i) <= t_).all():
                w_ = np.unravel_index(np.argmax(np.abs(S_m - S_i) - t_), t_.shape)
                bad("L L^T of the generated standard_low_rank differs from the implementation at %s: %.17g vs %.17g, bound %.3g" % (w_, S_m[w_], S_i[w_], t_[w_]))
                ok = False
        if "L" in out:
            cs = mats[2:8]
            q = env["Xq"].shape[0]
            if any(c_.shape != ((q, q) if i % 2 == 0 else (q, 1)) for i, c_ in enumerate(cs)):
                bad("generated covariance has a wrong shape")
                continue
            for i in (2, 4):
                if not (np.array_equal(cs[i], cs[0]) and np.array_equal(cs[i + 1], cs[1])):
                    bad("the three generated _covariance definitions disagree on the same (K, L)")
                    ok = False
            if not (np.abs(cs[0] - out["Cf"]) <= 2 * out["Dm"]).all() or not (np.abs(cs[1][:, 0] - out["Cd"]) <= 2 * np.diag(out["Dm"])).all():
                bad("generated covariance differs from the implementation by %.3g" % np.abs(cs[0] - out["Cf"]).max())
                ok = False
        n_ok += ok
    return n_ok


def thorough_fits(ctx, cfgs, counts):
    """end to end: DensityEstimator(gp_type='fixed', n_landmarks >= n) against gp_type='full' on the same data; the two posteriors
    maximise objectives whose latent factors satisfy the proved sandwich, so their log-densities differ by O(jitter * |weights|);
    only recorded (optimiser tolerance is not derivable), not a violation source"""
    import mellon
    devs = []
    for cfg in cfgs[:6]:
        env = environment(cfg)
        x = env["x"]
        if cfg["d"] > 5 or x.shape[0] < 12:
            continue
        try:
            a = mellon.DensityEstimator(gp_type="full", cov_func=env["cov"], jitter=cfg["jitter"], d_method="fractal").fit_predict(x)
            b = mellon.DensityEstimator(gp_type="fixed", n_landmarks=x.shape[0], cov_func=env["cov"], jitter=cfg["jitter"], d_method="fractal").fit_predict(x)
            devs.append(float(np.max(np.abs(np.asarray(a) - np.asarray(b)))))
        except Exception as e:       # recorded only
            devs.append("%s: %s" % (type(e).__name__, str(e)[:80]))
    counts["end_to_end_max_log_density_deviation"] = devs


def run(ctx):
    import os
    quiet()
    mc = real_module("mellon.conditional")
    md = real_module("mellon.decomposition")
    rng = random.Random(ctx.seed)
    ctx.cov["trusted_base"] = TRUSTED_COMMON + [
        "jnp.linalg.cholesky / solve_triangular / eigh contracts - validated by residual on every recorded call (cholesky against the symmetrised input)",
        "kernel Gram matrices symmetric positive semi-definite (hypotheses of the theorems; the measured asymmetry enters the tolerances)",
        "PrimFloat list instance (lib/MxFloat.v) only executes the generated model; no theorem depends on it",
    ]
    ctx.assumptions += ["binary64 rounding enters only through derived tolerances (backward-error bounds of the solves, residual forms of the identities, "
                        "provable amplification sqrt(k(x,x)/j) resp. sqrt(k(x,x))/(j sqrt j) for out-of-sample forms)",
                        "gradients and sparse_nystroem are not exercised (module docstring); sparse_cholesky with as many landmarks as cells is refused by validate_params"]
    gen = meta = None
    try:
        gen, funcs, meta, _tr = matgen.translate_all(REPO)
        ctx.cov["translated_functions"] = funcs
        ctx.build_props(gen, extra_targets=["lib/MxFloat.vo"])
    except matgen.Unsupported as u:
        ctx.broken.append(Broken("translation", "matrix subset", str(u)))
    except matgen.PathError as e:
        ctx.broken.append(Broken("translation", "static path raises", str(e)))
    except FileNotFoundError as e:
        ctx.broken.append(Broken("proof", "props/C09.v", "property file missing: %s" % e))

    cfgs = make_configs(rng, ctx.thorough)
    rec = C06.SymRecorder([mc, md])
    counts = dict(full_LLt=0, sparse_identity=0, sandwich=0, truncation=0, full_rank_request=0, chol_vs_full=0, dtc_vs_full=0, fitted=0,
                  covariance=0, estimator=0, refused=0, landmarks_eq_cells_resolved_to_full=0)
    items, dist = [], {}
    with rec:
        for cfg in cfgs:
            env = environment(cfg)
            out = {}
            try:
                if not part_a(ctx, cfg, env, rec, counts, out):
                    continue
                part_b(ctx, cfg, env, counts, out)
                if cfg["id"] % 4 == 1:
                    part_c(ctx, cfg, env, counts, out, ctx.thorough)
            except ValueError as e:
                if "positively definite" in str(e) and not chol_must_succeed(env["M"], cfg["jitter"]):
                    counts["refused"] += 1
                    continue
                ctx.violation("C09|ValueError", "a formulation raised ValueError on data the full model accepts: %s" % str(e)[:150], replay(cfg, env, {}))
                continue
            except (TypeError, AssertionError, IndexError, AttributeError) as e:
                ctx.violation("C09|%s" % type(e).__name__, "a formulation raised %s: %s" % (type(e).__name__, str(e)[:150]), replay(cfg, env, {}))
                continue
            items.append(dict(cfg=cfg, env=env, out=out))
            k2 = "%s/j=%g/%s" % (cfg["kernel"], cfg["jitter"], cfg["data"])
            dist[k2] = dist.get(k2, 0) + 1
        if ctx.thorough:
            thorough_fits(ctx, cfgs, counts)
    for f in rec.failures[:5]:
        ctx.broken.append(Broken("contract", f.split(":")[0], f))
    n_eval = 0
    skip = ("gate",) if os.environ.get("VERIF_FORCE_CORRESPONDENCE") else ("proof", "gate")   # development aid only
    if gen is not None and not any(bk.kind in skip for bk in ctx.broken):
        n_eval = correspond(ctx, items, meta)
        try:        # the generated model is shared (coq/gen): a concurrent run on another tree may have replaced it meanwhile
            with open(os.path.join(os.path.dirname(os.path.dirname(os.path.abspath(__file__))), "coq", "gen", "MatGen.v")) as fh:
                if fh.read() != gen["gen/MatGen.v"] and any(bk.kind == "correspondence" for bk in ctx.broken):
                    ctx.broken.append(Broken("harness", "concurrent-regeneration", "coq/gen/MatGen.v was rewritten by another run during the "
                                             "correspondence of this one (its results may stem from a different tree); rerun when no other check is running"))
        except OSError:
            pass
    ctx.cov["evaluations"] = n_eval
    ctx.cov["traces_validated_against_impl"] = n_eval
    ctx.cov["distinct_nontrivial"] = len(dist)
    ctx.cov["input_distribution"] = dist
    ctx.cov["searcher_checks"] = counts
    ctx.cov["contracts_validated"] = dict(rec.counts, cholesky_nan=rec.chol_nan)
    ctx.cov["max_relative_asymmetry_of_cholesky_inputs"] = rec.max_rel_asym
    ctx.cov["rule"] = ("%d seeded configurations (6 kernels (+compositions) x jitter 1e-8..1e-3, n<=60 (quick), d in {1,2,3,5,25}, 4 data shapes, ls over 2 "
                       "decades, 1-D / 1 / 3 value columns) with the inducing points equal to the cells. Each: compute_L for full / fixed / "
                       "landmarks=x / full_nystroem (+ rank = n and 1.0 on the routine itself): Cholesky residual, identity and Loewner sandwich of the "
                       "inducing-point factor, truncation error = discarded spectrum (PSD, trace, quadratic forms); the three predictor formulations "
                       "on the same function values: weight identities in residual form and at out-of-sample points, fitted values, coinciding "
                       "posterior covariances; DensityEstimator(gp_type='fixed', n_landmarks>=n) on a quarter of them; generated full_rank, "
                       "standard_low_rank and the three _covariance definitions run with PrimFloat in Coq on the same matrices." % len(cfgs))
    ctx.cov["samples"] = [dict(it["cfg"]) for it in items[:3]]
