"""C02 - predictor reproduces the fitted training values; normalisation is exact.

translate  (a) translate/pymean.py: result tails of Predictor.mean / PredictorTime.mean / ExpPredictor.mean -> gen/C02Mean.v (R-valued);
           (b) translate/pysym.py (pylogic + recorded constructor arguments, uninterpreted factorisation routines):
               BaseEstimator._predictor_landmarks/_compute_Lp/_compute_L, the four _set_*_func setters, compute_Lp, compute_L,
               validate_compute_L_input, the three compute_conditional* dispatchers, compute_average_cell_count, the self.n_obs
               assignment of the three constructor bases, class / order tables -> gen/C02Dispatch.v;
           (c) harness/matgen (world B): gen/MatGen.v for the matrix identities of props/C02mx.v.
build      props/C02.v: normalize_exact, normalize_refuses, exp_predictor, *_predictor_consistent (4 setters),
           dispatch_matches_factor, family_for_type, n_obs_spec(+_time), average_cell_count_default, order_and_classes,
           chol_insample_exact, full_insample_error, dtc_insample_error.
run        real fits (n <= 40) of DensityEstimator / TimeSensitiveDensityEstimator / DimensionalityEstimator (+ predict_density)
           x gp_type x landmark form x rank form x kernel.  For every fit:
           * correspondence (exact, inside Coq): predictor class(es), n_obs and inducing points of the generated model
             (thm/C02Run.v, shape-only oracle) = those of the real estimator;
           * independent oracle (NumPy, the identities of the property themselves): predictor at the training cells vs the
             fitted values stored by the estimator - Cholesky-latent family: equal up to the forward error of the two
             triangular solves (Higham Thm 8.5 bound computed from the estimator's own Lp), additionally <= 1e-9 relative;
             full family: pred - y = -jitter * weights (hence |pred - y| <= jitter |w|) up to the backward error of the
             Cholesky solve; inducing-point family: the proved expression of dtc_insample_error evaluated in NumPy;
             normalize=True lowers the value by log(n_obs) with n_obs recomputed from the data / the normalize argument;
             positive-valued predictors: predict(X) = exp(predict(X, logscale=True)) > 0;
           * harness/c02_matrix.matrix_part: the same identities on the predictor classes directly (user-supplied Lp etc.).
"""
import ast
import copy
import logging
import random
import time

import numpy as np

from translate.pylogic import Unsupported, Module, coq_string
from translate.pysym import SymTranslator
from translate import pymean
from translate.pyscalar import Unsupported as ScalarUnsupported
from vlib.core import Broken, TRUSTED_COMMON, REPO

CTORS = ["FullConditional", "ExpFullConditional", "FullConditionalTime",
         "LandmarksConditional", "ExpLandmarksConditional", "LandmarksConditionalTime",
         "LandmarksConditionalCholesky", "ExpLandmarksConditionalCholesky", "LandmarksConditionalCholeskyTime"]
ORACLES = ["_full_rank", "_full_decomposition_low_rank", "_standard_low_rank", "_modified_low_rank",
           "compute_parameter_cov_factor", "test_rank", "log", "k_means"]
METHODS = ["mellon.base_model.BaseEstimator._predictor_landmarks",
           "mellon.base_model.BaseEstimator._compute_Lp",
           "mellon.base_model.BaseEstimator._compute_L",
           "mellon.density_estimator.DensityEstimator._set_log_density_func",
           "mellon.time_sensitive_density_estimator.TimeSensitiveDensityEstimator._set_log_density_func",
           "mellon.dimensionality_estimator.DimensionalityEstimator._set_local_dim_func",
           "mellon.dimensionality_estimator.DimensionalityEstimator._set_log_density_func"]
ESTIMATORS = {"DensityEstimator": "mellon/density_estimator.py",
              "TimeSensitiveDensityEstimator": "mellon/time_sensitive_density_estimator.py",
              "DimensionalityEstimator": "mellon/dimensionality_estimator.py"}
BASE_INITS = ["_FullConditional", "_LandmarksConditional", "_LandmarksConditionalCholesky"]


def n_obs_function(tr, mod, base):
    """synthetic function returning what `<base>.__init__` stores in self.n_obs, as a function of the constructor
    arguments it reads (the only statements allowed to touch those names before are `v = ensure_2d(v)`)"""
    cnode = mod.classes.get(base)
    init = next((n for n in (cnode.body if cnode else []) if isinstance(n, ast.FunctionDef) and n.name == "__init__"), None)
    if init is None:
        raise Unsupported("%s.__init__ not found" % base)
    params = [a.arg for a in init.args.args][1:]
    stores = [(i, st) for i, st in enumerate(init.body) if isinstance(st, ast.Assign) and len(st.targets) == 1
              and isinstance(st.targets[0], ast.Attribute) and isinstance(st.targets[0].value, ast.Name)
              and st.targets[0].value.id == "self" and st.targets[0].attr == "n_obs"]
    if len(stores) != 1:
        raise Unsupported("%s.__init__: %d assignments to self.n_obs" % (base, len(stores)))
    idx, store = stores[0]
    for st in ast.walk(init):
        if st is not store and isinstance(st, (ast.AugAssign, ast.Delete)) :
            for n in ast.walk(st):
                if isinstance(n, ast.Attribute) and n.attr == "n_obs":
                    raise Unsupported("%s.__init__: n_obs modified in place" % base)
    needed = {n.id for n in ast.walk(store.value) if isinstance(n, ast.Name)}
    if not needed <= set(params):
        raise Unsupported("%s.__init__: self.n_obs reads %r" % (base, sorted(needed - set(params))))
    pre = []

    def scan(stmts):
        for st in stmts:
            if st is store:
                return True
            written = {n.id for n in ast.walk(st) if isinstance(n, ast.Name) and isinstance(n.ctx, ast.Store)}
            if written & needed:
                ok = (isinstance(st, ast.Assign) and len(st.targets) == 1 and isinstance(st.targets[0], ast.Name)
                      and ast.unparse(st.value) == "ensure_2d(%s)" % st.targets[0].id)
                if not ok:
                    raise Unsupported("%s.__init__: `%s` rebinds an argument n_obs depends on" % (base, ast.unparse(st)[:60]))
                pre.append(st)
        return False
    if not scan(init.body):
        raise Unsupported("%s.__init__: self.n_obs is not assigned at the top level of __init__" % base)
    ps = [p for p in params if p in needed]
    fn = ast.FunctionDef(name="n_obs_of" + base, args=ast.arguments(posonlyargs=[], args=[ast.arg(arg=p) for p in ps], vararg=None,
                                                                     kwonlyargs=[], kw_defaults=[], kwarg=None, defaults=[]),
                         body=[copy.deepcopy(s) for s in pre] + [ast.Return(value=copy.deepcopy(store.value))],
                         decorator_list=[], returns=None, lineno=store.lineno, col_offset=0)
    ast.fix_missing_locations(fn)
    tr.translate_synthetic(mod, fn, "c02_n_obs" + base)
    return ps


def prepare_order(relpath, cls):
    m = Module(REPO, relpath)
    out = []
    for node in m.classes[cls].body:
        if isinstance(node, ast.FunctionDef) and node.name == "prepare_inference":
            for st in ast.walk(node):
                if isinstance(st, ast.Call) and isinstance(st.func, ast.Attribute) and isinstance(st.func.value, ast.Name) \
                        and st.func.value.id == "self" and st.func.attr == "_prepare_attribute" and st.args \
                        and isinstance(st.args[0], ast.Constant):
                    out.append((st.lineno, st.args[0].value))
    return [n for _, n in sorted(out)]


def process_steps(relpath, cls):
    """the self._set_* / self._run_inference calls of <cls>.process_inference, in order"""
    m = Module(REPO, relpath)
    out = []
    for node in m.classes[cls].body:
        if isinstance(node, ast.FunctionDef) and node.name == "process_inference":
            for st in ast.walk(node):
                if isinstance(st, ast.Call) and isinstance(st.func, ast.Attribute) and isinstance(st.func.value, ast.Name) \
                        and st.func.value.id == "self" and st.func.attr.startswith("_set_"):
                    out.append((st.lineno, st.func.attr))
    return [n for _, n in sorted(out)]


def translate_dispatch():
    tr = SymTranslator(REPO, prefix="c02_")
    tr.sym_ctors = set(CTORS)
    tr.sym_oracles = set(ORACLES)
    tr.identity_calls = {"ensure_2d"}
    for q in METHODS:
        tr.translate(q)
    tr.translate("mellon.parameters.compute_average_cell_count")
    cmod = tr.module("mellon/conditional.py")
    nobs_params = {}
    for base in BASE_INITS:
        nobs_params[base] = n_obs_function(tr, cmod, base)
    text = tr.emit(header_imports=("PyVal", "PyValExtC02"))
    # ---- structural tables
    lines = ["(* class tables of mellon/conditional.py: (class, constructor base, predictor flavour); every class body is `pass` *)"]
    rows = []
    for c in CTORS:
        node = cmod.classes.get(c)
        if node is None or len(node.bases) != 2 or not all(isinstance(b, ast.Name) for b in node.bases):
            raise Unsupported("class %s: bases changed" % c)
        body = [s for s in node.body if not (isinstance(s, ast.Expr) and isinstance(s.value, ast.Constant))]
        if not (len(body) == 0 or (len(body) == 1 and isinstance(body[0], ast.Pass))):
            raise Unsupported("class %s has a body of its own" % c)
        rows.append("(%s, (%s, %s))" % (coq_string(c), coq_string(node.bases[0].id), coq_string(node.bases[1].id)))
    lines.append("Definition c02_class_table : list (string * (string * string)) :=\n  [%s]." % ";\n   ".join(rows))
    for base in BASE_INITS:
        lines.append("Definition c02_n_obs_args%s : list string := [%s]." % (base, "; ".join(coq_string(p) for p in nobs_params[base])))
    for cls, rel in ESTIMATORS.items():
        lines.append("Definition c02_prepare_order_%s : list string := [%s]." % (cls, "; ".join(coq_string(s) for s in prepare_order(rel, cls))))
        lines.append("Definition c02_process_steps_%s : list string := [%s]." % (cls, "; ".join(coq_string(s) for s in process_steps(rel, cls))))
    text += "\n" + "\n".join(lines) + "\n"
    funcs = METHODS + ["mellon.parameters.compute_average_cell_count", "mellon.parameters.compute_Lp", "mellon.parameters.compute_L",
                       "mellon.parameters.validate_compute_L_input", "mellon.inference.compute_conditional",
                       "mellon.inference.compute_conditional_times", "mellon.inference.compute_conditional_explog"] \
        + ["mellon.conditional.%s.__init__ (self.n_obs)" % b for b in BASE_INITS] \
        + ["class table of mellon/conditional.py", "prepare_inference / process_inference order tables (3 estimators)"]
    return text, funcs


# ====================================================================== harness
U = 2.0 ** -53
FAMILY = {"FULL": "FullConditional", "FULL_NYSTROEM": "FullConditional", "SPARSE_CHOLESKY": "LandmarksConditionalCholesky",
          "FIXED": "LandmarksConditionalCholesky", "SPARSE_NYSTROEM": "LandmarksConditional"}
GP_TYPES = ["full", "full_nystroem", "sparse_cholesky", "sparse_nystroem", "fixed", None]
KERNELS2 = ["Matern52", "ExpQuad"]


def base_name(cls_name):
    return cls_name.replace("Exp", "").replace("Time", "")


def make_data(r, n, d, kind):
    if kind == "clusters5":
        cent = r.normal(size=(5, d)) * 4.0
        x = np.repeat(cent, n // 5, axis=0) + 1e-3 * r.normal(size=(5 * (n // 5), d))
        return x, cent
    x = r.normal(size=(n, d)) * (1.0 if kind == "gauss" else np.linspace(1.0, 0.3, d)[None, :])
    return x, None


LM_FORMS = {"full": ["none", "m=n", "m>n"], "full_nystroem": ["none", "m=n", "m>n"],
            "sparse_cholesky": ["none", "m<n", "m<n"], "sparse_nystroem": ["none", "m<n", "clusters5"],
            "fixed": ["none", "m<n", "m=n", "m>n"], None: ["none", "m<n", "m=n", "m>n"]}
RANK_FORMS = {"full_nystroem": ["default", 0.9, "int"], "sparse_nystroem": ["default", 0.9, "int", 0.999999],
              None: ["default", "default", 0.8, "int"]}


def config_stream(rng, thorough):
    """(estimator, gp_type, landmark form, rank form, kernel) combinations that the option validation accepts;
    thorough: the full product; quick: the historical witnesses + two configurations per (estimator, gp_type)"""
    ests = ["DensityEstimator", "TimeSensitiveDensityEstimator", "DimensionalityEstimator"]
    full = []
    for e in ests:
        for g in GP_TYPES:
            for lf in sorted(set(LM_FORMS[g])):
                for rk in RANK_FORMS.get(g, ["default"]):
                    for k in KERNELS2:
                        full.append(dict(est=e, gp=g, lm=lf, kernel=k, rank=rk))
    special = []
    for e in ests:
        # the two historical witnesses (retained rank = number of landmarks; explicit m = n arbitrary landmarks) and neighbours
        special.append(dict(est=e, gp="sparse_nystroem", lm="clusters5", kernel="Matern52", rank=0.99))
        special.append(dict(est=e, gp=None, lm="m=n", kernel="Matern52", rank="default"))
        special.append(dict(est=e, gp="full_nystroem", lm="m=n", kernel="Matern52", rank=0.9))
        special.append(dict(est=e, gp=None, lm="clusters5", kernel="ExpQuad", rank=0.99))
        # other optimisers, and predictors built with uncertainty: the in-sample identity and the normalisation are the
        # same statements (the noise factor stored for the uncertainty must not enter the mean)
        special.append(dict(est=e, gp="full_nystroem", lm="none", kernel="Matern52", rank=0.9, opt="advi", unc=True))
        special.append(dict(est=e, gp="full", lm="none", kernel="ExpQuad", rank="default", opt="advi", unc=True))
        special.append(dict(est=e, gp="sparse_cholesky", lm="m<n", kernel="Matern52", rank="default", opt="advi", unc=True))
        special.append(dict(est=e, gp="sparse_nystroem", lm="m<n", kernel="Matern52", rank=0.9, opt="adam", unc=False))
    if thorough:
        rng.shuffle(full)
        return special + full
    pick = []
    i = rng.randrange(12)
    for e in ests:
        for g in GP_TYPES:
            forms = LM_FORMS[g]
            ranks = RANK_FORMS.get(g, ["default"])
            for rep in range(2):
                i += 1
                pick.append(dict(est=e, gp=g, lm=forms[(i + rep) % len(forms)], kernel=KERNELS2[(i + rep) % 2],
                                 rank=ranks[(i // 2 + rep) % len(ranks)]))
    return special + pick


def build_case(c, r):
    """data, landmarks and constructor arguments of one configuration; None when the combination is refused by design"""
    import mellon
    n = int(r.choice([20, 24, 32, 40]))
    d = int(r.choice([1, 2, 3]))
    time = c["est"] == "TimeSensitiveDensityEstimator"
    if c["lm"] == "clusters5":
        n = 40 if n == 40 else 20
        x, cent = make_data(r, n, d, "clusters5")
        lm = cent
    else:
        x, _ = make_data(r, n, d, str(r.choice(["gauss", "aniso"])))
        if time and r.random() < 0.6:
            # a cell count that is not a multiple of the number of time points: the average count per time point
            # (the predictor's n_obs) is then fractional
            x = x[:-1]
            n = n - 1
        lm = None
        if c["lm"] == "m<n":
            lm = x[r.choice(n, size=max(3, n // 4), replace=False)] + 0.05 * r.normal(size=(max(3, n // 4), d))
        elif c["lm"] == "m=n":
            lm = r.normal(size=(n, d))
        elif c["lm"] == "m>n":
            lm = np.vstack([x, r.normal(size=(3, d))])
    nt = int(r.choice([2, 4]))
    if time:
        t = (np.arange(x.shape[0]) % nt).astype(float)
        t = t[r.permutation(t.shape[0])]
        x = np.hstack([x, t[:, None]])
        if lm is not None:
            lm = np.hstack([lm, r.integers(0, nt, size=(lm.shape[0], 1)).astype(float)])
    n = x.shape[0]
    kw = dict(gp_type=c["gp"], landmarks=lm, cov_func_curry=getattr(mellon.cov, c["kernel"]), jit=False)
    rank = c["rank"]
    if rank == "int":
        m_eff = n if lm is None or c["gp"] in ("full", "full_nystroem") else lm.shape[0]
        rank = max(2, m_eff // 2)
    if rank != "default":
        kw["rank"] = rank
    if lm is None and c["gp"] in ("sparse_cholesky", "sparse_nystroem"):
        kw["n_landmarks"] = max(3, n // 4)
    if c["est"] == "DimensionalityEstimator":
        kw["k"] = 5
    if c.get("opt"):
        kw.update(optimizer=c["opt"], n_iter=12, predictor_with_uncertainty=bool(c.get("unc")))
    normalize = None
    if time:
        normalize = [None, True, [10, 30], {0.0: 12, 1.0: 20}][int(r.integers(0, 4))]
        if isinstance(normalize, dict):
            normalize = {float(v): int(10 + 3 * i) for i, v in enumerate(range(nt))}
        if isinstance(normalize, list):
            normalize = [int(10 + 7 * i) for i in range(nt)]
        kw["normalize_per_time_point"] = normalize
    return x, lm, kw, normalize


def chol_tol(Kxu, Lp, L, w, z, mu):
    """forward-error bound of  K_xu (Lp^-T z)  vs  (Lp^-1 K_ux)^T z  in binary64 (Higham 2002, Thm 8.5 for the
    two triangular solves, standard dot-product bounds for the products)"""
    m = Lp.shape[0]
    Li = np.abs(np.linalg.inv(Lp.T))
    fwd = 16 * m * U * (Li @ (np.abs(Lp.T) @ np.abs(w)))
    fwdL = 16 * m * U * ((np.abs(L) @ np.abs(Lp.T)) @ Li)
    return np.abs(Kxu) @ fwd + fwdL @ np.abs(z) + 16 * m * U * (np.abs(Kxu) @ np.abs(w) + np.abs(L) @ np.abs(z)) + 8 * U * abs(mu)


def insample_check(ctx, desc, x, cov, jitter, pred_obj, pred_x, fitted, mu, z, Lp, L, key_prefix, counts):
    """the three in-sample identities, chosen by the predictor's family"""
    from harness.wb_common import solve_tol
    fam = base_name(type(pred_obj).__name__)
    n = x.shape[0]
    dev = np.abs(pred_x - fitted)
    rep = dict(desc, family=fam, max_dev=float(dev.max()))
    if fam == "LandmarksConditionalCholesky":
        xu = np.asarray(pred_obj.landmarks, dtype=float)
        w = np.asarray(pred_obj.weights, dtype=float)
        Kxu = np.asarray(cov(x, xu), dtype=float)
        counts["chol"] += 1
        if Lp is None or Lp.shape != (xu.shape[0], xu.shape[0]) or L.shape[1] != xu.shape[0] or z.shape[0] != xu.shape[0]:
            # the estimator has no landmark factor matching this predictor: nothing ties the latent vector to the inducing points
            if not (dev <= 1e-9 * max(np.abs(fitted).max(), 1.0)).all():
                ctx.violation(key_prefix + "|chol-insample", "Cholesky-latent predictor built without the estimator's landmark factor; "
                              "it does not reproduce the fitted values", rep)
            return
        tol = chol_tol(Kxu, Lp, L, w, z, mu)
        scale = max(np.abs(fitted).max(), 1.0)
        if not (dev <= tol).all() or dev.max() > 1e-9 * scale + tol.max() * 0:
            if not (dev <= tol).all() or dev.max() > 1e-9 * scale:
                ctx.violation(key_prefix + "|chol-insample", "Cholesky-latent predictor at the training cells differs from the fitted values",
                              dict(rep, bound=float(tol.max()), relative=float(dev.max() / scale)))
    elif fam == "FullConditional":
        w = np.asarray(pred_obj.weights, dtype=float)
        K = np.asarray(cov(x, x), dtype=float)
        A = K + jitter * np.eye(n)
        ident = np.abs(pred_x - fitted + jitter * w)
        tolf = solve_tol(A, w, fitted - mu) + 8 * n * U * float(np.max(np.abs(K) @ np.abs(w))) + 8 * U * (abs(mu) + np.abs(fitted).max())
        counts["full"] += 1
        rep.update(jw=float(jitter * np.abs(w).max()), bound=float(tolf))
        if not (ident <= tolf).all() or not (dev <= jitter * np.abs(w) + tolf).all():
            ctx.violation(key_prefix + "|full-insample", "full predictor: pred(X) - fitted != -jitter * weights (bound jitter*|w| violated)", rep)
    else:
        xu = np.asarray(pred_obj.landmarks, dtype=float)
        w = np.asarray(pred_obj.weights, dtype=float)
        Kxu = np.asarray(cov(x, xu), dtype=float)
        Kuu = np.asarray(cov(xu, xu), dtype=float)
        m = xu.shape[0]
        rr = fitted - mu
        c0, *_ = np.linalg.lstsq(Kxu, rr, rcond=None)
        Ap = Kuu + jitter * np.eye(m)
        M = Kxu.T @ Kxu + jitter * Ap
        kap = np.linalg.cond(M) + np.linalg.cond(Kxu)
        resid = np.linalg.norm(Kxu @ c0 - rr)
        counts["dtc"] += 1
        if resid <= 1e-9 * max(np.linalg.norm(rr), 1e-300) and kap < 1e9:
            E = -jitter * Kxu @ np.linalg.solve(M, Ap @ c0)
            kL = np.sqrt((np.linalg.norm(Kuu, 2) + jitter) / jitter)
            told = 64 * m * U * kap * (np.abs(E).max() + jitter * np.abs(w).max() + jitter * np.abs(c0).max()) \
                + solve_tol(M, w, Kxu.T @ rr, kL) / np.sqrt(jitter) + 1e-9 * np.abs(rr).max()
            counts["dtc_exact"] += 1
            rep.update(bound=float(told), proved_error=float(np.abs(E).max()))
            if not (np.abs((pred_x - fitted) - E) <= told).all():
                ctx.violation(key_prefix + "|dtc-insample", "inducing-point predictor: in-sample error differs from the proved expression", rep)
        else:
            # fitted values not (numerically) in the range of K_xu, or the system is too ill-conditioned for the exact
            # expression to be evaluated: the predictor is then the regularised least-squares fit; check its normal equations
            g = M @ w - Ap @ np.linalg.solve(Ap, Kxu.T @ rr) if False else None
            lhs = Kxu.T @ (Kxu @ w - rr) + jitter * (Ap @ w)
            kL = np.sqrt((np.linalg.norm(Kuu, 2) + jitter) / jitter)
            tol2 = solve_tol(M, w, Kxu.T @ rr, kL) * kL + 1e-300
            counts["dtc_normal_eq"] += 1
            if not np.linalg.norm(lhs) <= tol2:
                ctx.violation(key_prefix + "|dtc-normal-eq", "inducing-point predictor does not satisfy its normal equations on the fitted values",
                              dict(rep, residual=float(np.linalg.norm(lhs)), bound=float(tol2)))


def run(ctx):
    import mellon
    from harness import matgen
    from harness.c02_matrix import matrix_part
    from vlib import enc
    mellon.logger.setLevel(logging.CRITICAL)
    logging.getLogger("mellon").setLevel(logging.CRITICAL)
    rng = random.Random(ctx.seed)
    ctx.cov["trusted_base"] = TRUSTED_COMMON + [
        "translate/pymean.py, translate/pysym.py (extensions of pyscalar / pylogic; fail closed)",
        "the factorisation routines (_full_rank, _standard_low_rank, _modified_low_rank, _full_decomposition_low_rank), "
        "compute_parameter_cov_factor, test_rank, log, k_means are uninterpreted in the dispatch model (theorems hold for every "
        "behaviour); their matrix content is the world-B model (gen/MatGen.v, C01/C04)",
        "BaseEstimator._prepare_attribute ('compute only when None') and process_inference are modelled by the generated order tables",
        "library contracts of world B (cholesky, solve_triangular: validated by harness.c02_matrix / C01)",
    ]
    gen = {}
    funcs = []
    ok = True
    timing = {}
    t0 = time.time()
    try:
        t, f = pymean.translate_means(REPO)
        gen["gen/C02Mean.v"] = t
        funcs += f
    except (ScalarUnsupported, Unsupported) as u:
        ctx.broken.append(Broken("translation", "predictor mean tails", str(u)))
        ok = False
    try:
        t, f = translate_dispatch()
        gen["gen/C02Dispatch.v"] = t
        funcs += f
    except Unsupported as u:
        ctx.broken.append(Broken("translation", "predictor dispatch", str(u)))
        ok = False
    try:
        mg, mf, _meta, _tr = matgen.translate_all(REPO)
        gen.update(mg)
        funcs += mf
    except (matgen.Unsupported, matgen.PathError) as u:
        ctx.broken.append(Broken("translation", "matrix model", str(u)))
        ok = False
    ctx.cov["translated_functions"] = funcs
    built = False
    if ok:
        built = ctx.build_props(gen, extra_targets=["props/C02mx.vo", "lib/MxFloat.vo", "thm/C02Run.vo"])

    timing['translate+build'] = round(time.time() - t0, 1)
    t0 = time.time()
    # ---- world-B searcher on the predictor classes (user-supplied Lp, synthetic y ...)
    mcounts = matrix_part(ctx, rng, ctx.thorough)
    timing['matrix_part'] = round(time.time() - t0, 1)
    t0 = time.time()

    # ---- end-to-end fits
    from harness.wb_common import real_module
    cfgs = config_stream(rng, ctx.thorough)
    budget = 300 if ctx.thorough else 60
    counts = dict(chol=0, full=0, dtc=0, dtc_exact=0, dtc_normal_eq=0, normalize=0, exp=0, refused=0, fits=0, retained_rank_equals_m=0)
    cases, meta = [], []
    dist = {}
    samples = []
    for ci, c in enumerate(cfgs[:budget]):
        r = np.random.default_rng(rng.randrange(2 ** 31))
        x, lm, kw, normalize = build_case(c, r)
        cls = getattr(mellon, c["est"])
        desc = dict(estimator=c["est"], gp_type=c["gp"], landmarks=c["lm"], kernel=c["kernel"], rank=repr(kw.get("rank", "default")),
                    optimizer=c.get("opt", "L-BFGS-B"), predictor_with_uncertainty=bool(c.get("unc")),
                    route="fit_predict(x), then the lazily built est.predict" if ci % 2 else "fit(x)",
                    n=int(x.shape[0]), d=int(x.shape[1]), m=None if lm is None else int(lm.shape[0]),
                    normalize_per_time_point=repr(normalize), data_seed=ci, verif_seed=ctx.seed,
                    x=x.tolist(), landmarks_array=None if lm is None else lm.tolist())
        try:
            est = cls(**kw)
            # every other configuration reaches its predictor through the lazy route (fit_predict builds no predictor; the
            # `predict` attribute builds it on first access): the statement is about the predictor however it came about
            if ci % 2:
                est.fit_predict(x)
            else:
                est.fit(x)
        except ValueError:
            counts["refused"] += 1          # inconsistent option combination (C15 decides which are)
            continue
        counts["fits"] += 1
        g = est.gp_type.name
        key = "C02|%s|%s" % (c["est"], g)
        dist[key] = dist.get(key, 0) + 1
        X = np.asarray(est.x, dtype=float)
        n = X.shape[0]
        jitter = float(est.jitter)
        cov = est.cov_func
        Lp = None if est.Lp is None else np.asarray(est.Lp, dtype=float)
        L = np.asarray(est.L, dtype=float)
        z = np.asarray(est.pre_transformation, dtype=float)
        short = {k: v for k, v in desc.items() if k not in ("x", "landmarks_array")}
        if g == "SPARSE_NYSTROEM" and est.landmarks is not None and L.shape[1] == np.asarray(est.landmarks).shape[0]:
            counts["retained_rank_equals_m"] += 1
        if len(samples) < 6:
            samples.append(dict(short, resolved=g, predictor=type(est.predict).__name__))
        # predictors to examine: (predictor object, fitted values in the predictor's log scale, mu, latent vector, exp?)
        todo = []
        if c["est"] == "DimensionalityEstimator":
            todo.append((est.predict, np.log(np.asarray(est.local_dim_x, dtype=float)), float(est.mu_dim), z[0], True, "local_dim"))
            todo.append((est.predict_density, np.asarray(est.log_density_x, dtype=float), float(est.mu_dens), z[1], False, "density"))
        else:
            todo.append((est.predict, np.asarray(est.log_density_x, dtype=float), float(est.mu), z, False, "density"))
        # --- correspondence with the generated model (class, n_obs, inducing points)
        lm_attr = est.landmarks
        enc_lm = "VNone" if lm_attr is None else enc.val(np.asarray(lm_attr, dtype=float))
        pz = int(z.shape[-1])
        gx = enc.val(X)
        rk = enc.val(est.rank if not hasattr(est.rank, "item") else est.rank.item())
        jt = enc.val(jitter)

        def describe(p):
            xu = getattr(p, "landmarks", None) if base_name(type(p).__name__) != "FullConditional" else None
            nobs = p.n_obs
            nobs = int(nobs) if float(nobs) == int(nobs) and not isinstance(nobs, float) else float(nobs)
            return "(VTuple [VStr %s; %s; %s])" % (enc.coq_str(type(p).__name__), enc.val(nobs),
                                                   "VNone" if xu is None else enc.val(np.asarray(xu, dtype=float)))
        exact_nobs = True
        if c["est"] == "DensityEstimator":
            model = "run_density (VEnum %s) %s %s %s %s %d" % (g, gx, enc_lm, rk, jt, pz)
            expect = "(Ok %s)" % describe(est.predict)
        elif c["est"] == "TimeSensitiveDensityEstimator":
            model = "run_time (VEnum %s) %s %s %s %s %s %d" % (g, gx, enc_lm, rk, jt, enc.val(normalize), pz)
            expect = "(Ok %s)" % describe(est.predict)
            nobs = float(est.predict.n_obs)
            exact_nobs = nobs == int(nobs)        # n / n_times is compared exactly only when it is an integer
        else:
            model = "run_dim (VEnum %s) %s %s %s %s %d" % (g, gx, enc_lm, rk, jt, pz)
            expect = "(Ok (VTuple [%s; %s]))" % (describe(est.predict), describe(est.predict_density))
        if exact_nobs:
            cases.append((model, expect))
            meta.append(short)
        # --- independent oracle: the identities of the property
        for pred_obj, fitted, mu, zz, is_exp, what in todo:
            kp = key + "|" + what
            fam = base_name(type(pred_obj).__name__)
            if fam != FAMILY[g]:
                ctx.violation(kp + "|family", "predictor family does not match the resolved type",
                              dict(desc, resolved=g, predictor=type(pred_obj).__name__, expected=FAMILY[g]))
            if is_exp:
                p_log = np.asarray(pred_obj(X, logscale=True), dtype=float)
                p_val = np.asarray(pred_obj(X), dtype=float)
                counts["exp"] += 1
                # exp is one correctly-rounded-to-1ulp library call on the same float input: 4 ulp
                if not (p_val > 0).all() or not (np.abs(p_val - np.exp(p_log)) <= 4 * 2 * U * np.abs(p_val)).all():
                    ctx.violation(kp + "|exp", "positive-valued predictor: predict(X) != exp(predict(X, logscale=True)) or not > 0",
                                  dict(desc, max_dev=float(np.abs(p_val - np.exp(p_log)).max())))
                pred_x = p_log
            else:
                pred_x = np.asarray(pred_obj(X), dtype=float)
                # normalisation: independent recomputation of n_obs
                if c["est"] == "TimeSensitiveDensityEstimator":
                    nt = np.unique(X[:, -1]).shape[0]
                    if normalize is None or isinstance(normalize, bool):
                        n_expected = n / nt
                    elif isinstance(normalize, dict):
                        n_expected = sum(normalize.values()) / nt
                    else:
                        n_expected = float(np.sum(np.asarray(normalize))) / len(normalize)
                    p_norm = np.asarray(pred_obj(X[:, :-1], time=X[:, -1], normalize=True), dtype=float)
                else:
                    n_expected = n
                    p_norm = np.asarray(pred_obj(X, normalize=True), dtype=float)
                counts["normalize"] += 1
                lowered = pred_x - p_norm
                # one subtraction of log(n_obs) in binary64: |error| <= u(|pred| + |log n|) + ulp of log
                tol_n = 4 * U * (np.abs(pred_x) + abs(np.log(n_expected)) + 1.0)
                if not (np.abs(lowered - np.log(n_expected)) <= tol_n).all() or float(pred_obj.n_obs) != float(n_expected):
                    ctx.violation(kp + "|normalize", "normalize=True does not lower the value by log(number of training cells)",
                                  dict(desc, expected_n_obs=float(n_expected), n_obs=float(pred_obj.n_obs),
                                       lowered_by=float(np.median(lowered)), expected=float(np.log(n_expected))))
            insample_check(ctx, desc, X, cov, jitter, pred_obj, pred_x, fitted, mu, zz, Lp, L, kp, counts)
    timing['fits'] = round(time.time() - t0, 1)
    t0 = time.time()
    n_bad = 0
    if built and cases:
        try:
            bad = ctx.run_cases("c02_dispatch", "PyVal PyValExtC02 C02Dispatch C02DispatchThm C02Run", cases, shard=12)
        except Broken as b:
            ctx.broken.append(b)
            bad = {}
        for i, shown in list(bad.items())[:10]:
            n_bad += 1
            ctx.broken.append(Broken("correspondence", "dispatch model", "fit %r: model gives %s" % (meta[i], shown[:600])))
    timing['coq_cases'] = round(time.time() - t0, 1)
    ctx.cov["timing_s"] = timing
    ctx.cov["evaluations"] = len(cases) + counts["chol"] + counts["full"] + counts["dtc"] + counts["normalize"] + counts["exp"] + sum(mcounts.values())
    ctx.cov["traces_validated_against_impl"] = len(cases)
    ctx.cov["distinct_nontrivial"] = len(dist)
    ctx.cov["input_distribution"] = dict(dist, **{"checks": counts, "matrix_part": mcounts})
    ctx.cov["real_fits"] = counts["fits"]
    ctx.cov["samples"] = samples
    ctx.cov["rule"] = ("real fits (n in {20,24,32,40}, d in {1,2,3}; 3 estimators + the companion density predictor x 6 gp_type settings x landmark "
                       "forms none / m<n / explicit m=n arbitrary points / m>n / 5 tight clusters on 5 landmarks x rank default / float / int x "
                       "Matern52, ExpQuad; quick tier: the special list + one configuration per (estimator, gp_type)); per fit: exact Coq "
                       "correspondence of (predictor class, n_obs, inducing points) with the generated dispatch model, in-sample identity of the "
                       "predictor's family with a derived floating-point bound, normalisation, exp/logscale; distinct_nontrivial = distinct "
                       "(estimator, resolved type) pairs fitted; plus harness.c02_matrix.matrix_part on the predictor classes")
    ctx.assumptions += [
        "factorisation routines are uninterpreted in the dispatch theorems; their algebra is proved in world B under the Cholesky contract",
        "floating-point tolerances are forward/backward error bounds (Higham 2002 Thm 8.5, 10.4) evaluated on the estimator's own matrices",
    ]
