"""C02 - predictor reproduces the fitted training values; normalisation is exact.  (filled in below)"""
import ast
import copy
import logging
import random

import numpy as np

from translate.pylogic import Unsupported, Module, coq_string
from translate.pysym import SymTranslator
from translate import pymean
from translate.pyscalar import Unsupported as ScalarUnsupported
from vlib.core import Broken, TRUSTED_COMMON, REPO

CTORS = ["FullConditional", "ExpFullConditional", "FullConditionalTime",
         "LandmarksConditional", "ExpLandmarksConditional", "LandmarksConditionalTime",
         "LandmarksConditionalCholesky", "ExpLandmarksConditionalCholesky", "LandmarksConditionalCholeskyTime"]
ORACLES = ["_full_rank", "_full_decomposition_low_rank", "_standard_low_rank", "_modified_low_rank",
           "compute_parameter_cov_factor", "test_rank", "log", "k_means"]
METHODS = ["mellon.base_model.BaseEstimator._predictor_landmarks",
           "mellon.base_model.BaseEstimator._compute_Lp",
           "mellon.base_model.BaseEstimator._compute_L",
           "mellon.density_estimator.DensityEstimator._set_log_density_func",
           "mellon.time_sensitive_density_estimator.TimeSensitiveDensityEstimator._set_log_density_func",
           "mellon.dimensionality_estimator.DimensionalityEstimator._set_local_dim_func",
           "mellon.dimensionality_estimator.DimensionalityEstimator._set_log_density_func"]
ESTIMATORS = {"DensityEstimator": "mellon/density_estimator.py",
              "TimeSensitiveDensityEstimator": "mellon/time_sensitive_density_estimator.py",
              "DimensionalityEstimator": "mellon/dimensionality_estimator.py"}
BASE_INITS = ["_FullConditional", "_LandmarksConditional", "_LandmarksConditionalCholesky"]


def n_obs_function(tr, mod, base):
    """synthetic function returning what `<base>.__init__` stores in self.n_obs, as a function of the constructor
    arguments it reads (the only statements allowed to touch those names before are `v = ensure_2d(v)`)"""
    cnode = mod.classes.get(base)
    init = next((n for n in (cnode.body if cnode else []) if isinstance(n, ast.FunctionDef) and n.name == "__init__"), None)
    if init is None:
        raise Unsupported("%s.__init__ not found" % base)
    params = [a.arg for a in init.args.args][1:]
    stores = [(i, st) for i, st in enumerate(init.body) if isinstance(st, ast.Assign) and len(st.targets) == 1
              and isinstance(st.targets[0], ast.Attribute) and isinstance(st.targets[0].value, ast.Name)
              and st.targets[0].value.id == "self" and st.targets[0].attr == "n_obs"]
    if len(stores) != 1:
        raise Unsupported("%s.__init__: %d assignments to self.n_obs" % (base, len(stores)))
    idx, store = stores[0]
    for st in ast.walk(init):
        if st is not store and isinstance(st, (ast.AugAssign, ast.Delete)) :
            for n in ast.walk(st):
                if isinstance(n, ast.Attribute) and n.attr == "n_obs":
                    raise Unsupported("%s.__init__: n_obs modified in place" % base)
    needed = {n.id for n in ast.walk(store.value) if isinstance(n, ast.Name)}
    if not needed <= set(params):
        raise Unsupported("%s.__init__: self.n_obs reads %r" % (base, sorted(needed - set(params))))
    pre = []

    def scan(stmts):
        for st in stmts:
            if st is store:
                return True
            written = {n.id for n in ast.walk(st) if isinstance(n, ast.Name) and isinstance(n.ctx, ast.Store)}
            if written & needed:
                ok = (isinstance(st, ast.Assign) and len(st.targets) == 1 and isinstance(st.targets[0], ast.Name)
                      and ast.unparse(st.value) == "ensure_2d(%s)" % st.targets[0].id)
                if not ok:
                    raise Unsupported("%s.__init__: `%s` rebinds an argument n_obs depends on" % (base, ast.unparse(st)[:60]))
                pre.append(st)
        return False
    if not scan(init.body):
        raise Unsupported("%s.__init__: self.n_obs is not assigned at the top level of __init__" % base)
    ps = [p for p in params if p in needed]
    fn = ast.FunctionDef(name="n_obs_of" + base, args=ast.arguments(posonlyargs=[], args=[ast.arg(arg=p) for p in ps], vararg=None,
                                                                     kwonlyargs=[], kw_defaults=[], kwarg=None, defaults=[]),
                         body=[copy.deepcopy(s) for s in pre] + [ast.Return(value=copy.deepcopy(store.value))],
                         decorator_list=[], returns=None, lineno=store.lineno, col_offset=0)
    ast.fix_missing_locations(fn)
    tr.translate_synthetic(mod, fn, "c02_n_obs" + base)
    return ps


def prepare_order(relpath, cls):
    m = Module(REPO, relpath)
    out = []
    for node in m.classes[cls].body:
        if isinstance(node, ast.FunctionDef) and node.name == "prepare_inference":
            for st in ast.walk(node):
                if isinstance(st, ast.Call) and isinstance(st.func, ast.Attribute) and isinstance(st.func.value, ast.Name) \
                        and st.func.value.id == "self" and st.func.attr == "_prepare_attribute" and st.args \
                        and isinstance(st.args[0], ast.Constant):
                    out.append((st.lineno, st.args[0].value))
    return [n for _, n in sorted(out)]


def process_steps(relpath, cls):
    """the self._set_* / self._run_inference calls of <cls>.process_inference, in order"""
    m = Module(REPO, relpath)
    out = []
    for node in m.classes[cls].body:
        if isinstance(node, ast.FunctionDef) and node.name == "process_inference":
            for st in ast.walk(node):
                if isinstance(st, ast.Call) and isinstance(st.func, ast.Attribute) and isinstance(st.func.value, ast.Name) \
                        and st.func.value.id == "self" and st.func.attr.startswith("_set_"):
                    out.append((st.lineno, st.func.attr))
    return [n for _, n in sorted(out)]


def translate_dispatch():
    tr = SymTranslator(REPO, prefix="c02_")
    tr.sym_ctors = set(CTORS)
    tr.sym_oracles = set(ORACLES)
    tr.identity_calls = {"ensure_2d"}
    for q in METHODS:
        tr.translate(q)
    tr.translate("mellon.parameters.compute_average_cell_count")
    cmod = tr.module("mellon/conditional.py")
    nobs_params = {}
    for base in BASE_INITS:
        nobs_params[base] = n_obs_function(tr, cmod, base)
    text = tr.emit(header_imports=("PyVal", "PyValExtC02"))
    # ---- structural tables
    lines = ["(* class tables of mellon/conditional.py: (class, constructor base, predictor flavour); every class body is `pass` *)"]
    rows = []
    for c in CTORS:
        node = cmod.classes.get(c)
        if node is None or len(node.bases) != 2 or not all(isinstance(b, ast.Name) for b in node.bases):
            raise Unsupported("class %s: bases changed" % c)
        body = [s for s in node.body if not (isinstance(s, ast.Expr) and isinstance(s.value, ast.Constant))]
        if not (len(body) == 0 or (len(body) == 1 and isinstance(body[0], ast.Pass))):
            raise Unsupported("class %s has a body of its own" % c)
        rows.append("(%s, (%s, %s))" % (coq_string(c), coq_string(node.bases[0].id), coq_string(node.bases[1].id)))
    lines.append("Definition c02_class_table : list (string * (string * string)) :=\n  [%s]." % ";\n   ".join(rows))
    for base in BASE_INITS:
        lines.append("Definition c02_n_obs_args%s : list string := [%s]." % (base, "; ".join(coq_string(p) for p in nobs_params[base])))
    for cls, rel in ESTIMATORS.items():
        lines.append("Definition c02_prepare_order_%s : list string := [%s]." % (cls, "; ".join(coq_string(s) for s in prepare_order(rel, cls))))
        lines.append("Definition c02_process_steps_%s : list string := [%s]." % (cls, "; ".join(coq_string(s) for s in process_steps(rel, cls))))
    text += "\n" + "\n".join(lines) + "\n"
    funcs = METHODS + ["mellon.parameters.compute_average_cell_count", "mellon.parameters.compute_Lp", "mellon.parameters.compute_L",
                       "mellon.parameters.validate_compute_L_input", "mellon.inference.compute_conditional",
                       "mellon.inference.compute_conditional_times", "mellon.inference.compute_conditional_explog"] \
        + ["mellon.conditional.%s.__init__ (self.n_obs)" % b for b in BASE_INITS] \
        + ["class table of mellon/conditional.py", "prepare_inference / process_inference order tables (3 estimators)"]
    return text, funcs
