"""C01 - out-of-sample prediction is the exact GP conditional mean.

translate (translate/pymatrix.py, all paths of harness/matgen.TARGETS, regenerated from the working tree)
-> build coq/props/C01.v (normal equations of the full / DTC / Cholesky-latent formulations, noise assembly,
   affine read-out, batch independence; all sizes, any real closed field, under the Cholesky contract)
-> run the nine predictor classes on seeded configurations, recording cholesky / solve_triangular and validating
   their contracts by residuals
-> evaluate the GENERATED definitions with the PrimFloat instance inside Coq (vm_compute) on the implementation's
   Gram matrices and compare through residuals of the stated normal equations and predictions
-> independent NumPy searcher on the implementation alone: residual of the stated normal equations, dense
   solve + prediction at out-of-sample points, read-out, batch / permutation / single-row independence.

Configurations excluded because they die with a shape TypeError on the current tree (listed under C15 in
known_findings.jsonl): per-cell vector sigma together with landmarks; FunctionEstimator landmarks + uncertainty.
"""
import random

import numpy as np

from harness import matgen
from harness.wb_common import (U, real_module, dataset, KERNELS, make_kernel, Recorder, quiet, noise_matrix, col2, solve_tol,
                               resid_eval_err)
from vlib.core import Broken, TRUSTED_COMMON, REPO

FAMILIES = ["full", "dtc", "chol"]
FLAVOURS = ["plain", "exp", "time"]
CLASSES = {("full", "plain"): "FullConditional", ("full", "exp"): "ExpFullConditional", ("full", "time"): "FullConditionalTime",
           ("dtc", "plain"): "LandmarksConditional", ("dtc", "exp"): "ExpLandmarksConditional",
           ("dtc", "time"): "LandmarksConditionalTime", ("chol", "plain"): "LandmarksConditionalCholesky",
           ("chol", "exp"): "ExpLandmarksConditionalCholesky", ("chol", "time"): "LandmarksConditionalCholeskyTime"}


def make_configs(rng, thorough):
    cfgs = []
    reps = 4 if thorough else 1
    i = 0
    for rep in range(reps):
        for fam in FAMILIES:
            for fl in FLAVOURS:
                for kname in KERNELS:
                    i += 1
                    n = rng.choice([6, 12, 25, 40, 60] if not thorough else [6, 12, 25, 40, 60, 120, 200])
                    d = rng.choice([1, 2, 3, 5, 25])
                    if fam == "full":
                        # "ymean_factor": values are the mean AND a noise factor is supplied for the uncertainty (what the
                        # estimators do after ADVI); the factor must not enter the mean
                        noise = ["ymean", "zero", "subjitter", "scalar", "vector", "given", "ymean_factor"][i % 7]
                    elif fam == "dtc":
                        noise = ["ymean", "zero", "subjitter", "scalar"][i % 4]
                    else:
                        noise = ["ymean", "zero", "scalar", "vector", "given"][i % 5]
                    cfgs.append(dict(
                        id=i, fam=fam, flavour=fl, kernel=kname, n=n, d=d,
                        data=rng.choice(["gauss", "clustered", "near-duplicate", "anisotropic"]),
                        ls=rng.choice([0.1, 0.3, 1.0, 3.0, 10.0]), compose=(i % 7 == 0),
                        jitter=rng.choice([1e-8, 1e-7, 1e-6, 1e-5, 1e-4, 1e-3]), noise=noise,
                        cols=rng.choice([0, 1, 3]),           # 0: 1-D values
                        mrel=rng.choice(["lt", "eq", "gt"]), q=rng.choice([1, 4, 9]),
                        via_dispatch=(i % 3 == 0), seed=rng.randrange(2 ** 31)))
    return cfgs


def build(cfg):
    """construct the predictor with the real code; returns everything the comparisons need"""
    mc = real_module("mellon.conditional")
    mi = real_module("mellon.inference")
    rng = np.random.default_rng(cfg["seed"])
    n, d, j = cfg["n"], cfg["d"], cfg["jitter"]
    x = dataset(rng, n, d, cfg["data"])
    if cfg["flavour"] == "time":
        x = np.hstack([x, rng.integers(0, 3, size=(n, 1)).astype(float)])
    cov, kdesc = make_kernel(rng, cfg["kernel"], cfg["ls"], cfg["compose"])
    m = {"lt": max(2, n // 3), "eq": n, "gt": n + 5}[cfg["mrel"]]
    if cfg["fam"] == "full":
        xu, m = x, n
    else:
        extra = dataset(rng, m, x.shape[1], "gauss")
        if cfg["flavour"] == "time":
            extra[:, -1] = rng.integers(0, 3, size=m)
        xu = np.vstack([x[: m // 2], extra[m // 2:]]) if m != n else extra
    c = cfg["cols"]
    nb = n if cfg["fam"] != "chol" else m
    vals = rng.normal(size=(nb,) if c == 0 else (nb, c))
    if cfg["flavour"] == "exp" and cfg["fam"] != "chol":
        vals = 0.3 * vals
    mu = float(rng.normal())
    noise = cfg["noise"]
    sigma = {"ymean": 0.0, "zero": 0.0, "subjitter": 0.5 * np.sqrt(j), "scalar": float(rng.choice([0.05, 0.3, 1.5])),
             "given": 0.0, "ymean_factor": 0.0}.get(noise)
    if noise == "vector":
        sigma = np.abs(rng.normal(size=nb)) * 0.3
        sigma[:: 3] = 0.1 * np.sqrt(j)          # some entries below the jitter floor
    y_is_mean = noise in ("ymean", "ymean_factor")
    ycf = 0.4 * rng.normal(size=(nb, 3)) if noise == "ymean_factor" else None
    Lgiven = None
    K_bb = np.asarray(cov(xu, xu), dtype=float)
    if noise == "given":
        # a supplied factor: Cholesky of a differently regularised matrix (any lower-triangular, non-zero diagonal)
        Lgiven = np.linalg.cholesky(K_bb + (j + 0.01) * np.eye(nb))
    cls = getattr(mc, CLASSES[(cfg["fam"], cfg["flavour"])])
    fam = cfg["fam"]
    if fam == "full" and ycf is not None:
        p = cls(x, vals, mu, cov, L=None, sigma=sigma, jitter=j, y_cov_factor=ycf, y_is_mean=True, with_uncertainty=True)
    elif fam == "full":
        if cfg["via_dispatch"] and cfg["flavour"] == "plain":
            p = mi.compute_conditional(x, None, None, None, vals, mu, cov, None, Lgiven, sigma, jitter=j, y_is_mean=y_is_mean)
        elif cfg["via_dispatch"] and cfg["flavour"] == "time":
            p = mi.compute_conditional_times(x, None, None, None, vals, mu, cov, None, Lgiven, sigma, jitter=j, y_is_mean=y_is_mean)
        else:
            p = cls(x, vals, mu, cov, L=Lgiven, sigma=sigma, jitter=j, y_is_mean=y_is_mean)
    elif fam == "dtc":
        if cfg["via_dispatch"] and cfg["flavour"] == "plain":
            p = mi.compute_conditional(x, xu, None, None, vals, mu, cov, None, None, sigma, jitter=j, y_is_mean=y_is_mean)
        else:
            p = cls(x, xu, vals, mu, cov, sigma=sigma, jitter=j, y_is_mean=y_is_mean)
    else:
        if cfg["via_dispatch"] and cfg["flavour"] == "plain" and Lgiven is not None:
            p = mi.compute_conditional(x, xu, vals, None, None, mu, cov, None, Lgiven, sigma, jitter=j, y_is_mean=y_is_mean)
        else:
            p = cls(xu, vals, mu, cov, n, L=Lgiven, sigma=sigma, jitter=j, y_is_mean=y_is_mean)
    if type(p).__name__ != CLASSES[(fam, cfg["flavour"])] and not cfg["via_dispatch"]:
        raise AssertionError("wrong class")
    Xq = dataset(rng, cfg["q"], d, "gauss") * 1.5
    if cfg["q"] > 2:
        Xq[0] = x[0, :d]                       # one in-sample query row
    if cfg["flavour"] == "time":
        Xq = np.hstack([Xq, rng.integers(0, 4, size=(cfg["q"], 1)).astype(float)])
        if cfg["q"] > 2:
            Xq[0] = x[0]
    return dict(p=p, x=x, xu=xu, vals=vals, mu=mu, sigma=sigma, y_is_mean=y_is_mean, Lgiven=Lgiven, cov=cov,
                kdesc=kdesc, Xq=Xq, m=m, nb=nb, K_bb=K_bb, ycf=ycf)


def stated_system(cfg, b):
    """(A, rhs, amplification, extra) of the theorem for this configuration; None for the latent family"""
    j, fam = cfg["jitter"], cfg["fam"]
    r = col2(b["vals"]) - b["mu"]
    kind = {"ymean": "ymean", "ymean_factor": "ymean", "zero": "scalar", "subjitter": "scalar", "scalar": "scalar", "vector": "vector"}.get(cfg["noise"])
    if fam == "full":
        if cfg["noise"] == "given":
            L = b["Lgiven"]
            A = L @ L.T
            amin = 0.01
        else:
            N = noise_matrix(kind, b["sigma"], j, b["nb"])
            A = b["K_bb"] + N
            amin = np.diag(N).min()
        return A, r, amin, 1.0
    if fam == "dtc":
        a = j if kind == "ymean" else max(float(b["sigma"]) ** 2, j)
        Kuf = np.asarray(b["cov"](b["xu"], b["x"]), dtype=float)
        Ap = b["K_bb"] + j * np.eye(b["m"])
        A = Kuf @ Kuf.T + a * Ap
        kappa = np.sqrt((np.linalg.norm(b["K_bb"], 2) + j) / j)     # >= cond_2 of the Cholesky factor of K_uu + jI
        return A, Kuf @ r, (a, j), kappa
    return None


def model_terms(cfg, b, meta):
    """Gallina terms (weights, prediction[, L]) of the generated definitions for this configuration"""
    fam, j = cfg["fam"], cfg["jitter"]
    vals = col2(b["vals"])
    c = vals.shape[1]
    q = b["Xq"].shape[0]
    Ks = np.asarray(b["cov"](b["Xq"], b["xu"]), dtype=float)
    args = dict(mu=b["mu"], jitter=j, sigma=b["sigma"])
    extra = []
    if fam == "full":
        n = b["nb"]
        dims = dict(n=n, c=c)
        args.update(K_x_x=b["K_bb"], y=vals)
        if cfg["noise"] == "given":
            name = "FullCond_init_LM_sS_cN_yF_uF_weights"
            args["L"] = b["Lgiven"]
        elif cfg["noise"] == "ymean":
            name = "FullCond_init_LN_sS_cN_yT_uF_weights"
        elif cfg["noise"] == "ymean_factor":
            name = "FullCond_init_LN_sS_cM_yT_uT_weights"
            args["y_cov_factor"] = b["ycf"]
            dims["k"] = b["ycf"].shape[1]
        elif cfg["noise"] == "vector":
            name = "FullCond_init_LN_sV_cN_yF_uF_weights"
        else:
            name = "FullCond_init_LN_sS_cN_yF_uF_weights"
        mean = "FullCond_mean"
        kname = "K_Xnew_x"
    elif fam == "dtc":
        dims = dict(n=cfg["n"], m=b["m"], c=c)
        args.update(K_xu_x=np.asarray(b["cov"](b["xu"], b["x"]), dtype=float), K_xu_xu=b["K_bb"], y=vals)
        name = "LandmarksCond_init_sS_cN_yT_uF_weights" if cfg["noise"] == "ymean" else "LandmarksCond_init_sS_cN_yF_uF_weights"
        mean = "LandmarksCond_mean"
        kname = "K_Xnew_xu"
    else:
        dims = dict(m=b["m"], c=c)
        args.update(K_xu_xu=b["K_bb"], pre_transformation=vals, n_obs=cfg["n"])
        if cfg["noise"] == "given":
            name = "LandmarksCholCond_init_LM_sS_yT_uF_weights"
            args["L"] = b["Lgiven"]
        elif cfg["noise"] == "ymean":
            name = "LandmarksCholCond_init_LN_sS_yT_uF_weights"
            extra.append(matgen.coq_call(meta, "get_L_cN", dict(n=b["m"]), dict(K_x_x=b["K_bb"], jitter=j)))
        elif cfg["noise"] == "vector":
            name = "LandmarksCholCond_init_LN_sV_yF_uF_weights"
            ycf = matgen.coq_call(meta, "sigma_to_y_cov_factor_sV_cN", dict(ns=b["m"]), dict(sigma=b["sigma"], n=b["m"]))
            extra.append("(@get_L_cM float FM FloatOps %d %d %s %s %s)" % (b["m"], b["m"], "(%s : list (list float))" % matgen.mlit(b["K_bb"]), matgen.flit(j), ycf))
        else:
            name = "LandmarksCholCond_init_LN_sS_yF_uF_weights"
            ycf = matgen.coq_call(meta, "sigma_to_y_cov_factor_sS_cN", {}, dict(sigma=b["sigma"], n=b["m"]))
            extra.append("(@get_L_cM float FM FloatOps %d %d %s %s %s)" % (b["m"], b["m"], "(%s : list (list float))" % matgen.mlit(b["K_bb"]), matgen.flit(j), ycf))
        mean = "LandmarksCholCond_mean"
        kname = "K_Xnew_xu"
    w = matgen.coq_call(meta, name, dims, args)
    return name, w, (mean, kname, Ks, q, c), extra


def run(ctx):
    import jax.numpy as jnp  # noqa: F401
    mc = real_module("mellon.conditional")
    quiet()
    rng = random.Random(ctx.seed)
    ctx.cov["trusted_base"] = TRUSTED_COMMON + [
        "jnp.linalg.cholesky contract (lower-triangular, positive diagonal, L L^T = A on symmetric positive definite input; else NaN) - validated by residual on every recorded call",
        "jax.scipy.linalg.solve_triangular = inverse of the stated triangle - validated by residual on every recorded call",
        "kernel Gram matrices symmetric positive semi-definite (hypotheses sym K, psd K of the theorems; proved/assumed in C05)",
        "PrimFloat list instance (lib/MxFloat.v) only executes the generated model; no theorem depends on it",
    ]
    ctx.assumptions += ["theorems are over exact real-closed-field arithmetic; binary64 rounding enters only through the derived comparison tolerances (Higham 2002 Thm 8.5/10.3/10.4 backward-error bounds)",
                        "shape-error configurations listed under C15 (vector sigma + landmarks) are excluded"]
    gen = meta = None
    try:
        gen, funcs, meta, _tr = matgen.translate_all(REPO)
        ctx.cov["translated_functions"] = funcs
        ctx.build_props(gen, extra_targets=["lib/MxFloat.vo"])
    except matgen.Unsupported as u:
        ctx.broken.append(Broken("translation", "matrix subset", str(u)))
    except matgen.PathError as e:
        ctx.broken.append(Broken("translation", "static path raises", str(e)))

    cfgs = make_configs(rng, ctx.thorough)
    rec = Recorder([mc])
    items = []          # per configuration: dict for the comparisons
    dist = {}
    refused = 0
    with rec:
        for cfg in cfgs:
            try:
                b = build(cfg)
            except ValueError as e:
                if "positively definite" in str(e):
                    refused += 1
                    continue
                raise
            except (TypeError, AssertionError, IndexError, AttributeError) as e:   # an accepted configuration died
                ctx.violation("C01|%s|%s|%s" % (CLASSES[(cfg["fam"], cfg["flavour"])], cfg["noise"], type(e).__name__),
                              "constructing the predictor raised %s: %s" % (type(e).__name__, str(e)[:200]), dict(cfg))
                continue
            p = b["p"]
            w_impl = col2(np.asarray(p.weights, dtype=float))
            Xq = b["Xq"]
            # the predictor family must be the one the inputs call for (full / inducing-point / Cholesky-latent)
            if type(p).__name__ != CLASSES[(cfg["fam"], cfg["flavour"])] or w_impl.shape[0] != np.asarray(b["xu"]).shape[0]:
                ctx.violation("C01|family|%s|%s" % (CLASSES[(cfg["fam"], cfg["flavour"])], cfg["mrel"] if cfg["fam"] != "full" else "-"),
                              "the predictor built is not of the formulation the inputs call for",
                              replay_of(cfg, b, {"expected_class": CLASSES[(cfg["fam"], cfg["flavour"])], "observed_class": type(p).__name__,
                                                 "n_weights": int(w_impl.shape[0]), "n_basis": int(np.asarray(b["xu"]).shape[0])}))
                continue
            if cfg["flavour"] == "exp":
                pred_impl = np.asarray(p(Xq, logscale=True), dtype=float)
                pos = np.asarray(p(Xq), dtype=float)
                with np.errstate(all="ignore"):
                    expd = np.exp(pred_impl)
                if not np.isnan(pred_impl).any() and not (np.all(pos > 0) and np.allclose(pos, expd, rtol=64 * U, atol=0)):
                    ctx.violation("C01|exp|%s" % cfg["fam"], "ExpPredictor value is not exp of its log-scale output",
                                  replay_of(cfg, b, {"pos": pos.tolist(), "log": pred_impl.tolist()}))
            elif cfg["flavour"] == "time" and cfg["id"] % 2 == 0:
                pred_impl = np.asarray(p(Xq[:, :-1], time=Xq[:, -1]), dtype=float)
            else:
                pred_impl = np.asarray(p(Xq), dtype=float)
            if pred_impl.shape != ((Xq.shape[0],) if np.ndim(b["vals"]) == 1 else (Xq.shape[0], b["vals"].shape[1])):
                ctx.violation("C01|shape|%s" % cfg["fam"], "prediction has the wrong shape", replay_of(cfg, b, {"shape": list(pred_impl.shape)}))
                continue
            items.append(dict(cfg=cfg, b=b, w_impl=w_impl, pred_impl=col2(pred_impl)))
            key = "%s/%s/%s/%s" % (cfg["fam"], cfg["flavour"], cfg["noise"], cfg["mrel"] if cfg["fam"] != "full" else "-")
            dist[key] = dist.get(key, 0) + 1
            searcher(ctx, cfg, b, w_impl, col2(pred_impl), rec)
    for f in rec.failures[:5]:
        ctx.broken.append(Broken("contract", f.split(":")[0], f))

    # ---- correspondence: the generated definitions inside Coq on the same Gram matrices
    n_eval = 0
    if gen is not None and not any(b.kind in ("proof", "gate") for b in ctx.broken):
        n_eval = correspond(ctx, items, meta)
    ctx.cov["evaluations"] = n_eval
    ctx.cov["traces_validated_against_impl"] = n_eval
    ctx.cov["distinct_nontrivial"] = len(dist)
    ctx.cov["input_distribution"] = dist
    ctx.cov["contracts_validated"] = dict(rec.counts, cholesky_nan=rec.chol_nan)
    ctx.cov["refused_not_positive_definite"] = refused
    ctx.cov["rule"] = ("%d seeded configurations: 3 formulations x 3 predictor flavours (all 9 classes) x 6 kernels (+compositions), "
                       "n<=60 (quick), d in {1,2,3,5,25}, 4 data shapes, ls over 2 decades, jitter 1e-8..1e-3, noise in "
                       "{y_is_mean, 0, <sqrt(jitter), scalar, per-cell vector, supplied factor}, 1-D / 1 / 3 value columns, m<,=,>n, "
                       "constructed directly and through compute_conditional*. Each one: (i) oracle contracts by residual, "
                       "(ii) residual of the stated normal equations for the implementation's weights, (iii) read-out, "
                       "batch/permutation/single-row independence, (iv) dense NumPy solve + out-of-sample prediction, "
                       "(v) the generated Gallina definitions run with PrimFloat inside Coq on the same Gram matrices: residual of "
                       "the stated equations for the model's weights and prediction agreement within the derived bound. "
                       "distinct_nontrivial = distinct (formulation, flavour, noise form, m relation)." % len(cfgs))
    ctx.cov["samples"] = [dict(it["cfg"]) for it in items[:3]]


def replay_of(cfg, b, extra):
    d = dict(cfg)
    d.update(kernel_desc=b["kdesc"], x=b["x"].tolist(), landmarks=None if cfg["fam"] == "full" else b["xu"].tolist(),
             values=np.asarray(b["vals"]).tolist(), mu=b["mu"], sigma=np.asarray(b["sigma"]).tolist(),
             y_is_mean=b["y_is_mean"], Xnew=b["Xq"].tolist(), cls=CLASSES[(cfg["fam"], cfg["flavour"])],
             y_cov_factor=None if b.get("ycf") is None else b["ycf"].tolist(), with_uncertainty=b.get("ycf") is not None)
    d.update(extra)
    return d


def pred_tol(cfg, b, amp_info, resnorms, A, ws, rhs, Ks):
    """provable bound on |K_* (w1 - w2)| from the residuals of w1, w2 in A w = rhs:
       full: |k^T A^-1 v| <= sqrt(k(x,x)/a_min) |v| ;  DTC: <= sqrt(k(x,x)) |v| / (a sqrt(j))"""
    kss = float(np.max(np.asarray(b["cov"].diag(b["Xq"]), dtype=float)))
    if cfg["fam"] == "full":
        amp = np.sqrt(max(kss, 0.0) / amp_info)
    else:
        a, j = amp_info
        amp = np.sqrt(max(kss, 0.0)) / (a * np.sqrt(j))
    ev = sum(resid_eval_err(A, w, rhs) for w in ws)
    read = 8 * Ks.shape[1] * U * float(np.max(np.abs(Ks) @ sum(np.abs(w) for w in ws))) + 8 * U * abs(b["mu"])
    return amp * (sum(resnorms) + ev) + read


def searcher(ctx, cfg, b, w_impl, pred_impl, rec):
    """independent NumPy re-derivation on the implementation alone"""
    p, Xq, fam = b["p"], b["Xq"], cfg["fam"]
    key = "C01|%s|%s|%s" % (CLASSES[(fam, cfg["flavour"])], cfg["noise"], cfg["mrel"] if fam != "full" else "-")
    if np.isnan(w_impl).any() or np.isnan(pred_impl).any():
        ctx.violation(key + "|nan", "NaN in weights or prediction", replay_of(cfg, b, {}))
        return
    Ks = np.asarray(b["cov"](Xq, b["xu"]), dtype=float)
    # read-out: mean = mu + K(Xnew, basis) weights
    ro = b["mu"] + Ks @ w_impl
    tol_ro = 8 * Ks.shape[1] * U * (np.abs(Ks) @ np.abs(w_impl)) + 8 * U * abs(b["mu"]) + 1e-300
    if (np.abs(ro - pred_impl) > tol_ro).any():
        ctx.violation(key + "|readout", "prediction is not mu + K(Xnew, basis) @ weights",
                      replay_of(cfg, b, {"expected": ro.tolist(), "observed": pred_impl.tolist()}))
    sysm = stated_system(cfg, b)
    if sysm is not None:
        A, rhs, amp_info, extra = sysm
        res = np.linalg.norm(A @ w_impl - rhs)
        tol = solve_tol(A, w_impl, rhs, extra)
        if not res <= tol:
            ctx.violation(key + "|normal-eq", "weights do not solve the stated normal equations",
                          replay_of(cfg, b, {"residual": res, "bound": tol, "weights": w_impl.tolist()}))
        # dense reference solution and out-of-sample prediction
        try:
            w_ref = np.linalg.solve(A, rhs)
        except np.linalg.LinAlgError:
            w_ref = None
        if w_ref is not None:
            res_ref = np.linalg.norm(A @ w_ref - rhs)
            pr = b["mu"] + Ks @ w_ref
            tp = pred_tol(cfg, b, amp_info, [res, res_ref], A, [w_impl, w_ref], rhs, Ks)
            if not (np.abs(pr - pred_impl) <= tp).all():
                ctx.violation(key + "|prediction", "out-of-sample prediction differs from the conditional mean",
                              replay_of(cfg, b, {"expected": pr.tolist(), "observed": pred_impl.tolist(), "bound": tp}))
    else:
        # Cholesky-latent: L^T w = z with L the (validated) factor the constructor used or was given
        z = col2(b["vals"])
        if b["Lgiven"] is not None:
            L = b["Lgiven"]
        else:
            kind = {"ymean": "ymean", "ymean_factor": "ymean", "zero": "scalar", "scalar": "scalar", "vector": "vector"}[cfg["noise"]]
            # symmetrised like the recorded argument (jnp.linalg.cholesky factorises (A + A^T)/2; Gram matrices are
            # symmetric only up to the cancellation error of |x|^2 + |y|^2 - 2xy)
            Astat = 0.5 * (b["K_bb"] + b["K_bb"].T) + noise_matrix(kind, b["sigma"], cfg["jitter"], b["m"])
            Arec, L = rec.last["chol"]
            if Arec.shape != Astat.shape or np.linalg.norm(Arec - Astat) > 8 * U * np.linalg.norm(Astat):
                ctx.violation(key + "|noise", "the factorised matrix is not K_uu + stated noise",
                              replay_of(cfg, b, {"difference": float(np.linalg.norm(Arec - Astat)) if Arec.shape == Astat.shape else "shape"}))
                return
        mm = L.shape[0]
        res = np.abs(L.T @ w_impl - z)
        bound = 8 * mm * U * (np.abs(L.T) @ np.abs(w_impl)) + 1e-300
        if (res > bound).any():
            ctx.violation(key + "|latent-eq", "weights do not satisfy L^T w = z",
                          replay_of(cfg, b, {"max_ratio": float((res / bound).max())}))
    # batch independence
    call = (lambda X: np.asarray(p(X, logscale=True), dtype=float)) if cfg["flavour"] == "exp" else (lambda X: np.asarray(p(X), dtype=float))
    if Xq.shape[0] > 1:
        perm = np.random.default_rng(cfg["seed"] + 1).permutation(Xq.shape[0])
        pp = col2(call(Xq[perm]))
        one = col2(call(Xq[1:2]))
        dup = col2(call(np.vstack([Xq[1:2], Xq[:2], Xq[1:2]])))
        tolb = 2 * tol_ro
        if (np.abs(pp - pred_impl[perm]) > tolb[perm]).any() or (np.abs(one - pred_impl[1:2]) > tolb[1:2]).any() \
                or (np.abs(dup[0] - pred_impl[1]) > tolb[1]).any() or (np.abs(dup[3] - pred_impl[1]) > tolb[1]).any():
            ctx.violation(key + "|batch", "a query row's value depends on the other rows of the batch",
                          replay_of(cfg, b, {"perm": perm.tolist()}))
    # many query rows (5000: more than any plausible internal block of 1024 / 2048 / 4096 rows and not a multiple of one): row i belongs to query i
    if cfg["id"] % 5 == 1 and Xq.shape[0] > 1:
        idxb = np.random.default_rng(cfg["seed"] + 7).integers(0, Xq.shape[0], size=5000)
        big = col2(call(Xq[idxb]))
        devb = np.abs(big - pred_impl[idxb])
        # 2 tol_ro bounds the rounding of K(Xnew, basis) @ weights for GIVEN kernel entries; evaluated among 5000 rows the entries
        # themselves are rounded differently (other blocking of |x|^2 - 2xy + |y|^2): a margin of 1e-7 of the magnitude of the
        # terms is added (support comparison; observed differences <= 1e-10, a row mix-up changes the value by O(1))
        # ... derived as in C06.kdiag_tol: squared distance error 4(d+2)u(|x|^2+|y|^2), distance error that over the distance (or its
        # square root), kernel error (1.5 / ls) times that - it matters for the non-smooth Exponential kernel at near-coincident rows
        xb_ = np.asarray(b["xu"], dtype=float)
        dq_ = Xq.shape[1]
        x2q_, x2b_ = np.sum(Xq * Xq, axis=1)[:, None], np.sum(xb_ * xb_, axis=1)[None, :]
        sq_ = np.maximum(x2q_ + x2b_ - 2 * Xq @ xb_.T, 0.0)
        dsq_ = 4 * (dq_ + 2) * U * (x2q_ + x2b_)
        ddist_ = np.minimum(dsq_ / np.sqrt(sq_ + 1e-12), np.sqrt(dsq_))
        eK_ = (1.5 / cfg["ls"]) * ddist_ * (1 + np.abs(Ks)) + 8 * (dq_ + 2) * U * (np.abs(Ks) + (x2q_ + x2b_) / cfg["ls"] ** 2)
        tolm = 2 * tol_ro[idxb] + (2 * eK_ @ np.abs(w_impl))[idxb] + 1e-9 * ((np.abs(Ks) @ np.abs(w_impl))[idxb] + np.abs(pred_impl[idxb]) + 1.0)
        if big.shape[0] != 5000 or (devb > tolm).any():
            ib = int(np.argmax((devb - tolm).max(axis=1))) if big.shape[0] == 5000 else -1
            ctx.violation(key + "|many-rows", "among 5000 query rows, a row's value differs from the value of the same row in a small batch",
                          replay_of(cfg, b, {"rows": "Xnew[default_rng(seed + 7).integers(0, len(Xnew), 5000)]", "first_bad_row": ib,
                                             "max_difference": float(devb.max()) if big.shape[0] == 5000 else "shape"}))
    # history: one NumPy buffer refilled in place between two calls - the second answer is about the buffer's CURRENT rows
    buf = np.array(Xq, dtype=float, copy=True)
    call(buf)
    Xalt = np.array(Xq[::-1], dtype=float, copy=True)
    Xalt[:, : Xq.shape[1] - (1 if cfg["flavour"] == "time" else 0)] += 0.25
    buf[...] = Xalt
    got, want = call(buf), call(np.array(Xalt, copy=True))
    if not np.array_equal(got, want, equal_nan=True):
        ctx.violation(key + "|buffer-reuse", "the prediction for a NumPy buffer refilled in place differs from the prediction for a fresh copy of the same rows",
                      replay_of(cfg, b, {"sequence": "buf = Xnew.copy(); p(buf); buf[...] = Xalt; p(buf) vs p(Xalt.copy())", "Xalt": Xalt.tolist(),
                                         "got": np.asarray(got).tolist(), "want": np.asarray(want).tolist()}))


def correspond(ctx, items, meta):
    from concurrent.futures import ThreadPoolExecutor
    jobs = []
    for it in items:
        cfg, b = it["cfg"], it["b"]
        name, w, (mean, kname, Ks, q, c), extra = model_terms(cfg, b, meta)
        pred = "(@%s float FM FloatOps %d %d %d (%s : list (list float)) %s wts)" % (mean, q, Ks.shape[1], c, matgen.mlit(Ks), matgen.flit(b["mu"]))
        # order of the mean's parameters is taken from the generated signature
        pm = [pn for pn, _ in meta[mean]["params"]]
        a = {kname: "(%s : list (list float))" % matgen.mlit(Ks), "mu": matgen.flit(b["mu"]), "weights": "wts"}
        pred = "(@%s float FM FloatOps %d %d %d %s)" % (mean, q, Ks.shape[1], c, " ".join(a[x] for x in pm))
        jobs.append((it, name, w, pred, extra, Ks))
    shards = [jobs[i::8] for i in range(8)]

    def one(k):
        out = []
        body = [matgen.HEADER]
        idx = 0
        for (it, name, w, pred, extra, Ks) in shards[k]:
            body.append("Definition wts_%d : list (list float) := %s." % (idx, w))
            body.append("Eval vm_compute in wts_%d." % idx)
            body.append("Eval vm_compute in %s." % pred.replace("wts", "wts_%d" % idx))
            for e in extra:
                body.append("Eval vm_compute in %s." % e)
            idx += 1
        if not shards[k]:
            return []
        import re
        txt = ctx.coq_eval("c01_%d" % k, "\n".join(body), timeout=900)
        parts = [pp.split("\n     :")[0] for pp in re.split(r"\n\s*=\s", "\n" + txt)[1:]]
        pos = 0
        for (it, name, w, pred, extra, Ks) in shards[k]:
            need = 2 + len(extra)
            mats = [matgen.parse_matrix(t) for t in parts[pos:pos + need]]
            pos += need
            out.append((it, name, mats, Ks))
        if pos != len(parts):
            raise Broken("correspondence", "c01_%d" % k, "unexpected number of results")
        return out
    results = []
    try:
        with ThreadPoolExecutor(max_workers=8) as ex:
            for r in ex.map(one, range(8)):
                results += r
    except Broken as bk:
        ctx.broken.append(bk)
        return 0
    n_ok = 0
    for it, name, mats, Ks in results:
        cfg, b = it["cfg"], it["b"]
        w_m, pred_m = mats[0], mats[1]
        if w_m.shape != it["w_impl"].shape or pred_m.shape != it["pred_impl"].shape:
            ctx.broken.append(Broken("correspondence", name, "model result has shape %s / %s" % (w_m.shape, pred_m.shape)))
            continue
        if np.isnan(w_m).any():
            ctx.broken.append(Broken("correspondence", name, "model produced NaN on configuration %r" % cfg))
            continue
        sysm = stated_system(cfg, b)
        if sysm is not None:
            A, rhs, amp_info, extra = sysm
            res_m = np.linalg.norm(A @ w_m - rhs)
            if not res_m <= solve_tol(A, w_m, rhs, extra):
                ctx.broken.append(Broken("correspondence", name, "generated model's weights do not solve the stated normal equations: residual %.3g > %.3g, configuration %r" % (res_m, solve_tol(A, w_m, rhs, extra), cfg)))
                continue
            res_i = np.linalg.norm(A @ it["w_impl"] - rhs)
            tp = pred_tol(cfg, b, amp_info, [res_m, res_i], A, [w_m, it["w_impl"]], rhs, Ks)
            if not (np.abs(pred_m - it["pred_impl"]) <= tp).all():
                ctx.broken.append(Broken("correspondence", name, "model and implementation predictions differ by %.3g > %.3g, configuration %r" % (np.abs(pred_m - it["pred_impl"]).max(), np.max(tp), cfg)))
                continue
        else:
            z = col2(b["vals"])
            L_m = mats[2] if len(mats) > 2 else b["Lgiven"]
            mm = L_m.shape[0]
            res = np.abs(L_m.T @ w_m - z)
            bound = 8 * mm * U * (np.abs(L_m.T) @ np.abs(w_m)) + 1e-300
            ok = not (res > bound).any()
            if len(mats) > 2:
                kind = {"ymean": "ymean", "ymean_factor": "ymean", "zero": "scalar", "scalar": "scalar", "vector": "vector"}[cfg["noise"]]
                Astat = b["K_bb"] + noise_matrix(kind, b["sigma"], cfg["jitter"], b["m"])
                ok = ok and np.linalg.norm(L_m @ L_m.T - Astat) <= 2 * (mm + 1) * mm * U * np.linalg.norm(Astat)
                # prediction agreement: perturbation of the Cholesky factor (Higham Thm 10.8) through K_* L^-T
                amin = np.diag(Astat - b["K_bb"]).min()
                kap = (np.linalg.norm(b["K_bb"], 2) + np.diag(Astat - b["K_bb"]).max()) / amin
                kss = float(np.max(np.asarray(b["cov"].diag(b["Xq"]), dtype=float)))
                tp = 8 * np.sqrt(max(kss, 0)) * kap * mm * mm * U * np.linalg.norm(L_m, 2) * (np.linalg.norm(w_m) + np.linalg.norm(it["w_impl"])) \
                    + 8 * mm * U * float(np.max(np.abs(Ks) @ (np.abs(w_m) + np.abs(it["w_impl"])))) + 8 * U * abs(b["mu"])
            else:
                tp = 16 * mm * U * float(np.max(np.abs(Ks) @ (np.abs(w_m) + np.abs(it["w_impl"])))) + 8 * U * abs(b["mu"]) \
                    + 8 * mm * mm * U * np.linalg.cond(L_m) * float(np.max(np.abs(Ks) @ np.abs(w_m)))
            if not ok:
                ctx.broken.append(Broken("correspondence", name, "generated model violates L^T w = z / L L^T = K + N, configuration %r" % cfg))
                continue
            if not (np.abs(pred_m - it["pred_impl"]) <= tp).all():
                ctx.broken.append(Broken("correspondence", name, "model and implementation predictions differ by %.3g > %.3g, configuration %r" % (np.abs(pred_m - it["pred_impl"]).max(), tp, cfg)))
                continue
        n_ok += 1
    return n_ok
