"""check <ID> [--tier quick|thorough] [--replay FILE]"""
import argparse
import importlib
import json
import logging
import os
import sys
import traceback

from . import core


def main():
    ap = argparse.ArgumentParser()
    ap.add_argument("pid")
    ap.add_argument("--tier", default=os.environ.get("VERIF_TIER", "quick"))
    ap.add_argument("--replay", default=None)
    a = ap.parse_args()
    tier = a.tier if a.tier in ("quick", "thorough") else "quick"
    try:
        seed = int(os.environ.get("VERIF_SEED", "0"))
    except ValueError:
        seed = 0
    ctx = core.Ctx(a.pid, tier, seed)
    mod = importlib.import_module("checks." + a.pid)
    if a.replay:
        with open(a.replay) as f:
            rep = json.load(f)
        if hasattr(mod, "replay"):
            sys.exit(mod.replay(ctx, rep))
        # generic replay: show what was recorded and re-run the (deterministic, seeded) check that produced it
        print("replaying %s: key=%s" % (a.replay, rep.get("key", rep.get("obligation"))))
        print(json.dumps(rep.get("replay", rep.get("detail")), indent=1, default=str)[:4000])
        ctx.seed = int(os.path.basename(a.replay).split("-")[1]) if os.path.basename(a.replay).split("-")[1].isdigit() else ctx.seed
    try:
        mod.run(ctx)
    except core.Broken as b:
        ctx.broken.append(b)
    except Exception as e:  # the machinery itself failed: never silently pass
        ctx.broken.append(core.Broken("harness", type(e).__name__, traceback.format_exc()))
    sys.exit(ctx.finish())


if __name__ == "__main__":
    main()
