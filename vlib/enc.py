"""Python value -> Gallina literal of type PyVal.val / res val."""
from fractions import Fraction
import math

import numpy as np


def Z(n):
    n = int(n)
    return str(n) if n >= 0 else "(%d)" % n


def Qlit(fr):
    fr = Fraction(fr)
    return "(%s # %d)" % (Z(fr.numerator), fr.denominator)


def xf(x):
    x = float(x)
    if math.isnan(x):
        return "XNaN"
    if math.isinf(x):
        return "XPInf" if x > 0 else "XNInf"
    return "(XFin %s)" % Qlit(Fraction(x))


def coq_str(s):
    return '"' + s.replace('"', '""') + '"%string'


NP_DISTINCT = False      # when True, numpy.ndarray values are encoded as VNpArr (not instances of jax.numpy.ndarray)


def val(v):
    import jax
    from mellon.util import GaussianProcessType
    if v is None:
        return "VNone"
    if isinstance(v, (bool, np.bool_)) and not isinstance(v, np.ndarray):
        return "(VBool %s)" % ("true" if bool(v) else "false")
    if isinstance(v, GaussianProcessType):
        return "(VEnum %s)" % v.name
    if isinstance(v, int) and not isinstance(v, bool):
        return "(VInt %s)" % Z(v)
    if isinstance(v, np.floating):
        return "(VNpScalar KF %s)" % xf(v)
    if isinstance(v, np.integer):
        return "(VNpScalar KI %s)" % xf(int(v))
    if isinstance(v, float):
        return "(VFloat %s)" % xf(v)
    if isinstance(v, str):
        return "(VStr %s)" % coq_str(v)
    if isinstance(v, (np.ndarray, jax.Array)):
        a = np.asarray(v)
        if a.dtype == bool:
            k = "KB"
        elif np.issubdtype(a.dtype, np.integer):
            k = "KI"
        else:
            k = "KF"
        if k == "KI" and a.ndim == 0 and isinstance(v, jax.Array):
            return "(VJInt %s)" % Z(int(a))
        data = "; ".join(xf(x) for x in a.astype(float).ravel())
        ctor = "VNpArr" if (NP_DISTINCT and isinstance(v, np.ndarray)) else "VArr"
        return "(%s %s [%s] [%s])" % (ctor, k, "; ".join(Z(s) for s in a.shape), data)
    if isinstance(v, tuple):
        return "(VTuple [%s])" % "; ".join(val(x) for x in v)
    if isinstance(v, list):
        return "(VList [%s])" % "; ".join(val(x) for x in v)
    if isinstance(v, dict):
        return "(VDict [%s])" % "; ".join("(%s, %s)" % (val(k), val(x)) for k, x in v.items())
    if isinstance(v, (set, frozenset)):
        return "(VSet [%s])" % "; ".join(val(x) for x in v)
    if isinstance(v, slice):
        return "(VSlice %s %s %s)" % (val(v.start), val(v.stop), val(v.step))
    if isinstance(v, Obj):
        return "(VObj %s %s)" % (coq_str(v.cls), Z(v.id))
    raise TypeError("cannot encode %r" % (type(v),))


class Obj:
    """opaque object in the model: class name and identity"""

    def __init__(self, cls, id):
        self.cls, self.id = cls, id


EXN = {"ValueError", "TypeError", "AttributeError", "AssertionError", "IndexError", "KeyError"}


def outcome(fn):
    """run fn(); return ('ok', value) or ('err', class name)"""
    try:
        return ("ok", fn())
    except Exception as e:  # noqa
        return ("err", type(e).__name__)


def res(o):
    kind, v = o
    if kind == "ok":
        return "(Ok %s)" % val(v)
    return "(Err %s)" % (v if v in EXN else "OtherError")
