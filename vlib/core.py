"""Shared machinery of the /verif checks: Coq build, case evaluation inside Coq,
evidence files, violation reporting, known findings."""
import fcntl
import glob
import hashlib
import json
import os
import re
import subprocess
import sys
import time
import traceback

VERIF = os.path.dirname(os.path.dirname(os.path.abspath(__file__)))
REPO = os.environ.get("MELLON_REPO", "/repo")
COQ = os.path.join(VERIF, "coq")
BUILD = os.path.join(VERIF, "build")
NCPU = int(os.environ.get("VERIF_JOBS", "16"))

FORBIDDEN = re.compile(r"\b(Admitted|admit|Axiom|Parameter|Conjecture|Unset\s+Guard|bypass_check|"
                       r"type-in-type|impredicative-set|Admit\s+Obligations)\b")


class Broken(Exception):
    """An obligation (translation, proof, correspondence) no longer checks."""

    def __init__(self, kind, name, detail=""):
        super().__init__("%s %s: %s" % (kind, name, detail[:2000]))
        self.kind, self.name, self.detail = kind, name, detail


def sh(cmd, timeout=600, cwd=None, env=None, input=None):
    try:
        p = subprocess.run(cmd, shell=isinstance(cmd, str), cwd=cwd, env=env, input=input,
                           stdout=subprocess.PIPE, stderr=subprocess.STDOUT, timeout=timeout, text=True)
        out = "\n".join(l for l in p.stdout.splitlines() if "auto_activate" not in l)
        return p.returncode, out
    except subprocess.TimeoutExpired as e:
        return 124, "TIMEOUT after %ss: %s" % (timeout, (e.stdout or "")[-2000:] if isinstance(e.stdout, str) else "")


class Lock:
    def __init__(self, name="coq"):
        os.makedirs(BUILD, exist_ok=True)
        self.path = os.path.join(BUILD, "." + name + ".lock")

    def __enter__(self):
        self.f = open(self.path, "w")
        fcntl.flock(self.f, fcntl.LOCK_EX)
        return self

    def __exit__(self, *a):
        fcntl.flock(self.f, fcntl.LOCK_UN)
        self.f.close()


def write_if_changed(path, text):
    os.makedirs(os.path.dirname(path), exist_ok=True)
    try:
        with open(path) as f:
            if f.read() == text:
                return False
    except FileNotFoundError:
        pass
    with open(path, "w") as f:
        f.write(text)
    return True


def coq_sources():
    out = []
    for sub in ("lib", "gen", "thm", "props"):
        out += sorted(glob.glob(os.path.join(COQ, sub, "*.v")))
    return out


def textual_gate():
    """No Admitted / Axiom / ... anywhere in the development (comments included: keep it strict)."""
    bad = []
    for p in coq_sources():
        with open(p) as f:
            for i, line in enumerate(f, 1):
                if FORBIDDEN.search(line):
                    bad.append("%s:%d: %s" % (os.path.relpath(p, VERIF), i, line.strip()))
    return bad


def coq_make(targets, timeout=1500):
    """(Re)build the given .vo targets (paths relative to coq/) and what they depend on.
    Must be called with the coq Lock held."""
    srcs = [os.path.relpath(p, COQ) for p in coq_sources()]
    proj = "-R . MellonV\n-arg -w -arg -notation-overridden,-deprecated-hint-without-locality,-deprecated-instance-without-locality,-ambiguous-paths,-redundant-canonical-projection,-deprecated-hint-rewrite-without-locality,-deprecated\n" + "\n".join(srcs) + "\n"
    if write_if_changed(os.path.join(COQ, "_CoqProject"), proj) or not os.path.exists(os.path.join(COQ, "Makefile")):
        rc, out = sh("coq_makefile -f _CoqProject -o Makefile", cwd=COQ, timeout=120)
        if rc != 0:
            raise Broken("build", "coq_makefile", out)
    rc, out = sh("timeout %d make -k -j%d %s" % (timeout, NCPU, " ".join(targets)), cwd=COQ, timeout=timeout + 30)
    return rc, out


def coqc_file(path, timeout=600, extra=""):
    """compile one file outside the Makefile (cases, property files), capturing its output"""
    # generated case files hold long list literals: coqc needs a deep stack for them (8 MB overflows around 10^4 elements)
    rc, out = sh("ulimit -s unlimited 2>/dev/null || ulimit -s 1000000 2>/dev/null; timeout %d coqc -q -w none -R %s MellonV %s %s"
                 % (timeout, COQ, extra, path), timeout=timeout + 30, cwd=os.path.dirname(path))
    return rc, out


def parse_assumptions(out, names):
    """Print Assumptions blocks appear in file order: pair them with the theorem names."""
    blocks = []
    cur = None
    for line in out.splitlines():
        if line.startswith("Closed under the global context"):
            blocks.append([])
            cur = None
            continue
        if line.startswith("Axioms:"):
            cur = []
            blocks.append(cur)
            continue
        if cur is not None:
            m = re.match(r"^([A-Za-z_][\w.']*)\s*$|^([A-Za-z_][\w.']*)\s*:", line)
            if m:
                cur.append(m.group(1) or m.group(2))
    return {n: b for n, b in zip(names, blocks)}


def first_coq_error(out):
    m = re.search(r'File "([^"]+)", line (\d+), characters [\d-]+:\s*\nError:(.*?)(?:\n\n|\Z)', out, re.S)
    if m:
        return "%s:%s: %s" % (m.group(1), m.group(2), " ".join(m.group(3).split())[:600])
    return out[-1500:]


def theorem_at(path, line):
    """name of the last Theorem/Lemma/... that starts at or before `line` in `path`"""
    name = None
    try:
        with open(path) as f:
            for i, l in enumerate(f, 1):
                if i > line:
                    break
                m = re.match(r"\s*(Theorem|Lemma|Corollary|Example|Fact|Proposition|Definition|Fixpoint)\s+([\w']+)", l)
                if m:
                    name = m.group(2)
    except OSError:
        pass
    return name


def count_theorems(path):
    n = []
    with open(path) as f:
        for l in f:
            m = re.match(r"\s*(Theorem|Lemma|Corollary|Example|Fact|Proposition)\s+([\w']+)", l)
            if m:
                n.append(m.group(2))
    return n


class Ctx:
    def __init__(self, pid, tier, seed):
        self.pid, self.tier, self.seed = pid, tier, seed
        self.t0 = time.time()
        self.violations = []     # (key, what, replay dict)
        self.known_hits = []
        self.cov = {"obligations": 0, "discharged": 0, "checker_cmd": "", "trusted_base": [],
                    "theorems": [], "axioms": {}, "translated_functions": [], "evaluations": 0,
                    "distinct_nontrivial": 0, "rule": "", "samples": [], "traces_validated_against_impl": 0,
                    "input_distribution": {}, "broken": []}
        self.assumptions = []
        self.dir = os.path.join(BUILD, pid)
        os.makedirs(os.path.join(self.dir, "cases"), exist_ok=True)
        os.makedirs(os.path.join(VERIF, "replays"), exist_ok=True)
        self.known = load_known(pid)
        self.thorough = tier == "thorough"
        self.broken = []         # Broken exceptions collected

    # ---- Coq side -------------------------------------------------------
    def build_props(self, gen_files=None, extra_targets=()):
        """gen_files: {relative path under coq/: text}.  Builds props/<pid>.v and its dependencies.
        Returns True when every obligation checked."""
        prop = "props/%s.v" % self.pid
        with Lock():
            # generated files are rewritten exactly when their content changes; in addition the content each compiled file of THIS tree
            # was last built from is remembered (build/genhash.json): a source replaced from outside with an older time stamp
            # (rsync -a, a restore) next to a compiled file built from other content would otherwise be trusted by make
            hpath = os.path.join(BUILD, "genhash.json")
            try:
                with open(hpath) as f:
                    seen = json.load(f)
            except (OSError, ValueError):
                seen = {}
            for rel, text in (gen_files or {}).items():
                path = os.path.join(COQ, rel)
                h = hashlib.sha1(text.encode()).hexdigest()
                changed = write_if_changed(path, text)
                if not changed and seen.get(rel) != h and os.path.exists(path[:-2] + ".vo"):
                    os.utime(path)
                seen[rel] = h
            if gen_files:
                with open(hpath, "w") as f:
                    json.dump(seen, f)
            bad = textual_gate()
            if bad:
                self.broken.append(Broken("gate", "forbidden-construct", "\n".join(bad)))
                return False
            deps_rc, deps_out = coq_make(["props/%s.vo" % self.pid] + list(extra_targets))
            with open(os.path.join(self.dir, "make.log"), "w") as f:
                f.write(deps_out)
            if deps_rc != 0:
                err = first_coq_error(deps_out)
                m = re.match(r"\./?([^:]+):(\d+):", err)
                thm = None
                if m:
                    thm = theorem_at(os.path.join(COQ, m.group(1)), int(m.group(2)))
                self.broken.append(Broken("proof", thm or "build", err))
                names = count_theorems(os.path.join(COQ, prop))
                self.cov["obligations"] = max(len(names), 1)
                self.cov["discharged"] = 0
                self.cov["theorems"] = names
                return False
            # recompile the property file alone to capture Print Assumptions
            rc, out = coqc_file(os.path.join(COQ, prop))
        names = count_theorems(os.path.join(COQ, prop))
        self.cov["theorems"] = names
        self.cov["obligations"] = len(names)
        if rc != 0:
            self.broken.append(Broken("proof", "props", first_coq_error(out)))
            self.cov["discharged"] = 0
            return False
        with open(os.path.join(COQ, prop)) as f:
            pa = re.findall(r"^Print Assumptions ([\w']+)\.", f.read(), re.M)
        ax = parse_assumptions(out, pa)
        if len(ax) != len(pa):
            self.broken.append(Broken("proof", "print-assumptions", "could not pair Print Assumptions output"))
            return False
        self.cov["axioms"] = ax
        self.cov["discharged"] = len(names)
        self.cov["checker_cmd"] = "cd /verif/coq && coq_makefile -f _CoqProject -o Makefile && make props/%s.vo  (coqc 8.16.1, full .vo build)" % self.pid
        return True

    def coq_eval(self, name, body, timeout=600, imports=""):
        """Compile a generated cases file; returns its stdout.  Raises Broken on failure."""
        path = os.path.join(self.dir, "cases", name + ".v")
        with open(path, "w") as f:
            f.write(body)
        rc, out = coqc_file(path, timeout=timeout)
        if rc != 0:
            raise Broken("correspondence", name, first_coq_error(out))
        return out

    def run_cases(self, name, imports, cases, shard=250, timeout=900):
        """cases: list of (model_term : res val, expected_term : res val) as Coq text.
        Evaluates every case with vm_compute inside Coq; returns {index: printed model value}
        for the cases where model and implementation differ."""
        from concurrent.futures import ThreadPoolExecutor
        shards = [list(range(i, min(i + shard, len(cases)))) for i in range(0, len(cases), shard)]
        hdr = "From Coq Require Import ZArith QArith List String.\nFrom MellonV Require Import %s.\nImport ListNotations.\nOpen Scope Z_scope.\n" % imports

        def one(k):
            idx = shards[k]
            body = [hdr]
            for i in idx:
                body.append("Definition m%d := %s." % (i, cases[i][0]))
            body.append("Definition cases_ : list (nat * bool) := [%s]." % "; ".join(
                "(%d%%nat, res_eqb m%d %s)" % (i, i, cases[i][1]) for i in idx))
            body.append("Eval vm_compute in (failing cases_).")
            out = self.coq_eval("%s_%d" % (name, k), "\n".join(body), timeout=timeout)
            m = re.search(r"=\s*\[(.*?)\]\s*:\s*list nat", out, re.S)
            if not m:
                raise Broken("correspondence", name, "unparsable Coq output: " + out[-500:])
            bad = [int(x.replace("%nat", "")) for x in re.findall(r"\d+(?:%nat)?", m.group(1))]
            res = {}
            if bad:
                body2 = [hdr] + ["Definition m%d := %s." % (i, cases[i][0]) for i in bad]
                for i in bad[:10]:
                    body2.append('Eval vm_compute in m%d.' % i)
                out2 = self.coq_eval("%s_%d_diag" % (name, k), "\n".join(body2), timeout=timeout)
                parts = re.split(r"\n\s*=\s", "\n" + out2)
                for i, ptxt in zip(bad[:10], parts[1:]):
                    res[i] = " ".join(ptxt.split())[:1500]
                for i in bad[10:]:
                    res[i] = "(not printed)"
            return res
        allbad = {}
        with ThreadPoolExecutor(max_workers=min(NCPU, max(1, len(shards)))) as ex:
            for r in ex.map(one, range(len(shards))):
                allbad.update(r)
        return allbad

    # ---- reporting ------------------------------------------------------
    def violation(self, key, what, replay):
        for k in self.known:
            if k["status"] == "known" and k["key"] == key:
                if key not in [h[0] for h in self.known_hits]:
                    self.known_hits.append((key, k.get("what", what)))
                return
        self.violations.append((key, what, replay))

    def finish(self):
        wall = time.time() - self.t0
        for key, what in self.known_hits:
            print("KNOWN-FINDING: property=%s %s" % (self.pid, what))
        rc = 0
        if self.broken and not self.violations:
            # an obligation broke and the searcher found no concrete failing input
            b = self.broken[0]
            path = os.path.join(VERIF, "replays", "%s-broken-%d.json" % (self.pid, self.seed))
            with open(path, "w") as f:
                json.dump({"property": self.pid, "kind": "broken-obligation", "obligation_kind": b.kind,
                           "obligation": b.name, "detail": b.detail, "all_broken": [str(x) for x in self.broken],
                           "note": "no concrete failing input found by the searcher"}, f, indent=1, default=str)
            print("VIOLATION property=%s replay=%s no-failing-input-found" % (self.pid, path))
            rc = 1
        for i, (key, what, replay) in enumerate(self.violations[:5]):
            path = os.path.join(VERIF, "replays", "%s-%d-%d.json" % (self.pid, self.seed, i))
            with open(path, "w") as f:
                json.dump({"property": self.pid, "key": key, "what": what, "replay": replay,
                           "broken_obligations": [str(x) for x in self.broken]}, f, indent=1, default=str)
            print("VIOLATION property=%s replay=%s" % (self.pid, path))
            rc = 1
        self.cov["broken"] = [str(b) for b in self.broken]
        self.cov["known_findings_reproduced"] = [k for k, _ in self.known_hits]
        if self.cov["discharged"] == 0:
            # schema: a proof-level file must not claim 0 discharged; fall back to the generic keys
            self.cov["obligations_total"] = self.cov.pop("obligations")
            self.cov["obligations_discharged"] = self.cov.pop("discharged")
            self.cov["evaluations"] = max(self.cov["evaluations"], 1)
            self.cov["distinct_nontrivial"] = max(self.cov["distinct_nontrivial"], 2)
        if not self.cov["samples"]:
            self.cov["samples"] = ["(none)"]
        ev = {"property_id": self.pid, "tier": self.tier, "seed": self.seed, "level": "proof",
              "coverage": self.cov, "assumptions": self.assumptions, "wall_s": round(wall, 2),
              "violations": len(self.violations) + (1 if (self.broken and not self.violations) else 0)}
        # runs against a scratch copy (seeded changes) must not overwrite the evidence of the real tree
        evdir = os.path.join(VERIF, "evidence") if REPO == "/repo" else os.path.join(BUILD, "evidence-scratch")
        os.makedirs(evdir, exist_ok=True)
        with open(os.path.join(evdir, self.pid + ".json"), "w") as f:
            json.dump(ev, f, indent=1, default=str)
        print("%s %s: obligations %d/%d, evaluations %d, %.1fs, %s" % (
            self.pid, self.tier, self.cov.get("discharged", 0), self.cov.get("obligations", self.cov.get("obligations_total", 0)), self.cov["evaluations"], wall,
            "OK" if rc == 0 else "FAIL"))
        return rc


def load_known(pid):
    out = []
    p = os.path.join(VERIF, "known_findings.jsonl")
    if os.path.exists(p):
        with open(p) as f:
            for line in f:
                line = line.strip()
                if line:
                    d = json.loads(line)
                    if d["property"] == pid:
                        out.append(d)
    return out


TRUSTED_COMMON = [
    "Coq 8.16.1 kernel (coqc, full .vo build; vm_compute used for executing models and reflexive checks; no native_compute)",
    "translator /verif/translate (Python-ast -> Gallina, fail closed)",
    "correspondence harness /verif/checks + /verif/vlib (compares printed/encoded results only)",
]
